"""Tri-valued evaluation of loop conditions and bodies in the abstract state
"past the end of input": every token look-up whose position depends on a
variable the loop modifies answers ``None`` (DESIGN.md §3.1, R-5.4).

Values:  T (True) / F (False) / N (None) / U (unknown) / X (evaluation raises,
e.g. attribute access on None).
"""
from __future__ import annotations

import ast
from typing import List, Optional, Set, Tuple

T, F, N, U, X = "T", "F", "N", "U", "X"

LOOKUPS = {"check_token", "peek_token", "peek", "raw_peek"}


def truthy(v) -> Optional[bool]:
    if v == T:
        return True
    if v in (F, N):
        return False
    return None        # U (X handled by callers)


def _names(e) -> Set[str]:
    return {n.id for n in ast.walk(e) if isinstance(n, ast.Name)}


class EndState:
    """Evaluator bound to one loop: *modified* = names assigned in the loop."""

    def __init__(self, modified: Set[str], lexer_mode=False):
        self.modified = modified
        self.lexer_mode = lexer_mode
        self.none_names: Set[str] = set()       # names bound (by walrus / assignment) to a look-up answering None

    def is_lookup(self, call: ast.Call) -> bool:
        f = call.func
        if not (isinstance(f, ast.Attribute) and f.attr in LOOKUPS):
            return False
        if f.attr in ("peek", "raw_peek"):
            return self.lexer_mode      # Lexer.peek / raw_peek: at end of input every look-up answers None
        pos = call.args[0] if call.args else None
        if pos is None:
            for k in call.keywords:
                if k.arg == "pos":
                    pos = k.value
        if pos is None:
            return False
        return bool(_names(pos) & self.modified)

    def ev(self, e) -> str:
        if isinstance(e, ast.Constant):
            if e.value is True:
                return T
            if e.value is False:
                return F
            if e.value is None:
                return N
            return T if e.value else F
        if isinstance(e, ast.Call):
            if self.is_lookup(e):
                return N
            # a call on a None receiver raises
            if isinstance(e.func, ast.Attribute):
                b = self.ev(e.func.value)
                if b == N:
                    return X
                if b == X:
                    return X
            return U
        if isinstance(e, ast.NamedExpr):
            v = self.ev(e.value)
            if v == N:
                self.none_names.add(e.target.id)
            else:
                self.none_names.discard(e.target.id)
            return v
        if isinstance(e, ast.Name):
            if e.id in self.none_names:
                return N
            return U
        if isinstance(e, ast.Attribute):
            b = self.ev(e.value)
            if b == N or b == X:
                return X
            return U
        if isinstance(e, ast.Subscript):
            b = self.ev(e.value)
            if b == N or b == X:
                return X
            return U
        if isinstance(e, ast.UnaryOp) and isinstance(e.op, ast.Not):
            v = self.ev(e.operand)
            if v == X:
                return X
            t = truthy(v)
            return U if t is None else (F if t else T)
        if isinstance(e, ast.BoolOp):
            is_and = isinstance(e.op, ast.And)
            unknown = False
            last = U
            for sub in e.values:
                v = self.ev(sub)
                if v == X:
                    return U if unknown else X
                t = truthy(v)
                last = v
                if t is None:
                    unknown = True
                    continue
                # a definitely falsy operand of `and` (truthy operand of `or`) decides the result
                # whatever the unknown operands before it were: either one of them already
                # short-circuited with the same truth value, or this operand is reached.
                if is_and and not t:
                    return F if unknown else v
                if not is_and and t:
                    return T if unknown else v
            if unknown:
                # all decided operands were neutral; result depends on the unknown ones
                return U
            return last
        if isinstance(e, ast.Compare):
            if len(e.ops) != 1:
                for sub in [e.left] + list(e.comparators):
                    if self.ev(sub) == X:
                        return X
                return U
            op, rhs = e.ops[0], e.comparators[0]
            l, r = self.ev(e.left), self.ev(rhs)
            if l == X or r == X:
                return X
            if isinstance(op, (ast.Is, ast.IsNot)):
                a, b = self._sid(e.left, l), self._sid(rhs, r)
                if a is not None and b is not None:
                    same = a == b
                    return (T if same else F) if isinstance(op, ast.Is) else (F if same else T)
                return U
            if isinstance(op, (ast.Eq, ast.NotEq)):
                if l == N and self._is_nonnone_literal(rhs) or r == N and self._is_nonnone_literal(e.left):
                    return F if isinstance(op, ast.Eq) else T
                if l == N and r == N:
                    return T if isinstance(op, ast.Eq) else F
                return U
            if isinstance(op, (ast.In, ast.NotIn)):
                if l == N and isinstance(rhs, (ast.List, ast.Tuple, ast.Set)) and all(
                        self._is_nonnone_literal(x) for x in rhs.elts):
                    return F if isinstance(op, ast.In) else T
                return U
            if l == N or r == N:
                return X                  # ordering comparison with None raises TypeError
            return U
        if isinstance(e, ast.IfExp):
            c = self.ev(e.test)
            if c == X:
                return X
            t = truthy(c)
            if t is True:
                return self.ev(e.body)
            if t is False:
                return self.ev(e.orelse)
            return U
        return U

    @staticmethod
    def _sid(node, v):
        """Identity of a singleton operand: 'True' / 'False' / 'None', or None when unknown."""
        if isinstance(node, ast.Constant):
            if node.value is True:
                return "True"
            if node.value is False:
                return "False"
            if node.value is None:
                return "None"
            return "other"
        if v == N:
            return "None"
        return None

    @staticmethod
    def _is_nonnone_literal(node) -> bool:
        return isinstance(node, (ast.Constant, ast.JoinedStr)) and getattr(node, "value", 0) is not None \
            or isinstance(node, (ast.List, ast.Tuple, ast.Dict, ast.Set, ast.BinOp))


class BodyResult:
    def __init__(self):
        self.exit_reachable = False          # break (of this loop) / return / raise / evaluation that raises
        self.assigned: Set[str] = set()      # names (and attribute texts) assigned on feasible paths
        self.calls_on_paths: List[ast.Call] = []


def explore_body(stmts, st: EndState, res: BodyResult, loop_depth=0) -> bool:
    """Walk *stmts* in the end state.  Returns True if control may fall through
    the end of the block."""
    for s in stmts:
        if not _explore_stmt(s, st, res, loop_depth):
            return False
    return True


def _record_assign(target, res: BodyResult):
    if isinstance(target, ast.Name):
        res.assigned.add(target.id)
    elif isinstance(target, (ast.Tuple, ast.List)):
        for e in target.elts:
            _record_assign(e, res)
    elif isinstance(target, ast.Starred):
        _record_assign(target.value, res)
    elif isinstance(target, (ast.Attribute, ast.Subscript)):
        res.assigned.add(ast.unparse(target))
        # a store through an object may change what the condition reads from it
        base = target
        while isinstance(base, (ast.Attribute, ast.Subscript)):
            base = base.value
        if isinstance(base, ast.Name):
            res.assigned.add(base.id + ".*")


def _scan_expr(e, st: EndState, res: BodyResult) -> bool:
    """Evaluate sub-expressions for raising look-up dereferences and walrus effects.
    Returns False when evaluation definitely raises."""
    if e is None:
        return True
    v = st.ev(e)
    for n in ast.walk(e):
        if isinstance(n, ast.NamedExpr):
            res.assigned.add(n.target.id)
    return v != X


def _explore_stmt(s, st: EndState, res: BodyResult, loop_depth) -> bool:
    if isinstance(s, (ast.Return, ast.Raise)):
        res.exit_reachable = True
        return False
    if isinstance(s, ast.Break):
        if loop_depth == 0:
            res.exit_reachable = True
        return False
    if isinstance(s, ast.Continue):
        return False
    if isinstance(s, ast.If):
        c = st.ev(s.test)
        for n in ast.walk(s.test):
            if isinstance(n, ast.NamedExpr):
                res.assigned.add(n.target.id)
        if c == X:
            res.exit_reachable = True
            return False
        t = truthy(c)
        ft = False
        if t is not False:
            ft |= explore_body(s.body, st, res, loop_depth)
        if t is not True:
            ft |= explore_body(s.orelse, st, res, loop_depth) if s.orelse else True
        return ft
    if isinstance(s, (ast.While, ast.For)):
        if isinstance(s, ast.While):
            c = st.ev(s.test)
            if c == X:
                res.exit_reachable = True
                return False
            t = truthy(c)
        else:
            t = None
            _record_assign(s.target, res)
        if t is not False:
            explore_body(s.body, st, res, loop_depth + 1)
        if s.orelse:
            explore_body(s.orelse, st, res, loop_depth)
        return True
    if isinstance(s, ast.Try):
        ft = explore_body(s.body, st, res, loop_depth)
        for h in s.handlers:
            ft |= explore_body(h.body, st, res, loop_depth)
        if s.orelse:
            ft = explore_body(s.orelse, st, res, loop_depth) if ft else ft
        if s.finalbody:
            ft = explore_body(s.finalbody, st, res, loop_depth) and ft
        return ft
    if isinstance(s, ast.With):
        return explore_body(s.body, st, res, loop_depth)
    if isinstance(s, ast.Assign):
        ok = _scan_expr(s.value, st, res)
        if not ok:
            res.exit_reachable = True
            return False
        v = st.ev(s.value)
        for t_ in s.targets:
            _record_assign(t_, res)
            if isinstance(t_, ast.Name):
                if v == N:
                    st.none_names.add(t_.id)
                else:
                    st.none_names.discard(t_.id)
        return True
    if isinstance(s, ast.AugAssign):
        _record_assign(s.target, res)
        return True
    if isinstance(s, ast.AnnAssign):
        if s.value is not None:
            _record_assign(s.target, res)
        return True
    if isinstance(s, ast.Expr):
        if not _scan_expr(s.value, st, res):
            res.exit_reachable = True
            return False
        # method calls that mutate an object named in the condition
        if isinstance(s.value, ast.Call) and isinstance(s.value.func, ast.Attribute):
            b = s.value.func.value
            while isinstance(b, (ast.Attribute, ast.Subscript)):
                b = b.value
            if isinstance(b, ast.Name):
                res.assigned.add(b.id + ".*")
        return True
    return True
