"""sa — repository-specific static analysis of 42School/norminette (see /verif/DESIGN.md)."""
