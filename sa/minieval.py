"""The analyser's own small evaluator for *pure, loop-free-or-simply-looping*
function bodies over finite abstract domains (order types of comparator fields,
level lists of Errors.status, column residues of the tab-stop expression).

It interprets the AST of the repository function; it never imports or calls
repository code.  Anything outside the supported subset raises ``Unsupported``
(the calling rule then reports ANALYSIS-ERROR, never a pass).
"""
from __future__ import annotations

import ast
from typing import Any, Dict, Optional


class Unsupported(Exception):
    pass


class Obj:
    """Attribute bag standing for an instance."""

    def __init__(self, _cls="Obj", **kw):
        self._cls = _cls
        self.__dict__.update(kw)

    def __repr__(self):
        return f"{self._cls}({', '.join(f'{k}={v!r}' for k, v in self.__dict__.items() if k != '_cls')})"


class ClassRef:
    """Stands for a repository class object (used for classmethods and construction)."""

    def __init__(self, name: str):
        self.name = name

    def __repr__(self):
        return f"<class {self.name}>"


class _Return(Exception):
    def __init__(self, v):
        self.v = v


class Raised(Exception):
    """An exception raised by the interpreted code with ``raise Name(...)`` / ``raise Name`` (class name only)."""

    def __init__(self, name: str, args=()):
        super().__init__(name)
        self.name = name
        self.exc_args = tuple(args)


class _Break(Exception):
    pass


class _Continue(Exception):
    pass


_NT_CACHE: Dict[int, Any] = {}


def namedtuple_of(cnode: ast.ClassDef, eval_default=None):
    """A repository class `class P(NamedTuple): a: int; b: str = ''` as a Python namedtuple type (None if it is not one).
    Methods defined on it are not carried over (Unsupported when they are looked up)."""
    if id(cnode) in _NT_CACHE:
        return _NT_CACHE[id(cnode)]
    import collections
    res = None
    if any(ast.unparse(b).split(".")[-1] == "NamedTuple" for b in cnode.bases):
        fields, defaults = [], []
        ok = True
        for st in cnode.body:
            if isinstance(st, ast.AnnAssign) and isinstance(st.target, ast.Name):
                fields.append(st.target.id)
                if st.value is not None:
                    try:
                        defaults.append(eval_default(st.value) if eval_default else ast.literal_eval(st.value))
                    except Exception:
                        ok = False
                elif defaults:
                    ok = False
            elif isinstance(st, ast.Expr) and isinstance(st.value, ast.Constant):
                continue
            elif isinstance(st, ast.Pass):
                continue
            else:
                ok = False
        if ok and fields:
            res = collections.namedtuple(cnode.name, fields, defaults=defaults or None)
    _NT_CACHE[id(cnode)] = res
    return res


class Evaluator:
    def __init__(self, methods: Optional[Dict[str, Any]] = None, max_steps=20000, functions=None, lookup=None,
                 natives=None, modules=None):
        # methods: (class name, method name) -> ast.FunctionDef, used for dunder dispatch (__lt__) and properties
        self.methods = methods or {}
        self.functions = functions or {}       # name -> ast.FunctionDef (pure helpers, inlined one call deep)
        self.lookup = lookup                   # callback(name) -> ast.expr | None for lazily bound locals
        self._call_depth = 0
        self.natives = natives or {}           # (class, method) -> python callable(*args) standing for a repo method
        self.classes = {}                      # class name -> ast.ClassDef (dataclasses / plain classes that may be built)
        self.globals = {}                      # free names of the interpreted module (folded tables etc.)
        self.modules = modules or {}           # module name -> {attribute: value or python callable}
        self.steps = 0
        self.max_steps = max_steps

    # ------------------------------------------------------------------ calls
    def call_function(self, fnode: ast.FunctionDef, args: Dict[str, Any]):
        env = dict(args)
        try:
            self.block(fnode.body, env)
        except _Return as r:
            return r.v
        return None

    def block(self, stmts, env):
        for st in stmts:
            self.stmt(st, env)

    def stmt(self, st, env):
        self.steps += 1
        if self.steps > self.max_steps:
            raise Unsupported("step budget exceeded")
        if isinstance(st, ast.Return):
            raise _Return(self.expr(st.value, env) if st.value is not None else None)
        if isinstance(st, ast.Expr):
            if isinstance(st.value, ast.Constant):
                return
            self.expr(st.value, env)
            return
        if isinstance(st, ast.Assert):
            return                              # type contracts: not modelled
        if isinstance(st, ast.Pass):
            return
        if isinstance(st, ast.If):
            self.block(st.body if self.truth(self.expr(st.test, env)) else st.orelse, env)
            return
        if isinstance(st, ast.Assign):
            v = self.expr(st.value, env)
            for t in st.targets:
                self.assign(t, v, env)
            return
        if isinstance(st, ast.AnnAssign):
            if st.value is not None:
                self.assign(st.target, self.expr(st.value, env), env)
            return
        if isinstance(st, ast.AugAssign) and isinstance(st.target, ast.Name):
            cur = env[st.target.id]
            val = self.expr(st.value, env)
            if isinstance(cur, list) and isinstance(st.op, ast.Add) and isinstance(val, (tuple, set, frozenset, str)):
                cur.extend(val)                 # list += iterable extends in place (list + tuple would be a TypeError)
                return
            env[st.target.id] = self.binop(st.op, cur, val)
            return
        if isinstance(st, ast.AugAssign) and isinstance(st.target, ast.Subscript) and not isinstance(st.target.slice, ast.Slice):
            base = self.expr(st.target.value, env)
            key = self.expr(st.target.slice, env)
            if not isinstance(base, (list, dict)):
                raise Unsupported("item update on non-container")
            base[key] = self.binop(st.op, base[key], self.expr(st.value, env))
            return
        if isinstance(st, ast.AugAssign) and isinstance(st.target, ast.Attribute):
            base = self.expr(st.target.value, env)
            if not isinstance(base, Obj):
                raise Unsupported("attribute store on non-object")
            base.__dict__[st.target.attr] = self.binop(st.op, base.__dict__[st.target.attr], self.expr(st.value, env))
            return
        if isinstance(st, ast.For):
            broke = False
            for item in self.iterate(self.expr(st.iter, env)):
                self.assign(st.target, item, env)
                try:
                    self.block(st.body, env)
                except _Break:
                    broke = True
                    break
                except _Continue:
                    continue
            if not broke:
                self.block(st.orelse, env)
            return
        if isinstance(st, ast.While):
            broke = False
            while self.truth(self.expr(st.test, env)):
                self.steps += 1
                if self.steps > self.max_steps:
                    raise Unsupported("step budget exceeded")
                try:
                    self.block(st.body, env)
                except _Break:
                    broke = True
                    break
                except _Continue:
                    continue
            if not broke:
                self.block(st.orelse, env)
            return
        if isinstance(st, ast.Raise):
            if st.exc is None:
                if getattr(self, "_active_exc", None) is not None:
                    raise self._active_exc
                raise Unsupported("bare raise outside a handler")
            target = st.exc.func if isinstance(st.exc, ast.Call) else st.exc
            if not isinstance(target, (ast.Name, ast.Attribute)):
                raise Unsupported("raise of a computed exception")
            if isinstance(target, ast.Name) and isinstance(env.get(target.id), Raised):
                raise env[target.id]
            cname = ast.unparse(target).split(".")[-1]
            args = [self.expr(a, env) for a in st.exc.args] if isinstance(st.exc, ast.Call) else []
            raise Raised(cname, args)
        if isinstance(st, ast.Try):
            self._try(st, env)
            return
        if isinstance(st, ast.Delete):
            for t in st.targets:
                if isinstance(t, ast.Subscript):
                    base = self.expr(t.value, env)
                    if isinstance(base, Obj):
                        raise Unsupported("del on object")
                    if isinstance(t.slice, ast.Slice):
                        lo = self.expr(t.slice.lower, env) if t.slice.lower else None
                        hi = self.expr(t.slice.upper, env) if t.slice.upper else None
                        sp = self.expr(t.slice.step, env) if t.slice.step else None
                        del base[lo:hi:sp]
                    else:
                        del base[self.expr(t.slice, env)]
                elif isinstance(t, ast.Name) and t.id in env:
                    del env[t.id]
                else:
                    raise Unsupported("del target")
            return
        if isinstance(st, ast.Break):
            raise _Break()
        if isinstance(st, ast.Continue):
            raise _Continue()
        raise Unsupported(f"statement {type(st).__name__}")

    # names of the classes an exception raised while interpreting belongs to (for `except` matching);
    # repository classes: through the optional hook self.exc_bases(name) -> set of names
    exc_bases = None
    max_call_depth = 8             # nesting of interpreted repository calls (a subclass may raise it)

    def _exc_names(self, e) -> set:
        if isinstance(e, Raised):
            names = {e.name, "Exception", "BaseException"}
            import builtins
            b = getattr(builtins, e.name, None)
            if isinstance(b, type) and issubclass(b, BaseException):
                names |= {c.__name__ for c in b.__mro__ if c is not object}
            if self.exc_bases is not None:
                names |= set(self.exc_bases(e.name))
            return names
        return {c.__name__ for c in type(e).__mro__ if c is not object}

    def _try(self, st: ast.Try, env):
        try:
            try:
                self.block(st.body, env)
            except (_Return, _Break, _Continue, Unsupported):
                raise
            except (Raised, LookupError, TypeError, ValueError, AttributeError, ArithmeticError, StopIteration) as e:
                names = self._exc_names(e)
                for h in st.handlers:
                    if h.type is None:
                        hn = {"BaseException"}
                    elif isinstance(h.type, ast.Tuple):
                        hn = {ast.unparse(x).split(".")[-1] for x in h.type.elts}
                    else:
                        hn = {ast.unparse(h.type).split(".")[-1]}
                    if hn & names:
                        if h.name:
                            env[h.name] = e if isinstance(e, Raised) else Raised(type(e).__name__, e.args)
                        prev = getattr(self, "_active_exc", None)
                        self._active_exc = e
                        try:
                            self.block(h.body, env)
                        finally:
                            self._active_exc = prev
                        break
                else:
                    raise
            else:
                self.block(st.orelse, env)
        finally:
            if st.finalbody:
                self.block(st.finalbody, env)

    def assign(self, t, v, env):
        if isinstance(t, ast.Name):
            env[t.id] = v
        elif isinstance(t, ast.Attribute):
            base = self.expr(t.value, env)
            if not isinstance(base, Obj):
                raise Unsupported("attribute store on non-object")
            base.__dict__[t.attr] = v
        elif isinstance(t, ast.Subscript):
            base = self.expr(t.value, env)
            if isinstance(t.slice, ast.Slice) and t.slice.lower is None and t.slice.upper is None:
                base[:] = v
            else:
                base[self.expr(t.slice, env)] = v
        elif isinstance(t, (ast.Tuple, ast.List)):
            vs = list(v)
            if len(vs) != len(t.elts):
                raise Unsupported("unpack arity")
            for a, b in zip(t.elts, vs):
                self.assign(a, b, env)
        else:
            raise Unsupported("assignment target")

    # ------------------------------------------------------------ expressions
    def truth(self, v) -> bool:
        if isinstance(v, Obj) and "_seq" in v.__dict__:
            return len(v._seq) > 0
        return bool(v)

    def iterate(self, v):
        if isinstance(v, Obj):
            if "_seq" in v.__dict__:
                return list(v._seq)
            raise Unsupported(f"iteration over {v!r}")
        return v

    def expr(self, e, env):
        self.steps += 1
        if self.steps > self.max_steps:
            raise Unsupported("step budget exceeded")
        if isinstance(e, ast.Constant):
            return e.value
        if isinstance(e, ast.Name):
            if e.id in env:
                return env[e.id]
            if e.id in ("True", "False", "None"):
                return {"True": True, "False": False, "None": None}[e.id]
            if e.id in self.globals:
                return self.globals[e.id]
            if e.id in self.classes:
                return ClassRef(e.id)
            if self.lookup is not None:
                src = self.lookup(e.id)
                if src is not None:
                    v = self.expr(src, env)
                    env[e.id] = v
                    return v
            raise Unsupported(f"free name {e.id}")
        if isinstance(e, ast.Attribute):
            if isinstance(e.value, ast.Name) and e.value.id in self.modules and e.value.id not in env:
                if e.attr in self.modules[e.value.id]:
                    return self.modules[e.value.id][e.attr]
                raise Unsupported(f"module attribute {e.value.id}.{e.attr}")
            base = self.expr(e.value, env)
            if isinstance(base, ClassRef) and e.attr == "__name__":
                return base.name
            if isinstance(base, Obj):
                if e.attr in base.__dict__:
                    return base.__dict__[e.attr]
                m = self.methods.get((base._cls, e.attr))
                if m is not None and any(ast.unparse(d) == "property" for d in m.decorator_list):
                    return self.call_function(m, {"self": base})
                if m is not None and not m.decorator_list and isinstance(e.ctx, ast.Load):
                    return lambda *a_, _m=m, _o=base, **k_: self.invoke(_m, [_o] + list(a_), k_)      # bound method value
            if isinstance(base, tuple) and e.attr in getattr(base, "_fields", ()):
                return getattr(base, e.attr)          # NamedTuple built by namedtuple_of()
            if base in (str, int, float, bytes, tuple, frozenset) and not e.attr.startswith("_") and callable(getattr(base, e.attr, None)):
                return getattr(base, e.attr)          # `str.upper` as a function value (map(str.upper, ...))
            raise Unsupported(f"attribute {e.attr} on {base!r}")
        if isinstance(e, (ast.Tuple, ast.List)) and any(isinstance(x, ast.Starred) for x in e.elts):
            out = []
            for x in e.elts:
                if isinstance(x, ast.Starred):
                    out.extend(list(self.iterate(self.expr(x.value, env))))
                else:
                    out.append(self.expr(x, env))
            return tuple(out) if isinstance(e, ast.Tuple) else out
        if isinstance(e, ast.Tuple):
            return tuple(self.expr(x, env) for x in e.elts)
        if isinstance(e, ast.List):
            return [self.expr(x, env) for x in e.elts]
        if isinstance(e, ast.Set):
            return set(self.expr(x, env) for x in e.elts)
        if isinstance(e, ast.Dict):
            out_d = {}
            for k, v in zip(e.keys, e.values):
                if k is None:                         # {**other}
                    other = self.expr(v, env)
                    if not isinstance(other, dict):
                        raise Unsupported("** of a non-dict in a dict display")
                    out_d.update(other)
                else:
                    out_d[self.expr(k, env)] = self.expr(v, env)
            return out_d
        if isinstance(e, ast.BoolOp):
            if isinstance(e.op, ast.And):
                v = True
                for x in e.values:
                    v = self.expr(x, env)
                    if not self.truth(v):
                        return v
                return v
            v = False
            for x in e.values:
                v = self.expr(x, env)
                if self.truth(v):
                    return v
            return v
        if isinstance(e, ast.UnaryOp):
            v = self.expr(e.operand, env)
            if isinstance(e.op, ast.Not):
                return not self.truth(v)
            if isinstance(e.op, ast.USub):
                return -v
            raise Unsupported("unary op")
        if isinstance(e, ast.BinOp):
            return self.binop(e.op, self.expr(e.left, env), self.expr(e.right, env))
        if isinstance(e, ast.IfExp):
            return self.expr(e.body, env) if self.truth(self.expr(e.test, env)) else self.expr(e.orelse, env)
        if isinstance(e, ast.Compare):
            left = self.expr(e.left, env)
            for op, rhs in zip(e.ops, e.comparators):
                right = self.expr(rhs, env)
                if not self.compare(op, left, right):
                    return False
                left = right
            return True
        if isinstance(e, ast.NamedExpr):
            v = self.expr(e.value, env)
            env[e.target.id] = v
            return v
        if isinstance(e, ast.Subscript):
            base = self.expr(e.value, env)
            if isinstance(e.slice, ast.Slice):
                lo = self.expr(e.slice.lower, env) if e.slice.lower else None
                hi = self.expr(e.slice.upper, env) if e.slice.upper else None
                if e.slice.step is not None:
                    return base[lo:hi:self.expr(e.slice.step, env)]
                return base[lo:hi]
            return base[self.expr(e.slice, env)]
        if isinstance(e, (ast.GeneratorExp, ast.ListComp)):
            if len(e.generators) != 1:
                raise Unsupported("nested comprehension")
            g = e.generators[0]
            out = []
            for item in self.iterate(self.expr(g.iter, env)):
                env2 = dict(env)
                self.assign(g.target, item, env2)
                if all(self.truth(self.expr(c, env2)) for c in g.ifs):
                    out.append(self.expr(e.elt, env2))
            return out
        if isinstance(e, ast.Call):
            return self.call(e, env)
        if isinstance(e, ast.Lambda) and not (e.args.vararg or e.args.kwarg or e.args.kwonlyargs or e.args.defaults):
            names = [a.arg for a in e.args.posonlyargs + e.args.args]

            def closure(*vals, _names=names, _body=e.body, _env=env):
                if len(vals) != len(_names):
                    raise Unsupported("lambda arity")
                env2 = dict(_env)
                env2.update(zip(_names, vals))
                return self.expr(_body, env2)
            return closure
        if isinstance(e, ast.JoinedStr):
            return "".join(str(self.expr(v.value, env)) if isinstance(v, ast.FormattedValue) else str(v.value)
                           for v in e.values)
        raise Unsupported(f"expression {type(e).__name__}")

    def binop(self, op, l, r):
        if isinstance(op, ast.Add):
            return l + r
        if isinstance(op, ast.Sub):
            return l - r
        if isinstance(op, ast.Mult):
            return l * r
        if isinstance(op, ast.Mod):
            return l % r
        if isinstance(op, ast.FloorDiv):
            return l // r
        if isinstance(op, ast.Div):
            return l / r
        if isinstance(op, ast.Pow) and isinstance(l, (int, float)) and isinstance(r, int) and abs(r) < 64:
            return l ** r
        if isinstance(op, (ast.BitOr, ast.BitAnd, ast.BitXor)) and type(l) is type(r) and isinstance(l, (int, bool, set, frozenset)):
            return l | r if isinstance(op, ast.BitOr) else l & r if isinstance(op, ast.BitAnd) else l ^ r
        if isinstance(op, (ast.LShift, ast.RShift)) and isinstance(l, int) and isinstance(r, int) and 0 <= r < 64:
            return l << r if isinstance(op, ast.LShift) else l >> r
        raise Unsupported(f"binary op {type(op).__name__}")

    def compare(self, op, a, b) -> bool:
        if isinstance(op, ast.Eq):
            return a == b
        if isinstance(op, ast.NotEq):
            return a != b
        if isinstance(op, ast.Is):
            return a is b
        if isinstance(op, ast.IsNot):
            return a is not b
        if isinstance(op, ast.In):
            return a in b
        if isinstance(op, ast.NotIn):
            return a not in b
        if isinstance(op, (ast.Lt, ast.Gt, ast.LtE, ast.GtE)):
            return self.order(op, a, b)
        raise Unsupported("comparison")

    def order(self, op, a, b) -> bool:
        if isinstance(a, Obj) or isinstance(b, Obj):
            lt = self.obj_lt
            if isinstance(op, ast.Lt):
                return lt(a, b)
            if isinstance(op, ast.Gt):
                return lt(b, a)
            raise Unsupported("<=/>= on objects")
        if isinstance(a, tuple) and isinstance(b, tuple):
            for x, y in zip(a, b):
                if x == y:
                    continue
                return self.order(op if isinstance(op, (ast.Lt, ast.Gt)) else
                                  (ast.Lt() if isinstance(op, ast.LtE) else ast.Gt()), x, y)
            la, lb = len(a), len(b)
            return {ast.Lt: la < lb, ast.Gt: la > lb, ast.LtE: la <= lb, ast.GtE: la >= lb}[type(op)]
        return {ast.Lt: lambda: a < b, ast.Gt: lambda: a > b, ast.LtE: lambda: a <= b, ast.GtE: lambda: a >= b}[type(op)]()

    def call_sorted(self, seq):
        out = []
        for x in seq:
            i = len(out)
            while i > 0 and (self.obj_lt(x, out[i - 1]) if isinstance(x, Obj) else x < out[i - 1]):
                i -= 1
            out.insert(i, x)
        return out

    def invoke(self, fnode, args, kwargs):
        """Call a repository function with positional *args* and keyword *kwargs* (full binding incl. *a / **k)."""
        a = fnode.args
        params = [x.arg for x in a.posonlyargs + a.args]
        bound = {}
        rest = list(args)
        for name in params:
            if rest:
                bound[name] = rest.pop(0)
        if rest:
            if a.vararg is None:
                raise Unsupported("too many positional arguments")
        if a.vararg is not None:
            bound[a.vararg.arg] = tuple(rest)
        kw = dict(kwargs)
        for name in params[len(a.posonlyargs):] + [x.arg for x in a.kwonlyargs]:
            if name in kw:
                if name in bound:
                    raise Unsupported("argument given twice")
                bound[name] = kw.pop(name)
        if a.kwarg is not None:
            bound[a.kwarg.arg] = kw
        elif kw:
            raise Unsupported(f"unexpected keyword {sorted(kw)}")
        for name, d in zip(params[len(params) - len(a.defaults):], a.defaults):
            if name not in bound:
                bound[name] = self.expr(d, {})
        for x, d in zip(a.kwonlyargs, a.kw_defaults):
            if x.arg not in bound and d is not None:
                bound[x.arg] = self.expr(d, {})
        missing = [n for n in params + [x.arg for x in a.kwonlyargs] if n not in bound]
        if missing:
            raise Unsupported(f"missing arguments {missing}")
        self._call_depth += 1
        if self._call_depth > self.max_call_depth:
            self._call_depth -= 1
            raise Unsupported("call depth")
        try:
            return self.call_function(fnode, bound)
        finally:
            self._call_depth -= 1

    def instantiate(self, cname: str, args, kwargs):
        cnode = self.classes[cname]
        nt = namedtuple_of(cnode, lambda d: self.expr(d, {}))
        if nt is not None:
            return nt(*args, **kwargs)
        init = self.methods.get((cname, "__init__"))
        if init is not None:
            me = Obj(cname)
            self.invoke(init, [me] + list(args), kwargs)
            return me
        # dataclass-style: annotated fields in order, defaults from `= const` / field(default=..., default_factory=...)
        fields = []
        for st in cnode.body:
            if isinstance(st, ast.AnnAssign) and isinstance(st.target, ast.Name):
                fields.append((st.target.id, st.value))
        vals = {}
        rest = list(args)
        for name, _ in fields:
            if rest:
                vals[name] = rest.pop(0)
        if rest:
            raise Unsupported("too many constructor arguments")
        for k, v in kwargs.items():
            if k not in [n for n, _ in fields] or k in vals:
                raise Unsupported(f"constructor keyword {k}")
            vals[k] = v
        for name, dv in fields:
            if name in vals:
                continue
            if dv is None:
                raise Unsupported(f"missing constructor argument {name}")
            if isinstance(dv, ast.Call) and ast.unparse(dv.func) in ("field", "dataclasses.field"):
                got = False
                for k in dv.keywords:
                    if k.arg == "default":
                        vals[name] = self.expr(k.value, {})
                        got = True
                    elif k.arg == "default_factory":
                        fac = ast.unparse(k.value)
                        vals[name] = {"list": [], "dict": {}, "set": set()}.get(fac)
                        got = fac in ("list", "dict", "set")
                if not got:
                    raise Unsupported(f"default of field {name}")
            else:
                vals[name] = self.expr(dv, {})
        return Obj(cname, **vals)

    def obj_lt(self, a, b) -> bool:
        if not isinstance(a, Obj):
            raise Unsupported("mixed comparison")
        m = self.methods.get((a._cls, "__lt__"))
        if m is None:
            raise Unsupported(f"no __lt__ for {a._cls}")
        params = [x.arg for x in m.args.args]
        return bool(self.call_function(m, {params[0]: a, params[1]: b}))

    _BUILTIN_TYPES = {"tuple": tuple, "list": list, "str": str, "int": int, "dict": dict, "bool": bool,
                      "float": float, "set": set}

    def _isinstance(self, v, texpr) -> bool:
        ts = texpr.elts if isinstance(texpr, ast.Tuple) else [texpr]
        for t in ts:
            nm = ast.unparse(t).split(".")[-1]
            if nm in self._BUILTIN_TYPES:
                if isinstance(v, self._BUILTIN_TYPES[nm]) and not (nm == "int" and isinstance(v, bool) and False):
                    return True
            elif nm == "Sequence":
                if isinstance(v, (list, tuple, str)):
                    return True
            elif isinstance(v, Obj) and v._cls == nm:
                return True
        return False

    def call(self, e: ast.Call, env):
        f = e.func
        if isinstance(f, ast.Name) and f.id == "isinstance" and len(e.args) == 2:
            return self._isinstance(self.expr(e.args[0], env), e.args[1])
        args = []
        for a in e.args:
            if isinstance(a, ast.Starred):
                args.extend(list(self.iterate(self.expr(a.value, env))))
            else:
                args.append(self.expr(a, env))
        kwargs = {}
        for k in e.keywords:
            if k.arg is None:
                kwargs.update(self.expr(k.value, env))
            else:
                kwargs[k.arg] = self.expr(k.value, env)
        # construction / classmethods of modelled classes
        target_cls = None
        if isinstance(f, ast.Name) and f.id not in env and f.id in self.classes:
            target_cls = f.id
        elif isinstance(f, ast.Name) and isinstance(env.get(f.id), ClassRef):
            target_cls = env[f.id].name
        if target_cls is not None:
            return self.instantiate(target_cls, args, kwargs)
        if isinstance(f, ast.Attribute) and ((isinstance(f.value, ast.Name) and f.value.id not in env and f.value.id in self.classes)
                                             or (isinstance(f.value, ast.Name) and isinstance(env.get(f.value.id), ClassRef))):
            cname = f.value.id if f.value.id in self.classes and f.value.id not in env else env[f.value.id].name
            m = self.methods.get((cname, f.attr))
            if m is not None and any(ast.unparse(d) == "classmethod" for d in m.decorator_list):
                return self.invoke(m, [ClassRef(cname)] + args, kwargs)
            raise Unsupported(f"class attribute call {cname}.{f.attr}")
        if isinstance(f, ast.Name) and f.id not in env and callable(self.globals.get(f.id)):
            return self.globals[f.id](*args, **kwargs)
        if isinstance(f, ast.Name) and f.id in env and callable(env[f.id]) and not isinstance(env[f.id], (Obj, ClassRef)):
            return env[f.id](*args, **kwargs)       # a python callable bound by the calling rule (stub)
        if isinstance(f, ast.Name):
            n = f.id
            if n in self.functions and self._call_depth < 3:
                fnode = self.functions[n]
                params = [a.arg for a in fnode.args.args]
                if len(params) != len(args) or e.keywords:
                    raise Unsupported("helper call binding")
                self._call_depth += 1
                try:
                    return self.call_function(fnode, dict(zip(params, args)))
                finally:
                    self._call_depth -= 1
            if n == "len":
                return len(self.iterate(args[0]))
            if n == "bool":
                return self.truth(args[0])
            if n == "all":
                return all(self.truth(x) for x in self.iterate(args[0]))
            if n == "any":
                return any(self.truth(x) for x in self.iterate(args[0]))
            if n == "isinstance":
                return True
            if n == "sum":
                return sum(self.iterate(args[0]))
            if n == "int":
                return int(args[0])
            if n == "max" and all(not isinstance(a, Obj) for a in args) and not (
                    len(args) == 1 and any(isinstance(x, Obj) for x in self.iterate(args[0]))):
                return max(*args) if len(args) > 1 else max(args[0])
            if n in ("min", "max"):
                seq = list(args[0]) if len(args) == 1 else list(args)
                if not seq:
                    raise Unsupported("min of empty")
                best = seq[0]
                for x in seq[1:]:
                    if isinstance(x, Obj):
                        better = self.obj_lt(x, best) if n == "min" else self.obj_lt(best, x)
                    else:
                        better = x < best if n == "min" else x > best
                    if better:
                        best = x
                return best
            if n == "sorted" and len(args) == 1 and not e.keywords:
                seq = list(args[0])
                out = []
                for x in seq:          # insertion sort through __lt__ (stable)
                    i = len(out)
                    while i > 0 and (self.obj_lt(x, out[i - 1]) if isinstance(x, Obj) else x < out[i - 1]):
                        i -= 1
                    out.insert(i, x)
                return out
            if n == "sorted" and len(args) == 1 and set(kwargs) <= {"key", "reverse"} and \
                    (callable(kwargs.get("key")) or not any(isinstance(x, Obj) for x in self.iterate(args[0]))):
                return sorted(self.iterate(args[0]), **kwargs)      # python's stable sort on the keys the stub yields
            if n == "getattr" and len(args) in (2, 3) and isinstance(args[0], Obj) and isinstance(args[1], str):
                if args[1] in args[0].__dict__:
                    return args[0].__dict__[args[1]]
                m_ = self.methods.get((args[0]._cls, args[1]))
                if m_ is not None and not m_.decorator_list:
                    # a bound method as a value (reflective dispatch `getattr(self, f"check_{name}")`): a callable that
                    # interprets the method on the same object
                    return lambda *a_, _m=m_, _o=args[0], **k_: self.invoke(_m, [_o] + list(a_), k_)
                if len(args) == 3:
                    return args[2]
                raise AttributeError(args[1])
            if n == "hasattr" and len(args) == 2 and isinstance(args[0], Obj) and isinstance(args[1], str):
                return args[1] in args[0].__dict__
            if n in ("tuple", "list"):
                return (tuple if n == "tuple" else list)(self.iterate(args[0]) if args else [])
            if n in ("set", "frozenset") and len(args) <= 1 and not kwargs:
                return (set if n == "set" else frozenset)(self.iterate(args[0]) if args else [])
            if n == "range" and args and all(isinstance(a, int) for a in args) and not kwargs:
                return range(*args)
            if n == "enumerate" and len(args) == 1:
                return list(enumerate(self.iterate(args[0]), **kwargs))
            if n == "str" and len(args) == 1 and not isinstance(args[0], (Obj, ClassRef)):
                return str(args[0])
            # a NamedTuple class of the repository (any module): built as the equivalent Python namedtuple
            try:
                from .model import program as _program
                _c = _program().classes.get(n)
            except Exception:
                _c = None
            if _c is not None and n not in env:
                nt = namedtuple_of(_c.node, lambda d: self.expr(d, {}))
                if nt is not None:
                    return nt(*args, **kwargs)
            raise Unsupported(f"call {n}")
        if isinstance(f, ast.Attribute):
            if isinstance(f.value, ast.Name) and f.value.id in self.modules and f.value.id not in env:
                fn_ = self.modules[f.value.id].get(f.attr)
                if not callable(fn_):
                    raise Unsupported(f"module function {f.value.id}.{f.attr}")
                return fn_(*args, **{k.arg: self.expr(k.value, env) for k in e.keywords})
            base = self.expr(f.value, env)
            if isinstance(base, Obj) and (base._cls, f.attr) in self.natives:
                return self.natives[(base._cls, f.attr)](*args, **{k.arg: self.expr(k.value, env) for k in e.keywords})
            if isinstance(base, Obj) and f.attr in base.__dict__.get("_native", {}):
                return base.__dict__["_native"][f.attr](*args)
            if isinstance(base, str) and f.attr in ("upper", "lower", "startswith", "endswith", "replace", "count",
                                                     "strip", "join"):
                return getattr(base, f.attr)(*args)
            if isinstance(base, str) and f.attr in ("split", "rsplit", "splitlines", "lstrip", "rstrip", "isupper", "islower", "isdigit",
                                                     "isalpha", "isalnum", "isspace", "isidentifier", "find", "rfind", "index",
                                                     "partition", "rpartition", "expandtabs", "title", "capitalize", "casefold",
                                                     "swapcase", "removeprefix", "removesuffix", "ljust", "rjust", "center", "zfill"):
                return getattr(base, f.attr)(*args, **kwargs)
            if isinstance(base, str) and f.attr == "format":
                return base.format(*args, **kwargs)
            if isinstance(base, Obj) and (base._cls, f.attr) in self.methods and self._call_depth < self.max_call_depth - 2:
                return self.invoke(self.methods[(base._cls, f.attr)], [base] + args, kwargs)
            if isinstance(base, dict) and f.attr in ("setdefault", "get", "pop", "keys", "values", "items", "update", "clear", "copy"):
                return getattr(base, f.attr)(*args, **kwargs)
            if isinstance(base, list) and f.attr in ("append", "extend", "sort", "index", "count", "insert", "remove", "pop", "clear",
                                                      "copy", "reverse"):
                if f.attr == "sort" and not callable(kwargs.get("key")) and any(isinstance(x, Obj) for x in base):
                    base[:] = self.call_sorted(base)
                    return None
                return getattr(base, f.attr)(*args, **kwargs)
            # compiled patterns and match objects of the standard library: evaluated natively (re is not repository code)
            import re as _re
            if type(base).__name__ == "RegexConst" and f.attr in ("match", "search", "fullmatch", "finditer", "findall", "sub",
                                                                   "split"):
                return getattr(_re.compile(base.pattern, base.flags), f.attr)(*args, **kwargs)
            if isinstance(base, _re.Pattern) and f.attr in ("match", "search", "fullmatch", "finditer", "findall", "sub", "split"):
                return getattr(base, f.attr)(*args, **kwargs)
            if isinstance(base, _re.Match) and f.attr in ("start", "end", "span", "group", "groups", "groupdict"):
                return getattr(base, f.attr)(*args, **kwargs)
            if isinstance(base, (set, frozenset)) and f.attr in ("union", "intersection", "difference", "issubset", "issuperset",
                                                                  "isdisjoint", "copy"):
                return getattr(base, f.attr)(*args, **kwargs)
            if isinstance(base, set) and f.attr in ("add", "discard", "remove", "update", "clear", "pop"):
                return getattr(base, f.attr)(*args, **kwargs)
            raise Unsupported(f"method {f.attr}")
        raise Unsupported("call")
