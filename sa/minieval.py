"""The analyser's own small evaluator for *pure, loop-free-or-simply-looping*
function bodies over finite abstract domains (order types of comparator fields,
level lists of Errors.status, column residues of the tab-stop expression).

It interprets the AST of the repository function; it never imports or calls
repository code.  Anything outside the supported subset raises ``Unsupported``
(the calling rule then reports ANALYSIS-ERROR, never a pass).
"""
from __future__ import annotations

import ast
from typing import Any, Dict, Optional


class Unsupported(Exception):
    pass


class Obj:
    """Attribute bag standing for an instance."""

    def __init__(self, _cls="Obj", **kw):
        self._cls = _cls
        self.__dict__.update(kw)

    def __repr__(self):
        return f"{self._cls}({', '.join(f'{k}={v!r}' for k, v in self.__dict__.items() if k != '_cls')})"


class _Return(Exception):
    def __init__(self, v):
        self.v = v


class Evaluator:
    def __init__(self, methods: Optional[Dict[str, Any]] = None, max_steps=20000, functions=None, lookup=None,
                 natives=None, modules=None):
        # methods: (class name, method name) -> ast.FunctionDef, used for dunder dispatch (__lt__) and properties
        self.methods = methods or {}
        self.functions = functions or {}       # name -> ast.FunctionDef (pure helpers, inlined one call deep)
        self.lookup = lookup                   # callback(name) -> ast.expr | None for lazily bound locals
        self._call_depth = 0
        self.natives = natives or {}           # (class, method) -> python callable(*args) standing for a repo method
        self.modules = modules or {}           # module name -> {attribute: value or python callable}
        self.steps = 0
        self.max_steps = max_steps

    # ------------------------------------------------------------------ calls
    def call_function(self, fnode: ast.FunctionDef, args: Dict[str, Any]):
        env = dict(args)
        try:
            self.block(fnode.body, env)
        except _Return as r:
            return r.v
        return None

    def block(self, stmts, env):
        for st in stmts:
            self.stmt(st, env)

    def stmt(self, st, env):
        self.steps += 1
        if self.steps > self.max_steps:
            raise Unsupported("step budget exceeded")
        if isinstance(st, ast.Return):
            raise _Return(self.expr(st.value, env) if st.value is not None else None)
        if isinstance(st, ast.Expr):
            if isinstance(st.value, ast.Constant):
                return
            self.expr(st.value, env)
            return
        if isinstance(st, ast.Assert):
            return                              # type contracts: not modelled
        if isinstance(st, ast.Pass):
            return
        if isinstance(st, ast.If):
            self.block(st.body if self.truth(self.expr(st.test, env)) else st.orelse, env)
            return
        if isinstance(st, ast.Assign):
            v = self.expr(st.value, env)
            for t in st.targets:
                self.assign(t, v, env)
            return
        if isinstance(st, ast.AugAssign) and isinstance(st.target, ast.Name):
            cur = env[st.target.id]
            env[st.target.id] = self.binop(st.op, cur, self.expr(st.value, env))
            return
        if isinstance(st, ast.AugAssign) and isinstance(st.target, ast.Attribute):
            base = self.expr(st.target.value, env)
            if not isinstance(base, Obj):
                raise Unsupported("attribute store on non-object")
            base.__dict__[st.target.attr] = self.binop(st.op, base.__dict__[st.target.attr], self.expr(st.value, env))
            return
        if isinstance(st, ast.For):
            for item in self.iterate(self.expr(st.iter, env)):
                self.assign(st.target, item, env)
                self.block(st.body, env)         # break/continue unsupported
            self.block(st.orelse, env)
            return
        raise Unsupported(f"statement {type(st).__name__}")

    def assign(self, t, v, env):
        if isinstance(t, ast.Name):
            env[t.id] = v
        elif isinstance(t, ast.Attribute):
            base = self.expr(t.value, env)
            if not isinstance(base, Obj):
                raise Unsupported("attribute store on non-object")
            base.__dict__[t.attr] = v
        elif isinstance(t, (ast.Tuple, ast.List)):
            vs = list(v)
            if len(vs) != len(t.elts):
                raise Unsupported("unpack arity")
            for a, b in zip(t.elts, vs):
                self.assign(a, b, env)
        else:
            raise Unsupported("assignment target")

    # ------------------------------------------------------------ expressions
    def truth(self, v) -> bool:
        if isinstance(v, Obj) and "_seq" in v.__dict__:
            return len(v._seq) > 0
        return bool(v)

    def iterate(self, v):
        if isinstance(v, Obj):
            if "_seq" in v.__dict__:
                return list(v._seq)
            raise Unsupported(f"iteration over {v!r}")
        return v

    def expr(self, e, env):
        self.steps += 1
        if self.steps > self.max_steps:
            raise Unsupported("step budget exceeded")
        if isinstance(e, ast.Constant):
            return e.value
        if isinstance(e, ast.Name):
            if e.id in env:
                return env[e.id]
            if e.id in ("True", "False", "None"):
                return {"True": True, "False": False, "None": None}[e.id]
            if self.lookup is not None:
                src = self.lookup(e.id)
                if src is not None:
                    v = self.expr(src, env)
                    env[e.id] = v
                    return v
            raise Unsupported(f"free name {e.id}")
        if isinstance(e, ast.Attribute):
            if isinstance(e.value, ast.Name) and e.value.id in self.modules and e.value.id not in env:
                if e.attr in self.modules[e.value.id]:
                    return self.modules[e.value.id][e.attr]
                raise Unsupported(f"module attribute {e.value.id}.{e.attr}")
            base = self.expr(e.value, env)
            if isinstance(base, Obj):
                if e.attr in base.__dict__:
                    return base.__dict__[e.attr]
                m = self.methods.get((base._cls, e.attr))
                if m is not None and any(ast.unparse(d) == "property" for d in m.decorator_list):
                    return self.call_function(m, {"self": base})
            raise Unsupported(f"attribute {e.attr} on {base!r}")
        if isinstance(e, ast.Tuple):
            return tuple(self.expr(x, env) for x in e.elts)
        if isinstance(e, ast.List):
            return [self.expr(x, env) for x in e.elts]
        if isinstance(e, ast.BoolOp):
            if isinstance(e.op, ast.And):
                v = True
                for x in e.values:
                    v = self.expr(x, env)
                    if not self.truth(v):
                        return v
                return v
            v = False
            for x in e.values:
                v = self.expr(x, env)
                if self.truth(v):
                    return v
            return v
        if isinstance(e, ast.UnaryOp):
            v = self.expr(e.operand, env)
            if isinstance(e.op, ast.Not):
                return not self.truth(v)
            if isinstance(e.op, ast.USub):
                return -v
            raise Unsupported("unary op")
        if isinstance(e, ast.BinOp):
            return self.binop(e.op, self.expr(e.left, env), self.expr(e.right, env))
        if isinstance(e, ast.IfExp):
            return self.expr(e.body, env) if self.truth(self.expr(e.test, env)) else self.expr(e.orelse, env)
        if isinstance(e, ast.Compare):
            left = self.expr(e.left, env)
            for op, rhs in zip(e.ops, e.comparators):
                right = self.expr(rhs, env)
                if not self.compare(op, left, right):
                    return False
                left = right
            return True
        if isinstance(e, ast.NamedExpr):
            v = self.expr(e.value, env)
            env[e.target.id] = v
            return v
        if isinstance(e, ast.Subscript):
            base = self.expr(e.value, env)
            if isinstance(e.slice, ast.Slice):
                lo = self.expr(e.slice.lower, env) if e.slice.lower else None
                hi = self.expr(e.slice.upper, env) if e.slice.upper else None
                return base[lo:hi]
            return base[self.expr(e.slice, env)]
        if isinstance(e, (ast.GeneratorExp, ast.ListComp)):
            if len(e.generators) != 1:
                raise Unsupported("nested comprehension")
            g = e.generators[0]
            out = []
            for item in self.iterate(self.expr(g.iter, env)):
                env2 = dict(env)
                self.assign(g.target, item, env2)
                if all(self.truth(self.expr(c, env2)) for c in g.ifs):
                    out.append(self.expr(e.elt, env2))
            return out
        if isinstance(e, ast.Call):
            return self.call(e, env)
        if isinstance(e, ast.JoinedStr):
            return "".join(str(self.expr(v.value, env)) if isinstance(v, ast.FormattedValue) else str(v.value)
                           for v in e.values)
        raise Unsupported(f"expression {type(e).__name__}")

    def binop(self, op, l, r):
        if isinstance(op, ast.Add):
            return l + r
        if isinstance(op, ast.Sub):
            return l - r
        if isinstance(op, ast.Mult):
            return l * r
        if isinstance(op, ast.Mod):
            return l % r
        if isinstance(op, ast.FloorDiv):
            return l // r
        raise Unsupported("binary op")

    def compare(self, op, a, b) -> bool:
        if isinstance(op, ast.Eq):
            return a == b
        if isinstance(op, ast.NotEq):
            return a != b
        if isinstance(op, ast.Is):
            return a is b
        if isinstance(op, ast.IsNot):
            return a is not b
        if isinstance(op, ast.In):
            return a in b
        if isinstance(op, ast.NotIn):
            return a not in b
        if isinstance(op, (ast.Lt, ast.Gt, ast.LtE, ast.GtE)):
            return self.order(op, a, b)
        raise Unsupported("comparison")

    def order(self, op, a, b) -> bool:
        if isinstance(a, Obj) or isinstance(b, Obj):
            lt = self.obj_lt
            if isinstance(op, ast.Lt):
                return lt(a, b)
            if isinstance(op, ast.Gt):
                return lt(b, a)
            raise Unsupported("<=/>= on objects")
        if isinstance(a, tuple) and isinstance(b, tuple):
            for x, y in zip(a, b):
                if x == y:
                    continue
                return self.order(op if isinstance(op, (ast.Lt, ast.Gt)) else
                                  (ast.Lt() if isinstance(op, ast.LtE) else ast.Gt()), x, y)
            la, lb = len(a), len(b)
            return {ast.Lt: la < lb, ast.Gt: la > lb, ast.LtE: la <= lb, ast.GtE: la >= lb}[type(op)]
        return {ast.Lt: lambda: a < b, ast.Gt: lambda: a > b, ast.LtE: lambda: a <= b, ast.GtE: lambda: a >= b}[type(op)]()

    def obj_lt(self, a, b) -> bool:
        if not isinstance(a, Obj):
            raise Unsupported("mixed comparison")
        m = self.methods.get((a._cls, "__lt__"))
        if m is None:
            raise Unsupported(f"no __lt__ for {a._cls}")
        params = [x.arg for x in m.args.args]
        return bool(self.call_function(m, {params[0]: a, params[1]: b}))

    _BUILTIN_TYPES = {"tuple": tuple, "list": list, "str": str, "int": int, "dict": dict, "bool": bool,
                      "float": float, "set": set}

    def _isinstance(self, v, texpr) -> bool:
        ts = texpr.elts if isinstance(texpr, ast.Tuple) else [texpr]
        for t in ts:
            nm = ast.unparse(t).split(".")[-1]
            if nm in self._BUILTIN_TYPES:
                if isinstance(v, self._BUILTIN_TYPES[nm]) and not (nm == "int" and isinstance(v, bool) and False):
                    return True
            elif nm == "Sequence":
                if isinstance(v, (list, tuple, str)):
                    return True
            elif isinstance(v, Obj) and v._cls == nm:
                return True
        return False

    def call(self, e: ast.Call, env):
        f = e.func
        if isinstance(f, ast.Name) and f.id == "isinstance" and len(e.args) == 2:
            return self._isinstance(self.expr(e.args[0], env), e.args[1])
        args = [self.expr(a, env) for a in e.args]
        if isinstance(f, ast.Name):
            n = f.id
            if n in self.functions and self._call_depth < 3:
                fnode = self.functions[n]
                params = [a.arg for a in fnode.args.args]
                if len(params) != len(args) or e.keywords:
                    raise Unsupported("helper call binding")
                self._call_depth += 1
                try:
                    return self.call_function(fnode, dict(zip(params, args)))
                finally:
                    self._call_depth -= 1
            if n == "len":
                return len(self.iterate(args[0]))
            if n == "bool":
                return self.truth(args[0])
            if n == "all":
                return all(self.truth(x) for x in self.iterate(args[0]))
            if n == "any":
                return any(self.truth(x) for x in self.iterate(args[0]))
            if n == "isinstance":
                return True
            if n == "sum":
                return sum(self.iterate(args[0]))
            if n == "int":
                return int(args[0])
            if n == "max" and all(not isinstance(a, Obj) for a in args) and not (
                    len(args) == 1 and any(isinstance(x, Obj) for x in self.iterate(args[0]))):
                return max(*args) if len(args) > 1 else max(args[0])
            if n in ("min", "max"):
                seq = list(args[0]) if len(args) == 1 else list(args)
                if not seq:
                    raise Unsupported("min of empty")
                best = seq[0]
                for x in seq[1:]:
                    if isinstance(x, Obj):
                        better = self.obj_lt(x, best) if n == "min" else self.obj_lt(best, x)
                    else:
                        better = x < best if n == "min" else x > best
                    if better:
                        best = x
                return best
            if n == "sorted" and len(args) == 1 and not e.keywords:
                seq = list(args[0])
                out = []
                for x in seq:          # insertion sort through __lt__ (stable)
                    i = len(out)
                    while i > 0 and (self.obj_lt(x, out[i - 1]) if isinstance(x, Obj) else x < out[i - 1]):
                        i -= 1
                    out.insert(i, x)
                return out
            if n in ("tuple", "list"):
                return (tuple if n == "tuple" else list)(args[0])
            raise Unsupported(f"call {n}")
        if isinstance(f, ast.Attribute):
            if isinstance(f.value, ast.Name) and f.value.id in self.modules and f.value.id not in env:
                fn_ = self.modules[f.value.id].get(f.attr)
                if not callable(fn_):
                    raise Unsupported(f"module function {f.value.id}.{f.attr}")
                return fn_(*args, **{k.arg: self.expr(k.value, env) for k in e.keywords})
            base = self.expr(f.value, env)
            if isinstance(base, Obj) and (base._cls, f.attr) in self.natives:
                return self.natives[(base._cls, f.attr)](*args, **{k.arg: self.expr(k.value, env) for k in e.keywords})
            if isinstance(base, Obj) and f.attr in base.__dict__.get("_native", {}):
                return base.__dict__["_native"][f.attr](*args)
            if isinstance(base, str) and f.attr in ("upper", "lower", "startswith", "endswith", "replace", "count",
                                                     "strip", "join"):
                return getattr(base, f.attr)(*args)
            if isinstance(base, Obj) and (base._cls, f.attr) in self.methods and self._call_depth < 4:
                m = self.methods[(base._cls, f.attr)]
                params = [a.arg for a in m.args.posonlyargs + m.args.args]
                kwonly = [a.arg for a in m.args.kwonlyargs]
                bound = {params[0]: base}
                for name, val in zip(params[1:], args):
                    bound[name] = val
                for k in e.keywords:
                    if k.arg is None:
                        raise Unsupported("**kwargs")
                    bound[k.arg] = self.expr(k.value, env)
                defaults = m.args.defaults
                for name, d in zip(params[len(params) - len(defaults):], defaults):
                    if name not in bound:
                        bound[name] = self.expr(d, {})
                for name, d in zip(kwonly, m.args.kw_defaults):
                    if name not in bound and d is not None:
                        bound[name] = self.expr(d, {})
                if set(bound) != set(params + kwonly):
                    raise Unsupported(f"binding of {f.attr}")
                self._call_depth += 1
                try:
                    return self.call_function(m, bound)
                finally:
                    self._call_depth -= 1
            raise Unsupported(f"method {f.attr}")
        raise Unsupported("call")
