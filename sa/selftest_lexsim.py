"""Self-test of the flow evaluator (sa/lexsim.py): each fixture -- the analyser's own test code, not repository code --
is run by CPython and by FlowEvaluator on the same arguments; results (or the exception type) must agree."""
from __future__ import annotations

import ast

from .lexsim import FlowEvaluator, RepoRaise

FIXTURES = '''
def loops(xs):
    out = []
    for i, x in enumerate(xs):
        if x == 3:
            continue
        if x > 5:
            break
        out.append(x * 2)
    else:
        out.append(-1)
    n = 0
    while n < 10:
        n += 1
        if n >= 3:
            break
    else:
        out.append("never")
    return out, n

def closures(k):
    def add(a, *, b=2):
        return a + b + k
    inc = lambda q: q + k
    return add(1), add(1, b=5), inc(2)

def tries(d, key):
    log = []
    try:
        log.append(d[key])
    except KeyError:
        log.append("missing")
    else:
        log.append("found")
    finally:
        log.append("done")
    try:
        a, b = d.get(key)
    except TypeError:
        log.append("unpack")
    return log

def strings(s):
    first, *rest = s
    t = f"{len(s)!r:>3}|{first:<2}|"
    return t, rest, s.upper(), "-".join(c for c in s if c != "b"), s[1:], s[::-1], "%s=%d" % (s, len(s))

def comps(n):
    return [y for y in range(n) if y], {c for c in "aab"}, {k: v for k, v in (("a", 1),)}, sorted({3, 1, 2})

def walrus(xs):
    i = 0
    seen = []
    while (x := xs[i] if i < len(xs) else None) is not None and x != 0:
        seen.append(x)
        i += 1
    return seen, i

def nested_break(rows):
    found = None
    for r in rows:
        for c in r:
            if c < 0:
                found = c
                break
        else:
            continue
        break
    return found

def raises(x):
    if x:
        return 1 // (x - x)
    return [][1]
'''

CALLS = [
    ("loops", ([1, 3, 2],)), ("loops", ([1, 9, 2],)), ("closures", (10,)), ("tries", ({"a": (1, 2)}, "a")),
    ("tries", ({"a": 1}, "b")), ("tries", ({"a": 1}, "a")), ("strings", ("abc",)), ("comps", (4,)),
    ("walrus", ([3, 2, 0, 5],)), ("walrus", ([1],)), ("nested_break", ([[1, 2], [3, -4, 5], [-6]],)),
    ("nested_break", ([[1], [2]],)), ("raises", (1,)), ("raises", (0,)),
]


def run() -> int:
    tree = ast.parse(FIXTURES)
    fns = {n.name: n for n in tree.body if isinstance(n, ast.FunctionDef)}
    ns: dict = {}
    exec(compile(tree, "<lexsim fixtures>", "exec"), ns)        # the analyser's own fixture code
    for name, args in CALLS:
        try:
            want = ("ok", ns[name](*args))
        except Exception as e:                                   # noqa: BLE001
            want = ("raise", type(e).__name__)
        try:
            got = ("ok", FlowEvaluator({}).invoke(fns[name], list(args), {}))
        except RepoRaise as r:
            got = ("raise", r.name)
        assert got == want, f"lexsim self-test {name}{args}: interpreter {got!r}, CPython {want!r}"
    return len(CALLS)
