"""R-17.8 (property C17): what a literal says decides nothing inside the lexer either.

R-17.1 follows the text of comment / literal tokens through the rules; the sub-parsers that build those tokens also record
diagnostics (CHAR_AS_STRING, EMPTY_CHAR, the unterminated forms), with highlights and hints that both report formats print.  The
two literal sub-parsers are interpreted (sa/lexsim.py, DESIGN §3.4b) on every body of <= 3 characters over {letter, operator
character, brace, blank, the quote of the other kind} -- the replacement alphabet of the property, free of delimiters, backslashes
and line breaks -- closed and left open, and -- through get_next_token, with the tree's own choice of sub-parser -- unprefixed and with the L / u8
prefixes: bodies of the same length must give the same token kind, the same cursor and the same
diagnostics (code, level, and every highlight with its position, length and hint)."""
from __future__ import annotations

import itertools

from ..lexsim import LexerSim
from ..minieval import Unsupported
from ..model import Undecided


def rule_literal_text_opaque(run, prog, rid="R-17.8"):
    run.rule(rid, "diagnostics of a literal depend on its shape, not on its text: parse_string_literal / parse_char_literal, interpreted "
             "on every body of <= 3 characters over {letter, operator character, brace, blank, the other quote}, closed and open, "
             "record the same diagnostics (code, level, highlights with position, length and hint) and reach the same cursor for all "
             "bodies of one length", floor=2)
    for name, q, other in (("parse_string_literal", '"', "'"), ("parse_char_literal", "'", '"')):
        fn = prog.method("Lexer", name)
        run.require(fn is not None, f"anchor vanished: Lexer.{name}")
        bad, n = None, 0
        try:
            for closed, pre, entry in ((True, "", name), (False, "", name), (True, "", "get_next_token"), (True, "L", "get_next_token"),
                                       (True, "u8", "get_next_token")):
                for k in range(1, 4 if not pre else 3):
                    ref = None
                    for body in itertools.product(["a", "+", "{", " ", other], repeat=k):
                        raw = pre + q + "".join(body) + (q if closed else "")
                        n += 1
                        sim = LexerSim(prog, raw + ("" if not closed else ";\n"))
                        out = sim.call(entry)
                        sig = (out.kind, getattr(out.value, "type", None) if out.kind == "ok" else out.exc, sim.line, sim.line_pos, sim.pos,
                               [(e.name, e.level, [(h.lineno, h.column, h.length, h.hint) for h in e.highlights]) for e in sim.errors.items])
                        if ref is None:
                            ref = (raw, sig)
                        elif sig != ref[1] and bad is None:
                            bad = (ref[0], ref[1], raw, sig)
            ref = None
            for body in itertools.product(["a", "A", "1", "+"], repeat=4):       # tag-like four-character texts
                raw = q + "".join(body) + q
                n += 1
                sim = LexerSim(prog, raw + ";\n")
                out = sim.call(name)
                sig = (out.kind, getattr(out.value, "type", None) if out.kind == "ok" else out.exc, sim.line, sim.line_pos, sim.pos,
                       [(e.name, e.level, [(h.lineno, h.column, h.length, h.hint) for h in e.highlights]) for e in sim.errors.items])
                if ref is None:
                    ref = (raw, sig)
                elif sig != ref[1] and bad is None:
                    bad = (ref[0], ref[1], raw, sig)
        except Unsupported as e:
            raise Undecided(f"Lexer.{name} is outside the evaluable subset: {e}")
        msg = ""
        if bad:
            msg = (f"{bad[0]!r} gives (outcome, kind, line, column, offset, diagnostics) = {bad[1]!r} but the same-width {bad[2]!r} gives "
                   f"{bad[3]!r}: what the literal says changes what is reported")
        run.ob(rid, f"{fn.key}::text-opaque", bad is None, msg, fn.node, evaluations=n)
