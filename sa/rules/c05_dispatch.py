"""R-5.14 (property C05): whatever a reflective dispatch can select accepts the arguments it is called with.

`getattr(self, f"check_{word}")` with *word* taken from the file selects any attribute of the class whose name fits the
template -- handlers written for the purpose and helpers that merely share the prefix.  The selected object is then called
with a fixed argument list; a method of another arity makes that call raise TypeError, which no handler of main() turns into
a diagnostic.  For every such dispatch the call sites of the selected object are found (direct call of the getattr result, or
call of the local it is bound to), and every method of the class (and its bases in the tree) that fits the template must
bind those arguments."""
from __future__ import annotations

import ast
from typing import List, Optional, Tuple

from ..model import text, walk_fn


def _template(t) -> Optional[Tuple[str, str]]:
    if isinstance(t, ast.JoinedStr):
        holes = [i for i, x in enumerate(t.values) if isinstance(x, ast.FormattedValue)]
        if len(holes) == 1 and all(isinstance(x, ast.Constant) for i, x in enumerate(t.values) if i != holes[0]):
            return ("".join(str(x.value) for x in t.values[:holes[0]]), "".join(str(x.value) for x in t.values[holes[0] + 1:]))
        return None
    if isinstance(t, ast.BinOp) and isinstance(t.op, ast.Add):
        if isinstance(t.left, ast.Constant) and isinstance(t.left.value, str) and not isinstance(t.right, ast.Constant):
            return (t.left.value, "")
        if isinstance(t.right, ast.Constant) and isinstance(t.right.value, str) and not isinstance(t.left, ast.Constant):
            return ("", t.right.value)
    if isinstance(t, ast.Call) and isinstance(t.func, ast.Attribute) and t.func.attr == "format" and isinstance(t.func.value, ast.Constant) \
            and isinstance(t.func.value.value, str) and t.func.value.value.count("{}") == 1 and len(t.args) == 1:
        a, b = t.func.value.value.split("{}")
        return (a, b)
    if isinstance(t, ast.Name):
        return ("", "")
    return None


def _binds(fnode: ast.FunctionDef, n_pos: int, kw: List[str], bound_self: bool) -> Optional[str]:
    a = fnode.args
    pos = [x.arg for x in a.posonlyargs + a.args]
    if bound_self and pos:
        pos = pos[1:]
    n_default = len(a.defaults)
    required = pos[:len(pos) - n_default] if n_default <= len(pos) else []
    if n_pos > len(pos) and a.vararg is None:
        return f"takes {len(pos)} positional argument(s), is called with {n_pos}"
    given = set(pos[:n_pos])
    for k in kw:
        if k in given:
            return f"gets the argument {k} twice"
        if k not in pos and k not in [x.arg for x in a.kwonlyargs] and a.kwarg is None:
            return f"has no parameter {k}"
        given.add(k)
    missing = [p for p in required if p not in given]
    missing += [x.arg for x, d in zip(a.kwonlyargs, a.kw_defaults) if d is None and x.arg not in given]
    if missing:
        return f"is called without its required parameter(s) {missing}"
    return None


def rule_dispatch_arity(run, prog, rid="R-5.14"):
    run.rule(rid, "reflective dispatch is closed under its call: for every `getattr(self, <template over input text>)` whose result "
             "is called, each method of the class (bases included) whose name fits the template binds the arguments of that "
             "call; otherwise an input that spells the method's suffix ends in a TypeError traceback", floor=0)
    n = 0
    for fn in prog.fns:
        if fn.cls is None:
            continue
        for c in walk_fn(fn.node):
            if not (isinstance(c, ast.Call) and isinstance(c.func, ast.Name) and c.func.id == "getattr" and len(c.args) >= 2
                    and isinstance(c.args[0], ast.Name) and c.args[0].id in ("self", "cls")):
                continue
            tm = _template(c.args[1])
            if tm is None or isinstance(c.args[1], ast.Constant):
                continue
            prefix, suffix = tm
            # call sites of the selected object
            calls: List[ast.Call] = []
            par = getattr(c, "_sa_parent", None)
            if isinstance(par, ast.Call) and par.func is c:
                calls.append(par)
            names = set()
            if isinstance(par, ast.NamedExpr):
                names.add(par.target.id)
            if isinstance(par, ast.Assign) and len(par.targets) == 1 and isinstance(par.targets[0], ast.Name):
                names.add(par.targets[0].id)
            for x in walk_fn(fn.node):
                if isinstance(x, ast.Call) and isinstance(x.func, ast.Name) and x.func.id in names:
                    calls.append(x)
            if not calls:
                continue
            # candidates: methods of the class and of its bases in the tree
            cands = {}
            seen, todo = set(), [fn.cls.name]
            while todo:
                cn = todo.pop()
                if cn in seen or cn not in prog.classes:
                    continue
                seen.add(cn)
                for mn, m in prog.classes[cn].methods.items():
                    cands.setdefault(mn, m)
                todo += list(prog.classes[cn].bases)
            fit = {mn: m for mn, m in cands.items() if mn.startswith(prefix) and mn.endswith(suffix)
                   and len(mn) > len(prefix) + len(suffix) and not (mn.startswith("__") and mn.endswith("__"))}
            for call in calls:
                if any(isinstance(a, ast.Starred) for a in call.args) or any(k.arg is None for k in call.keywords):
                    continue
                for mn, m in sorted(fit.items()):
                    static = any("staticmethod" in d for d in m.decorators)
                    is_prop = any("property" in d for d in m.decorators)
                    why = "is a property, not a callable handler" if is_prop else \
                        _binds(m.node, len(call.args), [k.arg for k in call.keywords], bound_self=not static)
                    n += 1
                    word = mn[len(prefix):len(mn) - len(suffix) if suffix else None]
                    run.ob(rid, f"{fn.key}::dispatch[{text(c.args[1], 30)}]->{mn}", why is None,
                           f"`{text(c, 50)}` selects {fn.cls.name}.{mn} when the input says {word!r}; it is then called as "
                           f"`{text(call, 50)}` but {mn} {why}: TypeError traceback instead of a diagnostic", call)
    if n == 0:
        run.note(f"{rid}: no reflective dispatch whose result is called in this tree")
