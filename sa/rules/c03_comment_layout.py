"""R-3.7 (properties C03 / C09): the comment sub-parsers lay tabs out on the tab stops of the *line*.

CheckCommentLineLen measures the lines of a block comment's text, CheckLineLen the column of the tokens that follow a
comment on its line; both numbers come out of parse_multi_line_comment / parse_line_comment.  The analyser interprets the two
sub-parsers (its own evaluator over the repository's AST, DESIGN §3.4b) on every comment body over {tab, letter, newline}
up to a length bound, opened at each of the columns 1..5, and compares the token text and the cursor reached with an
independent model: a tab reaches the next multiple-of-4 stop counted from the start of the line, whatever the column the
comment opens at."""
from __future__ import annotations

import itertools

from ..lexsim import LexerSim
from ..minieval import Unsupported
from ..model import Undecided


def _layout(col: int, raw: str, expand: bool):
    """(text, line delta, column reached) of *raw* read from column *col*."""
    out, dl = [], 0
    for ch in raw:
        if ch == "\n":
            out.append(ch)
            dl, col = dl + 1, 1
        elif ch == "\t":
            w = 4 - (col - 1) % 4
            out.append(" " * w if expand else ch)
            col += w
        else:
            out.append(ch)
            col += 1
    return "".join(out), dl, col


def rule_comment_layout(run, prog, rid="R-3.7"):
    run.rule(rid, "comment layout: parse_multi_line_comment / parse_line_comment, interpreted on every comment body over "
             "{tab, letter, newline} of length <= 4 opened at columns 1..5, return the raw text with tabs expanded on the "
             "line's 4-column tab stops (block comment) / unchanged (// comment) and leave the cursor at the model's (line, "
             "column, offset)", floor=2)
    cases = {"parse_multi_line_comment": [], "parse_line_comment": []}
    for n in range(0, 5):
        for body in itertools.product("\ta\n", repeat=n):
            b = "".join(body)
            cases["parse_multi_line_comment"].append("/*" + b + "*/")
            if "\n" not in b:
                cases["parse_line_comment"].append("//" + b)
    # the delimiters' own characters inside the text: a comment ends at the first `*/` that does not share its star with the
    # opening `/*` (so `/*/ x */` is one comment, and `/* x/*/` ends at its last two characters)
    for n in range(1, 4):
        for body in itertools.product("/*a ", repeat=n):
            b = "".join(body)
            if "/" in b or "*" in b:
                raw = "/*" + b + "*/"
                cases["parse_multi_line_comment"].append(raw[:raw.index("*/", 2) + 2] if "*/" in raw[2:] else raw)
    for name, raws in cases.items():
        fn = prog.method("Lexer", name)
        run.require(fn is not None, f"anchor vanished: Lexer.{name}")
        bad, n = None, 0
        try:
            for prefix in range(0, 5):
                for raw in sorted(set(raws)):
                    if prefix > 1 and ("/" in raw[2:-2] or "*" in raw[2:-2]):
                        continue                  # the delimiter cases do not depend on the column
                    n += 1
                    sim = LexerSim(prog, " " * prefix + raw + "\nz")
                    if prefix:
                        sim.call("pop", times=prefix)
                    out = sim.call(name)
                    want_text, dl, col = _layout(1 + prefix, raw, expand=name == "parse_multi_line_comment")
                    got_text = getattr(out.value, "value", None) if out.kind == "ok" else None
                    got = (got_text, sim.line, sim.line_pos, sim.pos)
                    want = (want_text, 1 + dl, col, prefix + len(raw))
                    if got != want and bad is None:
                        bad = (prefix, raw, got, want, out)
        except Unsupported as e:
            raise Undecided(f"Lexer.{name} is outside the evaluable subset: {e}")
        msg = ""
        if bad:
            prefix, raw, got, want, out = bad
            msg = (f"the comment {raw!r} opened at column {1 + prefix} gives (text, line, column, offset) = {got!r} "
                   f"(result {out!r}); laid out on the line's tab stops it is {want!r}: the comment line and the tokens after it "
                   f"are measured with a wrong width")
        run.ob(rid, f"{fn.key}::comment-layout", bad is None, msg, fn.node, evaluations=n)


def rule_literal_layout(run, prog, rid="R-17.7"):
    run.rule(rid, "literal layout: parse_string_literal / parse_char_literal, interpreted on every literal body over {tab, letter, "
             "blank} of length <= 3 and over those and {octal, hexadecimal, simple escape} of length <= 2, opened at columns 1..4, return the raw text unchanged and leave the cursor at the column the "
             "line's 4-column tab stops give (a raw tab inside a literal is as wide as anywhere else on the line, so text of the "
             "same displayed width keeps every later column)", floor=2)
    for name, q in (("parse_string_literal", '"'), ("parse_char_literal", "'")):
        fn = prog.method("Lexer", name)
        run.require(fn is not None, f"anchor vanished: Lexer.{name}")
        bad, n = None, 0
        try:
            units = ["\t", "a", " ", "\\7", "\\12", "\\x4", "\\n"]     # ... and escape sequences in front of a raw tab
            for prefix in range(0, 4):
                for k in range(0, 4):
                    for body in itertools.product(units[:3] if k == 3 else units, repeat=k):
                        raw = q + "".join(body) + q
                        n += 1
                        sim = LexerSim(prog, " " * prefix + raw + ";\n")
                        if prefix:
                            sim.call("pop", times=prefix)
                        out = sim.call(name)
                        want_text, dl, col = _layout(1 + prefix, raw, expand=False)
                        got_text = getattr(out.value, "value", None) if out.kind == "ok" else None
                        got = (got_text, sim.line, sim.line_pos, sim.pos)
                        want = (want_text, 1, col, prefix + len(raw))
                        if got != want and bad is None:
                            bad = (prefix, raw, got, want, out)
        except Unsupported as e:
            raise Undecided(f"Lexer.{name} is outside the evaluable subset: {e}")
        msg = ""
        if bad:
            prefix, raw, got, want, out = bad
            msg = (f"the literal {raw!r} opened at column {1 + prefix} gives (text, line, column, offset) = {got!r} (result {out!r}); "
                   f"laid out on the line's tab stops it is {want!r}: the tokens after it are reported at a wrong column")
        run.ob(rid, f"{fn.key}::literal-layout", bad is None, msg, fn.node, evaluations=n)
