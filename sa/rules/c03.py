"""C03 — numeric limits are enforced exactly at their boundary (partial:
thresholds, counters, tab-stop arithmetic).  DESIGN.md §4.3."""
from __future__ import annotations

import ast
from typing import Dict, List, Optional, Tuple

from ..facts import emission_sites, registry_model, trivially_dead, value_set, conjuncts
from ..fold import fold_in_fn
from ..minieval import Evaluator, Obj, Unsupported
from ..model import AnalysisError, Undecided, Fn, ancestors, parent, text, walk_fn

LIMITS = {"LINE_TOO_LONG": 80, "TOO_MANY_LINES": 25, "TOO_MANY_FUNCS": 5, "TOO_MANY_ARGS": 4, "TOO_MANY_VARS_FUNC": 5}


def _int(fn: Fn, e) -> Optional[int]:
    v = fold_in_fn(e, fn, default=None)
    return v if isinstance(v, int) and not isinstance(v, bool) else None


def normalise(fn: Fn, cmp: ast.expr) -> Optional[Tuple[ast.expr, int, bool]]:
    """Compare -> (measure expr, T, negated) meaning  `measure > T`  (negated: the comparison is under a `not`)."""
    neg = False
    while isinstance(cmp, ast.UnaryOp) and isinstance(cmp.op, ast.Not):
        neg = not neg
        cmp = cmp.operand
    if not (isinstance(cmp, ast.Compare) and len(cmp.ops) == 1):
        return None
    L, op, R = cmp.left, cmp.ops[0], cmp.comparators[0]
    lv, rv = _int(fn, L), _int(fn, R)
    if (lv is None) == (rv is None):
        return None
    if lv is not None:                      # T op M  ->  M op' T
        L, R, lv, rv = R, L, rv, lv
        op = {ast.Lt: ast.Gt, ast.LtE: ast.GtE, ast.Gt: ast.Lt, ast.GtE: ast.LtE}.get(type(op), type(op))()
    # now  M op T
    T = rv
    M = L
    if neg:                                 # not (M <= T)  ==  M > T
        op = {ast.LtE: ast.Gt, ast.Lt: ast.GtE, ast.Gt: ast.LtE, ast.GtE: ast.Lt}.get(type(op), type(op))()
    if isinstance(op, ast.GtE):
        T -= 1
    elif not isinstance(op, ast.Gt):
        return None                         # a '<' / '<=' test guarding an error: not a limit check
    # move constants:  M + k > T  ->  M > T - k
    while isinstance(M, ast.BinOp) and isinstance(M.op, (ast.Add, ast.Sub)):
        k = _int(fn, M.right)
        if k is not None:
            T = T - k if isinstance(M.op, ast.Add) else T + k
            M = M.left
            continue
        k = _int(fn, M.left)
        if k is not None and isinstance(M.op, ast.Add):
            T -= k
            M = M.right
            continue
        break
    return M, T, False


def _assignments(fn: Fn, name: str) -> List[ast.AST]:
    out = []
    for n in walk_fn(fn.node):
        if isinstance(n, ast.Assign) and any(isinstance(t, ast.Name) and t.id == name for t in n.targets):
            out.append(n)
        elif isinstance(n, (ast.AugAssign, ast.AnnAssign)) and isinstance(n.target, ast.Name) and n.target.id == name:
            out.append(n)
        elif isinstance(n, (ast.For, ast.comprehension)) and name in [x.id for x in ast.walk(n.target) if isinstance(x, ast.Name)]:
            out.append(n)
    return out


def _is_start_column(fn: Fn, e, depth=0) -> bool:
    """e denotes the 1-based start column of a token."""
    t = text(e)
    if t.endswith(".pos[1]") or t.endswith(".column") or t.endswith(".line_column"):
        return True
    if isinstance(e, ast.Name) and depth < 3:
        asg = _assignments(fn, e.id)
        return len(asg) == 1 and isinstance(asg[0], ast.Assign) and _is_start_column(fn, asg[0].value, depth + 1)
    return False


def measure_offsets(fn: Fn, M: ast.expr) -> Optional[List[Tuple[str, int]]]:
    """[(kind description, c)] such that  measured = Norm quantity + c, for every kind of value the expression takes."""
    t = text(M)
    if _is_start_column(fn, M):
        return [("1-based start column of a token (the line's NEWLINE token sits at width + 1)", 1)]
    if isinstance(M, ast.BinOp) and isinstance(M.op, ast.Add):
        for a, b in ((M.left, M.right), (M.right, M.left)):
            if _is_start_column(fn, a) and isinstance(b, ast.Call) and text(b.func) == "len":
                return [("start column + len(text) = end column + 1", 1)]
    if isinstance(M, ast.Call) and text(M.func) == "len" and len(M.args) == 1 and isinstance(M.args[0], ast.Name):
        return _line_len_kinds(fn, M.args[0].id)
    if isinstance(M, ast.BinOp) and isinstance(M.op, ast.Sub) and (text(M.left).endswith(".pos[0]") or text(M.left).endswith(".lineno")):
        # (line of the closing brace) - (line of the opening brace): lines strictly between = difference - 1
        return [("difference of the closing and the opening brace's line numbers = body lines + 1", 1)]
    if t.endswith("scope.lines"):
        return [("scope.lines read at the closing brace = body lines + the line of the opening brace", 1)]
    if t.endswith("scope.functions") or t.endswith(".functions"):
        return [("number of function definitions recognised so far (after the increment)", 0)]
    if t.endswith("scope.vars") or t.endswith(".vars"):
        return [("number of variable declarations of the function (after the increment)", 0)]
    if isinstance(M, ast.Name):
        asg = _assignments(fn, M.id)
        inits = [a for a in asg if isinstance(a, ast.Assign)]
        incs = [a for a in asg if isinstance(a, ast.AugAssign)]
        # the initialisation is the one that precedes the increments
        inits = [a for a in inits if not incs or a.lineno < min(i.lineno for i in incs)]
        if len(inits) == 1 and incs and all(isinstance(i.op, ast.Add) and _int(fn, i.value) == 1 for i in incs):
            a0 = _int(fn, inits[0].value)
            under_comma = all(any(isinstance(x, (ast.If,)) and "COMMA" in text(x.test) for x in ancestors(i)) for i in incs)
            if a0 is not None and under_comma and len(incs) == 1:
                return [(f"counter initialised to {a0}, +1 per top-level COMMA = parameters + {a0 - 1}", a0 - 1)]
    return None


def _line_len_kinds(fn: Fn, var: str) -> Optional[List[Tuple[str, int]]]:
    """len(var) where var iterates over the lines of a block comment."""
    loops = [n for n in walk_fn(fn.node) if isinstance(n, ast.For) and var in [x.id for x in ast.walk(n.target) if isinstance(x, ast.Name)]]
    if len(loops) != 1:
        return None
    it = loops[0].iter
    src = None
    for x in ast.walk(it):
        if isinstance(x, ast.Name):
            asg = [a for a in _assignments(fn, x.id) if isinstance(a, ast.Assign)]
            for a in asg:
                if isinstance(a.value, ast.Call) and isinstance(a.value.func, ast.Attribute) and a.value.func.attr in ("split", "splitlines") \
                        and text(a.value.func.value).endswith(".value"):
                    src = x.id
    if src is None:
        return None
    # padding of the first line:  src[0] = " " * P + src[0]
    pads = [n for n in walk_fn(fn.node) if isinstance(n, ast.Assign) and text(n.targets[0]) == f"{src}[0]"]
    kinds = [("interior / last line of a block comment (starts in column 1): len = width", 0)]
    if len(pads) != 1:
        kinds.append(("first line of a block comment measured without its start column", None))
        return kinds
    v = pads[0].value
    k = None
    if isinstance(v, ast.BinOp) and isinstance(v.op, ast.Add) and text(v.right) == f"{src}[0]" and isinstance(v.left, ast.BinOp) \
            and isinstance(v.left.op, ast.Mult):
        a, b = v.left.left, v.left.right
        if isinstance(b, ast.Constant) and isinstance(b.value, str):
            a, b = b, a
        if isinstance(a, ast.Constant) and a.value == " ":
            # b = start column - k
            if _is_start_column(fn, b):
                k = 0
            elif isinstance(b, ast.BinOp) and isinstance(b.op, ast.Sub) and _is_start_column(fn, b.left) and _int(fn, b.right) is not None:
                k = _int(fn, b.right)
            elif isinstance(b, ast.BinOp) and isinstance(b.op, ast.Add) and _is_start_column(fn, b.left) and _int(fn, b.right) is not None:
                k = -_int(fn, b.right)
    if k is None:
        kinds.append(("first line of a block comment: padding not recognised", None))
    else:
        kinds.append((f"first line of a block comment padded with (start column - {k}) blanks: len = width + {1 - k}", 1 - k))
    return kinds


def _dead_by_refuted_guard(prog, site) -> Optional[str]:
    """The emission is under a test that compares a history element with a name that is not a Primary rule."""
    rm = registry_model(prog)
    for a in ancestors(site):
        if isinstance(a, ast.If):
            for c in conjuncts(a.test):
                if isinstance(c, ast.Compare) and len(c.ops) == 1 and isinstance(c.ops[0], ast.Eq) \
                        and "get_parent_rule()" in text(c.left) and isinstance(c.comparators[0], ast.Constant):
                    nm = c.comparators[0].value
                    if nm not in rm.primary_names:
                        return f"guard compares the parent rule with {nm!r}, which is not a Primary (history only holds primaries)"
    return None


def dominating_atoms(fn: Fn, node):
    """[(atom, negated)]: comparisons / tests known to hold whenever *node* is evaluated -- conjuncts of tests left through
    their TRUE edge and (negated) disjuncts of tests left through their FALSE edge, for every test whose that outcome
    dominates the node in the CFG.  Nested `if`, early `return` / `continue` guard clauses and merged / split conditions all
    give the same atoms.  Local aliases are expanded (reaching definitions)."""
    from ..cfg import cfg_of
    from ..dataflow import cfg_node_of, expand_aliases
    from ..facts import disjuncts
    g = cfg_of(fn)
    at = cfg_node_of(g, node)
    out = []
    if at is None:
        return out
    for t in g.nodes:
        if t.kind != "test" or t.id == at:
            continue
        for lab in ("T", "F"):
            if not any(l_ == lab for _, l_ in g.succ[t.id]):
                continue
            reach = g.reachable(g.entry, follow_exc=False, edge_filter=lambda a, b, l_, _t=t.id, _lab=lab: not (a == _t and l_ == _lab))
            if at in reach:
                continue
            parts = conjuncts(t.ast) if lab == "T" else disjuncts(t.ast)
            for c in parts:
                out.append((expand_aliases(fn, c), lab == "F", t))
    return out


def _limit_guard(fn: Fn, site):
    """The numeric comparison guarding an emission: ("ok"|"bad"|"unknown", ...)."""
    cands = []
    for atom, negated, t in dominating_atoms(fn, site):
        e = ast.UnaryOp(ast.Not(), atom) if negated else atom
        nz = normalise(fn, e)
        if nz is not None:
            cands.append((atom, negated, nz))
    if not cands:
        return "unknown", "no numeric comparison dominates the emission", None
    judged = []
    for atom, negated, (M, T, _) in cands:
        kinds = measure_offsets(fn, M)
        if kinds is not None:
            judged.append((atom, negated, M, T, kinds))
    if not judged:
        return "unknown", "measure expression(s) " + ", ".join(f"`{text(c[2][0])}`" for c in cands) + " not recognised", None
    return "judged", "", judged


# ---------------------------------------------------------------------------------------- boundary evaluation
def _expect(problems, what, emitted: bool, want: bool):
    if emitted != want:
        problems.append(f"{what}: the diagnostic is {'emitted' if emitted else 'not emitted'}, expected "
                        f"{'one' if want else 'none'}")


def _run_codes(prog, cls, sc, code, tolerate_abort=False):
    from ..stubrun import RUNTIME_ERRORS, run_rule
    try:
        run_rule(prog, cls, sc)
    except RUNTIME_ERRORS:
        if not tolerate_abort:
            raise Unsupported("the rule fails on the stub statement")
    except Unsupported:
        if not tolerate_abort or code not in sc.codes():
            raise
    return code in sc.codes()


def boundary_eval(prog, unit: str, code: str) -> List[str]:
    """The check's run() interpreted on synthetic statements on both sides of the limit: [problems].  Raises Unsupported."""
    from ..stubrun import StubContext, line_tokens, tok
    P: List[str] = []
    seen_pos = False
    if (unit, code) == ("CheckLineLen", "LINE_TOO_LONG"):
        for w in range(76, 88):
            for toks in ([tok("IDENTIFIER", 1, 1, "x" * w), tok("NEWLINE", 1, w + 1)],
                         [tok("IDENTIFIER", 1, 1, "x"), tok("TAB", 1, 2), tok("IDENTIFIER", 1, w, "y"), tok("NEWLINE", 1, w + 1)],
                         [tok("NEWLINE", 1, 1), tok("TAB", 2, 1), tok("IDENTIFIER", 2, 5, "z" * (w - 4)), tok("NEWLINE", 2, w + 1)]):
                got = _run_codes(prog, unit, StubContext(prog, toks, history=["IsExpressionStatement"]), code)
                seen_pos |= got
                _expect(P, f"a line {w} columns wide", got, w > 80)
    elif (unit, code) == ("CheckCommentLineLen", "LINE_TOO_LONG"):
        for w in range(76, 88):
            for idx in (1, 5, 13):
                L = w - idx + 1
                got = _run_codes(prog, unit, StubContext(prog, [tok("COMMENT", 1, idx, "/" * L), tok("NEWLINE", 1, idx + L)],
                                                         history=["IsComment"]), code)
                seen_pos |= got
                _expect(P, f"a // comment starting in column {idx} that ends in column {w}", got, w > 80)
                for where in ("first", "interior", "last", "only"):
                    short = "s" * 10
                    if where == "first":
                        ls = ["/" * L, short, short]
                    elif where == "interior":
                        ls = [short, "i" * w, short]
                    elif where == "last":
                        ls = [short, short, "l" * w]
                    else:
                        ls = ["/" * L]
                    val = "\n".join(ls)
                    got = _run_codes(prog, unit, StubContext(prog, [tok("MULT_COMMENT", 1, idx, val), tok("NEWLINE", len(ls), 99)],
                                                             history=["IsComment"]), code)
                    seen_pos |= got
                    _expect(P, f"a block comment starting in column {idx} whose {where} line is {w} columns wide", got, w > 80)
    elif (unit, code) == ("CheckBrace", "TOO_MANY_LINES"):
        for body in range(21, 31):
            sc = StubContext(prog, [tok("RBRACE", body + 2, 1), tok("NEWLINE", body + 2, 2)], history=["IsFuncDeclaration", "IsBlockEnd"],
                             scope="Function", scope_attrs={"lines": body + 1})
            got = _run_codes(prog, unit, sc, code)
            seen_pos |= got
            _expect(P, f"a function body of {body} lines (scope.lines = {body + 1} at the closing brace)", got, body > 25)
    elif (unit, code) == ("CheckFunctionsCount", "TOO_MANY_FUNCS"):
        for n in range(2, 10):
            sc = StubContext(prog, line_tokens(["INT", "TAB", ("IDENTIFIER", "f"), "LPARENTHESIS", "VOID", "RPARENTHESIS", "NEWLINE"]),
                             history=["IsEmptyLine", "IsFuncDeclaration"], scope_attrs={"functions": n})
            got = _run_codes(prog, unit, sc, code)
            seen_pos |= got
            _expect(P, f"the {n}th function definition of the file", got, n > 5)
    elif (unit, code) == ("CheckVariableDeclaration", "TOO_MANY_VARS_FUNC"):
        for n in range(2, 10):
            sc = StubContext(prog, line_tokens(["TAB", "INT", "TAB", ("IDENTIFIER", "a"), "SEMI_COLON", "NEWLINE"], line=3),
                             history=["IsFuncDeclaration", "IsBlockStart", "IsVarDeclaration", "IsVarDeclaration"],
                             scope="Function", scope_attrs={"vars": n - 1, "vdeclarations_allowed": True})
            got = _run_codes(prog, unit, sc, code, tolerate_abort=True)
            seen_pos |= got
            _expect(P, f"the {n}th variable declaration of a function", got, n > 5)
    elif (unit, code) == ("CheckFuncDeclaration", "TOO_MANY_ARGS"):
        for n in range(1, 9):
            for style in ("plain", "fnptr", "multiline"):
                ks = ["INT", "TAB", ("IDENTIFIER", "f"), "LPARENTHESIS"]
                for k in range(n):
                    if k:
                        ks += ["COMMA"] + (["NEWLINE", "TAB", "TAB"] if style == "multiline" and k % 2 == 0 else ["SPACE"])
                    if style == "fnptr" and k == 0:
                        ks += ["VOID", "SPACE", "LPARENTHESIS", "MULT", ("IDENTIFIER", "cb"), "RPARENTHESIS", "LPARENTHESIS", "INT",
                               "COMMA", "SPACE", "INT", "COMMA", "SPACE", "INT", "RPARENTHESIS"]
                    else:
                        ks += ["INT", "SPACE", ("IDENTIFIER", f"a{k}")]
                ks += ["RPARENTHESIS", "SEMI_COLON", "NEWLINE"]
                toks = line_tokens(ks)
                sc = StubContext(prog, toks, history=["IsEmptyLine", "IsFuncPrototype"], fname_pos=2)
                got = _run_codes(prog, unit, sc, code)
                seen_pos |= got
                _expect(P, f"a prototype with {n} parameters ({style})", got, n > 4)
    else:
        raise Unsupported(f"no boundary scenario for {unit}/{code}")
    if not seen_pos:
        P.append("the diagnostic is never emitted on the stub statements beyond the limit")
    return sorted(set(P), key=P.index)


def rule_thresholds(run, prog):
    run.rule("R-3.1", "CMP: the comparison that guards each limit diagnostic (any test whose outcome dominates the emission in "
             "the CFG: nested if, guard clause, merged condition; local aliases expanded), normalised to `measure > T`, has "
             "T - c == L for every kind of value the measure takes (c = known offset between the measured expression and the "
             "Norm's quantity); L = 80 columns, 25 lines, 5 functions, 4 parameters, 5 variables.  Where the guard is not of a "
             "recognised form the check's run() is interpreted on synthetic statements on both sides of the limit instead",
             floor=7)
    from .c02 import unit_of
    n = 0
    for e in emission_sites(prog):
        if e.code_expr is None or e.fn.mod.rel in ("errors.py",) or (e.fn.cls is not None and e.fn.cls.name == "Context"):
            continue
        vs = value_set(prog, e.fn, e.code_expr)
        if not vs or not (vs & set(LIMITS)):
            continue
        code = sorted(vs & set(LIMITS))[0]
        L = LIMITS[code]
        key = f"{e.fn.key}::limit[{code}]"
        if trivially_dead(e.node):
            run.note(f"{key}: dead site, skipped")
            continue
        why_dead = _dead_by_refuted_guard(prog, e.node)
        if why_dead:
            run.note(f"{key}: {why_dead} - dead, skipped")
            continue
        n += 1
        status, why, judged = _limit_guard(e.fn, e.node)
        if status == "judged":
            bad_all = []
            for atom, negated, M, T, kinds in judged:
                bad = [(d, c) for d, c in kinds if c is None or T - c != L]
                if bad:
                    bad_all.append((atom, negated, M, T, kinds, bad))
            if not bad_all or len(bad_all) == len(judged):
                atom, negated, M, T, kinds = judged[0][:5] if not bad_all else bad_all[0][:5]
                bad = bad_all[0][5] if bad_all else []
                shown = ("not (" + text(atom) + ")") if negated else text(atom)
                if bad:
                    # the form looks wrong: confirm on the behaviour (a measure the offset table misreads must not be reported)
                    try:
                        if not boundary_eval(prog, unit_of(e.fn), code):
                            run.note(f"{key}: `{shown}` reads as a limit of {T} on `{text(M)}`, but the check interpreted on "
                                     f"synthetic statements enforces exactly {L}: accepted")
                            bad = []
                    except Unsupported:
                        pass
                run.ob("R-3.1", key, not bad,
                       f"{code}: `{shown}` means measure > {T}; " + "; ".join(
                           (f"for [{d}] the limit enforced is {T - c}, the Norm says {L}" if c is not None else f"[{d}]") for d, c in bad),
                       atom if hasattr(atom, "_sa_parent") else e.node, measure=text(M), T=T, kinds=[f"{d} (c={c})" for d, c in kinds])
                continue
            why = "several numeric guards dominate the emission and disagree"
        # not a recognised shape: observe the behaviour
        unit = unit_of(e.fn)
        try:
            problems = boundary_eval(prog, unit, code)
        except Unsupported as ex:
            raise AnalysisError(f"{key}: {why}, and the check cannot be interpreted on stub statements either ({ex})")
        run.ob("R-3.1", key, not problems,
               f"{code}: interpreted on synthetic statements around the limit {L}: " + "; ".join(problems[:3]), e.node,
               decided_by="boundary evaluation", syntactic=why)
    run.require(n >= 7, f"only {n} live limit sites found (floor 7)")


def _contains(container, node) -> bool:
    x = node
    while x is not None:
        if x is container:
            return True
        x = parent(x)
    return False


def _attr_writes(prog, attr: str):
    out = []
    for fn in prog.fns:
        for n in walk_fn(fn.node):
            tgts = []
            if isinstance(n, ast.Assign):
                tgts = n.targets
            elif isinstance(n, ast.AugAssign):
                tgts = [n.target]
            for t in tgts:
                if isinstance(t, ast.Attribute) and t.attr == attr:
                    out.append((fn, n))
    return out


def _refuted_tmp_scope(prog, node) -> bool:
    """node is under `... tmp_scope is not None` and nothing ever stores a non-None tmp_scope."""
    under = any(isinstance(a, ast.If) and "tmp_scope is not None" in text(a.test) for a in ancestors(node))
    if not under:
        return False
    for fn, n in _attr_writes(prog, "tmp_scope"):
        v = n.value
        if not (isinstance(v, ast.Constant) and v.value is None):
            return False
    return True


# ---------------------------------------------------------------------------------------- counters / scans, observed
def eval_vars_counter(prog) -> List[str]:
    """CheckVariableDeclaration.run on a stub declaration: scope.vars goes up by exactly 1 in a Function scope, stays put at
    file level.  Raises Unsupported."""
    from ..stubrun import RUNTIME_ERRORS, StubContext, line_tokens, run_rule
    P = []
    for scope, before, want in (("Function", 0, 1), ("Function", 3, 4), ("Function", 7, 8), ("GlobalScope", 0, 0), ("GlobalScope", 2, 2)):
        sc = StubContext(prog, line_tokens(["TAB", "INT", "TAB", ("IDENTIFIER", "a"), "SEMI_COLON", "NEWLINE"], line=3),
                         history=["IsFuncDeclaration", "IsBlockStart", "IsVarDeclaration", "IsVarDeclaration"],
                         scope=scope, scope_attrs={"vars": before, "vdeclarations_allowed": True})
        try:
            run_rule(prog, "CheckVariableDeclaration", sc)
        except RUNTIME_ERRORS:
            pass
        except Unsupported:
            if sc.obj.scope.vars == before and want != before:
                raise
        got = sc.obj.scope.vars
        if got != want:
            P.append(f"a declaration in a {scope} scope holding {before} variables leaves scope.vars at {got}, expected {want}")
    return P


def eval_lines_counter(prog) -> List[str]:
    """CheckLineCount.run on stub statements: scope.lines goes up by the number of (escaped) newline tokens among the first
    tkn_scope tokens; Scope.outer() adds the scope's lines to its parent and answers the parent.  Raises Unsupported."""
    from ..stubrun import RUNTIME_ERRORS, StubContext, evaluator_for, make_scope, run_rule, tok
    P = []
    layouts = [["INT", "NEWLINE", "TAB", "IDENTIFIER", "NEWLINE", "RBRACE", "NEWLINE", "INT"],
               ["IDENTIFIER", "ESCAPED_NEWLINE", "IDENTIFIER", "SEMI_COLON", "NEWLINE", "NEWLINE", "NEWLINE", "NEWLINE"],
               ["NEWLINE", "NEWLINE", "NEWLINE", "IDENTIFIER", "NEWLINE", "IDENTIFIER", "IDENTIFIER", "NEWLINE"],
               ["LBRACE", "NEWLINE", "IDENTIFIER", "IDENTIFIER", "IDENTIFIER", "IDENTIFIER", "IDENTIFIER", "NEWLINE"],
               # tokens whose text spans several lines count by their NEWLINE tokens only (a block comment is one statement
               # line for the block-start arithmetic of IsBlockStart)
               [("MULT_COMMENT", "/*\n a\n b\n*/"), "NEWLINE", ("STRING", '"a\\\nb"'), "NEWLINE", ("COMMENT", "// x"), "NEWLINE",
                ("MULT_COMMENT", "/* one */"), "NEWLINE"]]
    for kinds in layouts:
        for n in (1, 2, 5, 8):
            for scope, hist in (("Function", ["IsFuncDeclaration", "IsBlockStart", "IsAssignation"]),
                                ("ControlStructure", ["IsBlockStart", "IsControlStatement", "IsAssignation"]),
                                ("GlobalScope", ["IsEmptyLine", "IsVarDeclaration"])):
                toks = [tok(k, 1 + i, 1) if isinstance(k, str) else tok(k[0], 1 + i, 1, k[1]) for i, k in enumerate(kinds)]
                kinds = [k if isinstance(k, str) else k[0] for k in kinds]
                parent = make_scope("Function") if scope == "ControlStructure" else None
                sc = StubContext(prog, toks, history=hist, scope=scope, scope_attrs={"lines": 4, "parent": parent, "lvl": 1 if parent else 0},
                                 tkn_scope=n)
                try:
                    run_rule(prog, "CheckLineCount", sc)
                except RUNTIME_ERRORS:
                    pass
                want = 4 + sum(1 for k in kinds[:n] if k in ("NEWLINE", "ESCAPED_NEWLINE"))
                if sc.obj.scope.lines != want:
                    P.append(f"a {n}-token statement `{' '.join(kinds[:n])}` in a {scope} scope moves scope.lines from 4 to "
                             f"{sc.obj.scope.lines}, expected {want} (one per newline token of the statement)")
    # Scope.outer
    parent = make_scope("Function", lines=7)
    child = make_scope("ControlStructure", parent=parent, lines=3)
    sc = StubContext(prog, [])
    ev = evaluator_for(prog, "CheckLineCount", sc)
    outer = ev.methods.get(("ControlStructure", "outer"))
    if outer is None:
        raise Unsupported("Scope.outer not found")
    r = ev.invoke(outer, [child], {})
    if r is not parent or parent.lines != 10 or child.lines != 3:
        P.append(f"Scope.outer() on a 3-line block inside a 7-line function answers {r!r} and leaves parent.lines = {parent.lines} "
                 f"(expected the parent, 10)")
    top = make_scope("GlobalScope", lines=5)
    r = ev.invoke(ev.methods.get(("GlobalScope", "outer"), outer), [top], {})
    if r is not None:
        P.append("Scope.outer() on the GlobalScope does not answer None")
    return sorted(set(P), key=P.index)


def eval_token_scan(prog, cname: str) -> List[str]:
    """Every token of the statement (and none beyond it) is looked at: a single offending token is moved through the list."""
    from ..stubrun import RUNTIME_ERRORS, StubContext, run_rule, tok
    P = []
    if cname == "CheckLineLen":
        for n in (1, 3, 6):
            for bad in range(0, 8):
                toks = [tok("IDENTIFIER", 1 + i // 3, 1 + (i % 3) * 4, "abc") for i in range(8)]
                toks[bad] = tok("IDENTIFIER", 1 + bad // 3, 90, "far")
                sc = StubContext(prog, toks, history=["IsExpressionStatement"], tkn_scope=n)
                try:
                    run_rule(prog, cname, sc)
                except RUNTIME_ERRORS:
                    raise Unsupported("CheckLineLen fails on the stub statement")
                got = "LINE_TOO_LONG" in sc.codes()
                if got != (bad < n):
                    P.append(f"a token beyond column 81 at position {bad} of a {n}-token statement is "
                             f"{'reported' if got else 'not reported'}")
    return sorted(set(P), key=P.index)


def _is_unit_increment(n) -> bool:
    if isinstance(n, ast.AugAssign):
        return isinstance(n.op, ast.Add) and isinstance(n.value, ast.Constant) and n.value.value == 1
    if isinstance(n, ast.Assign) and len(n.targets) == 1 and isinstance(n.value, ast.BinOp) and isinstance(n.value.op, ast.Add):
        t = text(n.targets[0])
        a, b = n.value.left, n.value.right
        return (text(a) == t and isinstance(b, ast.Constant) and b.value == 1) or (text(b) == t and isinstance(a, ast.Constant) and a.value == 1)
    return False


def _functions_counter(prog, live):
    """CFG statement of `one unit increment per recognised function definition`: all live writes are unit increments in
    IsFuncDeclaration.run (helpers are inlined); every `return True, ...` of run() is reached only through one of them, no
    `return False, ...` is reachable from one, and no path executes two."""
    from ..cfg import cfg_of
    from ..dataflow import cfg_node_of
    want = "rules/is_func_declaration.py::IsFuncDeclaration.run"
    if not live:
        return False, "no live increment"
    if any(f.key != want for f, _ in live):
        return False, "written outside IsFuncDeclaration.run"
    if not all(_is_unit_increment(n) for _, n in live):
        return False, "a write is not a +1"
    fn = live[0][0]
    g = cfg_of(fn)
    incs = {cfg_node_of(g, n) for _, n in live}
    if None in incs:
        return False, "increment without CFG node"
    for a in incs:
        if any(b == a or True for b in incs if g.can_reach(a, b, follow_exc=False)):
            return False, "a path executes the increment twice (loop / second increment)"
    n_true = 0
    after_inc = set()
    for a in incs:
        after_inc |= g.reachable(a, follow_exc=False)
    before = g.reachable(g.entry, avoid=incs, follow_exc=False)
    for r in walk_fn(fn.node):
        if not isinstance(r, ast.Return):
            continue
        v = r.value.elts[0] if isinstance(r.value, ast.Tuple) and r.value.elts else r.value
        val = v.value if isinstance(v, ast.Constant) else None
        rid = g.nid(r)
        if rid is None or rid not in g.reachable(g.entry, follow_exc=False):
            continue
        if val is True:
            n_true += 1
            if rid in before:
                return False, f"`{text(r, 40)}` (line {r.lineno}) can be reached without the increment"
        elif val is False or v is None or (isinstance(v, ast.Constant) and v.value is None):
            if rid in after_inc:
                return False, f"`{text(r, 40)}` (line {r.lineno}) answers no-match after the increment"
    if n_true == 0:
        return False, "no `return True, ...` found in IsFuncDeclaration.run"
    return True, ""


def rule_counters(run, prog):
    run.rule("R-3.2", "counter discipline: scope.functions / scope.vars / scope.lines / the argument counter each have one "
             "unit increment at the right place and no other live write (constructor zeroing and the parent accumulation "
             "of Scope.outer apart)", floor=4)
    # functions
    w = _attr_writes(prog, "functions")
    live = [(f, n) for f, n in w if not (isinstance(n, ast.Assign) and isinstance(n.value, ast.Constant) and n.value.value == 0
                                        and f.name == "__init__") and not _refuted_tmp_scope(prog, n) and not trivially_dead(n)]
    ok, why_f = _functions_counter(prog, live)
    run.ob("R-3.2", "scope.py::GlobalScope::functions-counter", ok,
           "scope.functions is not incremented exactly once, by 1, on the matching path of IsFuncDeclaration.run: "
           + why_f + " [" + ", ".join(f"{f.key}:{n.lineno} {text(n)}" for f, n in live) + "]", live[0][1] if live else None)
    # vars
    w = _attr_writes(prog, "vars")
    live = [(f, n) for f, n in w if not (isinstance(n, ast.Assign) and isinstance(n.value, ast.Constant) and n.value.value == 0
                                        and f.name == "__init__") and not trivially_dead(n)]
    ok = len(live) == 1 and isinstance(live[0][1], ast.AugAssign) and isinstance(live[0][1].op, ast.Add) \
        and isinstance(live[0][1].value, ast.Constant) and live[0][1].value.value == 1
    if ok:
        f, n = live[0]
        guard = [a for a in ancestors(n) if isinstance(a, ast.If)]
        ok = bool(guard) and "Function" in text(guard[0].test)
        # the comparison follows the increment in the same block
        blk = guard[0].body if guard else []
        idx = [i for i, s in enumerate(blk) if s is n]
        cmp_after = idx and any("TOO_MANY_VARS_FUNC" in text(s) for s in blk[idx[0] + 1:])
        ok = ok and bool(cmp_after)
    try:
        probs = eval_vars_counter(prog)
        ok = not probs
        why_eval = "; ".join(probs[:2])
    except Unsupported as ex:
        run.note(f"R-3.2 vars-counter: CheckVariableDeclaration.run not interpreted ({ex}); syntactic form used")
        why_eval = ""
    run.ob("R-3.2", "scope.py::Scope::vars-counter", ok,
           "scope.vars is not incremented exactly once, by 1, under the Function-scope guard and before the comparison: "
           + (why_eval or ", ".join(f"{f.key}:{n.lineno} {text(n)}" for f, n in live)), live[0][1] if live else None)
    # lines
    w = _attr_writes(prog, "lines")
    live = [(f, n) for f, n in w if not (isinstance(n, ast.Assign) and isinstance(n.value, ast.Constant) and n.value.value == 0
                                        and f.name == "__init__") and not trivially_dead(n)]
    incs = [(f, n) for f, n in live if f.key == "rules/check_line_count.py::CheckLineCount.run"]
    acc = [(f, n) for f, n in live if f.key == "scope.py::Scope.outer"]
    others = [(f, n) for f, n in live if (f, n) not in incs and (f, n) not in acc]
    ok = len(incs) == 1 and isinstance(incs[0][1], ast.AugAssign) and isinstance(incs[0][1].op, ast.Add) \
        and isinstance(incs[0][1].value, ast.Constant) and incs[0][1].value.value == 1 and not others
    if ok:
        n = incs[0][1]
        loop = [a for a in ancestors(n) if isinstance(a, ast.For)]
        cond = [a for a in ancestors(n) if isinstance(a, ast.If)]
        ok = bool(loop) and "tokens" in text(loop[0].iter) and "tkn_scope" in text(loop[0].iter) and bool(cond) \
            and "NEWLINE" in text(cond[0].test)
    ok_acc = len(acc) == 1 and text(acc[0][1]) == "self.parent.lines += self.lines"
    ok = ok and ok_acc
    why_eval = ""
    try:
        probs = eval_lines_counter(prog)
        # who writes is still a matter of form: only CheckLineCount.run and Scope.outer
        ok = not probs and not others and bool(incs) and bool(acc)
        why_eval = "; ".join(probs[:2])
    except Unsupported as ex:
        run.note(f"R-3.2 lines-counter: CheckLineCount.run / Scope.outer not interpreted ({ex}); syntactic form used")
    run.ob("R-3.2", "scope.py::Scope::lines-counter", ok,
           "scope.lines is not `+= 1 per NEWLINE token of the statement` (CheckLineCount) plus the parent accumulation of "
           "Scope.outer: " + (why_eval or ", ".join(f"{f.key}:{n.lineno} {text(n)}" for f, n in live)), incs[0][1] if incs else None)
    rm = registry_model(prog)
    run.ob("R-3.2", "rules/check_line_count.py::CheckLineCount::runs-on-every-statement",
           "_rule" in rm.live_slots("CheckLineCount"), "CheckLineCount is not run after every statement", None)


SAFE_SCOPES = {"GlobalScope", "UserDefinedType"}


def _scope_types(atom, negated) -> Optional[set]:
    """Scope classes the current scope may be when *atom* (negated: its negation) holds; None if the atom says nothing.
    Forms: type(context.scope) is / == / in <classes>, isinstance(context.scope, <classes>), context.scope.name == / in
    <names>, and their negations; a negated conjunction of `is not` tests (guard clause `if type(s) is not A and type(s) is
    not B: return`)."""
    def names(e):
        if isinstance(e, (ast.Tuple, ast.List, ast.Set)):
            out = set()
            for x in e.elts:
                n = names(x)
                if n is None:
                    return None
                out |= n
            return out
        if isinstance(e, ast.Name):
            return {e.id}
        if isinstance(e, ast.Constant) and isinstance(e.value, str):
            return {e.value}
        return None

    def subject(e) -> bool:
        t = text(e)
        return t in ("type(context.scope)", "type(self.scope)", "context.scope.name", "self.scope.name", "context.scope.__class__",
                     "type(context.scope).__name__")

    if isinstance(atom, ast.UnaryOp) and isinstance(atom.op, ast.Not):
        return _scope_types(atom.operand, not negated)
    if isinstance(atom, ast.BoolOp):
        parts = [_scope_types(v, negated) for v in atom.values]
        conj = isinstance(atom.op, ast.And) != negated            # De Morgan
        if conj:
            known = [p_ for p_ in parts if p_ is not None]
            return set.intersection(*known) if known else None
        return set.union(*parts) if all(p_ is not None for p_ in parts) else None
    if isinstance(atom, ast.Compare) and len(atom.ops) == 1 and subject(atom.left):
        op, ns = atom.ops[0], names(atom.comparators[0])
        if ns is None:
            return None
        pos = isinstance(op, (ast.Is, ast.Eq, ast.In))
        neg = isinstance(op, (ast.IsNot, ast.NotEq, ast.NotIn))
        if (pos and not negated) or (neg and negated):
            return ns
        return None
    if isinstance(atom, ast.Call) and text(atom.func) == "isinstance" and len(atom.args) == 2 \
            and text(atom.args[0]) in ("context.scope", "self.scope") and not negated:
        return names(atom.args[1])
    return None


def _established_scopes(fn, node) -> Optional[set]:
    out = None
    for atom, negated, _ in dominating_atoms(fn, node):
        ts = _scope_types(atom, negated)
        if ts is not None:
            out = ts if out is None else (out & ts)
    return out


def _scope_type_guard(fn, node) -> bool:
    """Is *node* only reached when the current scope is file level / a type body -- so that no open block of a function is
    among the scopes it climbs through?  Decided on the CFG: a test on the type / name of context.scope whose outcome
    dominates the node (nested if or guard clause, in this function -- or, for a helper method, at each of its call sites in
    the class's run()), or a dominating test history[-1] == 'IsFuncDeclaration' (that primary is itself so guarded)."""
    from ..calls import callgraph
    from ..model import program
    ts = _established_scopes(fn, node)
    if ts is not None and ts <= SAFE_SCOPES:
        return True
    for atom, negated, _ in dominating_atoms(fn, node):
        if not negated and isinstance(atom, ast.Compare) and len(atom.ops) == 1 and isinstance(atom.ops[0], ast.Eq) \
                and text(atom.left) in ("context.history[-1]", "self.history[-1]") and text(atom.comparators[0]) == "'IsFuncDeclaration'":
            return True
    cls = fn.cls
    if cls is not None and fn.name != "run" and "run" in cls.methods:
        runfn = cls.methods["run"]
        sites = callgraph(program()).sites.get(fn.key, [])
        if sites and all(c.caller is runfn for c in sites):
            return all((_established_scopes(runfn, c.node) or {"?"}) <= SAFE_SCOPES for c in sites)
    return False


def eval_update_outer(prog) -> List[str]:
    """Context.update interpreted on stub scopes: leaving a scope adds its lines to the parent exactly once and makes the
    parent current; entering one adds nothing; finished single-instruction control structures are climbed.  Raises
    Unsupported."""
    from ..stubrun import RUNTIME_ERRORS, StubContext, evaluator_for, make_scope
    P = []

    def run_update(ctx):
        sc = StubContext(prog, [])
        ev = evaluator_for(prog, "CheckLineCount", sc)
        up = ev.methods.get(("Context", "update"))
        if up is None:
            raise Unsupported("Context.update not found")
        try:
            ev.invoke(up, [ctx], {})
        except RUNTIME_ERRORS as e:
            raise Unsupported(f"Context.update fails on the stub: {type(e).__name__}: {e}")

    def ctx_of(scope, sub, last):
        c = StubContext(prog, [], history=["IsFuncDeclaration", last], scope="GlobalScope").obj
        c.scope, c.sub = scope, sub
        return c
    # leaving a function body
    glob = make_scope("GlobalScope", lines=2)
    fun = make_scope("Function", parent=glob, lines=9)
    c = ctx_of(fun, glob, "IsBlockEnd")
    run_update(c)
    if c.scope is not glob or glob.lines != 11:
        P.append(f"leaving a 9-line function body: current scope {c.scope._cls}, parent.lines = {glob.lines} (expected GlobalScope, 2 + 9)")
    # entering one
    glob = make_scope("GlobalScope", lines=2)
    fun = make_scope("Function", parent=glob, lines=0)
    c = ctx_of(glob, fun, "IsFuncDeclaration")
    run_update(c)
    if c.scope is not fun or glob.lines != 2 or fun.lines != 0:
        P.append(f"entering a function body: current scope {c.scope._cls}, GlobalScope.lines = {glob.lines}, Function.lines = {fun.lines}")
    # entering a block inside a function
    glob = make_scope("GlobalScope", lines=2)
    fun = make_scope("Function", parent=glob, lines=4)
    blk = make_scope("ControlStructure", parent=fun, lines=0, multiline=True)
    c = ctx_of(fun, blk, "IsBlockStart")
    run_update(c)
    if c.scope is not blk or glob.lines != 2 or fun.lines != 4:
        P.append(f"entering a block inside a 4-line function: current scope {c.scope._cls}, GlobalScope.lines = {glob.lines}, "
                 f"Function.lines = {fun.lines} (expected ControlStructure, 2, 4)")
    # a finished brace-less control structure (two levels)
    fun = make_scope("Function", parent=make_scope("GlobalScope"), lines=5)
    cs = make_scope("ControlStructure", parent=fun, lines=2, instructions=1, multiline=False)
    cs2 = make_scope("ControlStructure", parent=cs, lines=1, instructions=1, multiline=False)
    c = ctx_of(cs2, None, "IsAssignation")
    run_update(c)
    if c.scope is not fun or fun.lines != 8:
        P.append(f"after the only instruction of two nested brace-less control structures: current scope {c.scope._cls}, "
                 f"Function.lines = {fun.lines} (expected Function, 5 + 2 + 1)")
    # a braced control structure stays open
    fun = make_scope("Function", parent=make_scope("GlobalScope"), lines=5)
    cs = make_scope("ControlStructure", parent=fun, lines=2, instructions=1, multiline=True)
    c = ctx_of(cs, None, "IsAssignation")
    run_update(c)
    if c.scope is not cs or fun.lines != 5:
        P.append("a braced control structure is left (or its lines counted) after its first instruction")
    return P


def rule_outer_effect(run, prog):
    run.rule("R-3.5", "effect / ordering / who-may-call: Scope.outer() adds the scope's line count to its parent.  It may be "
             "applied (a) in Context.update, to the current scope, when that scope is left -- update runs after the check "
             "phase, so the closing statement's own lines are already counted -- or (b) where no open block of a function "
             "can be climbed through (statement recognised at file level / in a type body).  A call in a rule's run() on an "
             "open scope double-counts the block's lines; a call in a Primary that closes the scope comes before "
             "CheckLineCount and loses the closing line", floor=4)
    n = 0
    try:
        up_problems = eval_update_outer(prog)
    except Unsupported as ex:
        run.note(f"R-3.5: Context.update not interpreted ({ex}); syntactic form used")
        up_problems = None
    for fn in prog.fns:
        for c in walk_fn(fn.node):
            if isinstance(c, ast.Call) and isinstance(c.func, ast.Attribute) and c.func.attr == "outer" and not c.args:
                n += 1
                par = parent(c)
                if fn.key == "context.py::Context.update" and up_problems is not None:
                    ok = not up_problems
                    why = ("the closing site no longer applies it to the current scope exactly when that scope is replaced by "
                           "its parent: " + "; ".join(up_problems[:2]))
                elif fn.key == "context.py::Context.update":
                    recv = text(c.func.value) == "self.scope"
                    if isinstance(par, ast.Assign):
                        ok = recv and text(par.targets[0]) == "self.scope"
                    else:
                        blk = parent(par)
                        after = []
                        if isinstance(par, ast.Expr) and isinstance(blk, ast.If):
                            outer_blk = parent(blk)
                            body = getattr(outer_blk, "body", [])
                            idx = [i for i, s_ in enumerate(body) if s_ is blk]
                            after = body[idx[0] + 1:] if idx else []
                        ok = recv and "self.sub is self.scope.parent" in text(getattr(blk, "test", None)) and bool(after) \
                            and text(after[0]) == "self.scope = self.sub"
                    why = "the closing site no longer applies it to the current scope exactly when that scope is replaced by its parent"
                else:
                    ok = _scope_type_guard(fn, c)
                    why = ("called from a rule on a scope that may be an open block of a function, or that is only being closed "
                           "(use get_outer() to look at / designate the parent): its lines are added to the function before the "
                           "closing line is counted, or twice")
                run.ob("R-3.5", f"{fn.key}::outer[{text(par, 40)}]", ok, f"Scope.outer(): {why}", c)
    run.require(n >= 4, f"only {n} calls of Scope.outer() found (floor 4)")


def _is_tab_test(fn, test) -> bool:
    """`<name> == "\\t"` in either order, `<name> in ("\\t",)`, with the constant possibly hoisted to a name."""
    if isinstance(test, ast.Compare) and len(test.ops) == 1 and isinstance(test.ops[0], (ast.Eq, ast.In)):
        sides = [test.left, test.comparators[0]]
        vals = [fold_in_fn(x, fn, default=None) if not (isinstance(x, ast.Name) and x.id in ("char", "c", "ch")) else None for x in sides]
        names = [isinstance(x, ast.Name) for x in sides]
        for v, other_is_name in ((vals[0], names[1]), (vals[1], names[0])):
            if other_is_name and (v == "\t" or (isinstance(v, (tuple, list, set, frozenset)) and set(v) == {"\t"})):
                return True
    return False


def _tabstops_whole_pop(prog, why):
    try:
        from ..lexsim import LexerSim, Unsupported as _LU
    except Exception:
        raise Undecided(f"tab branch of Lexer.pop outside the evaluable subset: {why}")
    bad = None
    n_eval = 0
    try:
        for col in range(1, 13):
            for use_spaces, use_escape in ((False, False), (True, False), (False, True), (True, True)):
                sim = LexerSim(prog, "a" * (col - 1) + "\t" + "x")
                if col > 1:
                    sim.call("pop", times=col - 1)
                out = sim.call("pop", use_spaces=use_spaces, use_escape=use_escape)
                n_eval += 1
                want = 4 - (col - 1) % 4
                ok = out.kind == "ok" and sim.line_pos == col + want and out.value == (" " * want if use_spaces else "\t")
                if not ok and bad is None:
                    bad = (col, sim.line_pos, want, out.value if out.kind == "ok" else repr(out),
                           " read with use_escape (inside a string / character literal)" if use_escape else "")
    except _LU as e:
        raise Undecided(f"Lexer.pop is outside the evaluable subset: {e}")
    return bad, n_eval


def rule_tabstops(run, prog):
    run.rule("R-3.3", "tab stops: the statements Lexer.pop executes for a tab, interpreted by the analyser for start "
             "columns 1..12, advance the column by 1..4 to the next column congruent to 1 modulo 4, and expand to that many "
             "blanks when use_spaces is set", floor=1)
    pop = prog.method("Lexer", "pop")
    run.require(pop is not None, "anchor vanished: Lexer.pop")
    tab_if = None
    for n in walk_fn(pop.node):
        if isinstance(n, ast.If) and _is_tab_test(pop, n.test):
            tab_if = n
    bad = None
    n_eval = 0
    try:
        if tab_if is None:
            raise Unsupported("no statement of pop() is recognisably the tab branch")
        blk = parent(tab_if)
        body = blk.body
        idx = [i for i, s in enumerate(body) if s is tab_if][0]
        stmts = body[idx:]
        for col in range(1, 13):
            for use_spaces in (False, True):
                me = Obj("Lexer")
                me.__dict__["__line_pos"] = col
                me.__dict__["__pos"] = 0
                me.__dict__["__line"] = 1
                env = {"self": me, "char": "\t", "size": 1, "use_spaces": use_spaces, "result": ""}
                # locals that hold a sample of the position state (e.g. `lineno, column = self.line_pos()`): the value
                # they have when nothing moved since the sample (staleness is R-9.6's business)
                for n_ in walk_fn(pop.node):
                    if isinstance(n_, ast.Assign) and isinstance(n_.value, ast.Call) and text(n_.value.func) == "self.line_pos" \
                            and isinstance(n_.targets[0], ast.Tuple) and len(n_.targets[0].elts) == 2:
                        a_, b_ = n_.targets[0].elts
                        if isinstance(a_, ast.Name) and isinstance(b_, ast.Name):
                            env.setdefault(a_.id, 1)
                            env.setdefault(b_.id, col)
                    if isinstance(n_, ast.Assign) and isinstance(n_.targets[0], ast.Name) and text(n_.value) in ("self.__line_pos",):
                        env.setdefault(n_.targets[0].id, col)
                ev = Evaluator({})
                ev.block(stmts, env)
                n_eval += 1
                new = me.__dict__["__line_pos"]
                adv = new - col
                want = 4 - (col - 1) % 4
                if (adv != want or (use_spaces and env["result"] != " " * want) or (not use_spaces and env["result"] != "\t")) and bad is None:
                    bad = (col, new, want, env["result"])
    except Unsupported as e:
        # the branch cannot be evaluated in isolation (e.g. it moved into a helper that was inlined back under other
        # local names): interpret the whole pop() on a tab standing at columns 1..12 instead
        bad, n_eval = _tabstops_whole_pop(prog, e)
    else:
        # the branch holds in isolation; whether pop() reaches it in each of its reading modes (plain, use_spaces, use_escape:
        # a raw tab inside a literal or a comment is laid out like any other) is decided on the whole function
        if bad is None:
            try:
                bad, n2 = _tabstops_whole_pop(prog, "")
                n_eval += n2
            except Undecided:
                pass
    run.ob("R-3.3", f"{pop.key}::tab-stop", bad is None,
           (f"a tab at column {bad[0]}{bad[4] if len(bad) > 4 else ''} moves to column {bad[1]} (expected {bad[0] + bad[2]}: tab stops "
            f"every 4 columns) / expands to {bad[3]!r}") if bad else "ok", tab_if or pop.node, evaluations=n_eval)


FULL_RANGE_BOUNDS = ("len(context.tokens)", "context.tkn_scope", "context.arg_pos[1]", "len(context.tokens[:context.tkn_scope])")


def _arg_scan_syntactic(prog, fd):
    """(ok | None when the counting loop is not of the recognised form, why, node)"""
    incs = [n for n in walk_fn(fd.node) if isinstance(n, ast.AugAssign) and isinstance(n.target, ast.Name)
            and any(isinstance(a, ast.If) and "COMMA" in text(a.test) for a in ancestors(n))
            and isinstance(n.op, ast.Add)]
    if not incs:
        return None, "the per-COMMA increment is not of the recognised form", fd.node
    loop = next((a for a in ancestors(incs[0]) if isinstance(a, ast.While)), None)
    if loop is None:
        return None, "the counting loop is not a while loop", fd.node
    bad = []
    depth_ok = False
    for c in conjuncts(loop.test):
        t = text(c)
        if isinstance(c, ast.Compare) and len(c.ops) == 1 and isinstance(c.left, ast.Name) and isinstance(c.ops[0], ast.Gt) \
                and isinstance(c.comparators[0], ast.Constant) and c.comparators[0].value == 0:
            depth_ok = True                     # nesting depth > 0
            continue
        if "peek_token" in t and ("is not None" in t or t.startswith("context.peek_token")):
            continue                            # end of input
        if isinstance(c, ast.Compare) and len(c.ops) == 1 and isinstance(c.ops[0], (ast.Lt, ast.LtE)) \
                and isinstance(c.left, ast.Name) and text(c.comparators[0]) in FULL_RANGE_BOUNDS:
            continue                            # end of the statement / of the parameter list
        bad.append(t)
    # the depth variable really tracks parentheses: decremented under an RPARENTHESIS test
    dec = [n for n in ast.walk(loop) if isinstance(n, ast.AugAssign) and isinstance(n.op, ast.Sub)
           and any(isinstance(a, ast.If) and "RPARENTHESIS" in text(a.test) for a in ancestors(n))]
    if not depth_ok or not dec:
        return None, "the loop condition / depth bookkeeping is not of the recognised form", loop
    return (not bad), f"cut short by `{' and '.join(bad)}`", loop


def rule_scan_complete(run, prog):
    run.rule("R-3.4", "scan completeness: the loops that feed a limit (argument counter, per-token column test, newline "
             "counter, per-line comment width) range over the whole unit.  Decided on the behaviour: the check's run() is "
             "interpreted on synthetic statements in which the offending element moves through every position (long / nested / "
             "multi-line parameter lists; a far token at each index below and beyond tkn_scope; the long line first, inside "
             "and last in a block comment); where run() cannot be interpreted, on the form of the loop (a counting while-loop "
             "may stop only on the nesting depth, end of input or the end of the statement; the for-loops iterate "
             "context.tokens[:context.tkn_scope] resp. every line)", floor=4)
    # (a) the argument counter of CheckFuncDeclaration
    fd = prog.method("CheckFuncDeclaration", "run")
    run.require(fd is not None, "anchor vanished: CheckFuncDeclaration.run")
    s_ok, s_why, s_node = _arg_scan_syntactic(prog, fd)
    try:
        probs = boundary_eval(prog, "CheckFuncDeclaration", "TOO_MANY_ARGS")
        ok, why = not probs, "; ".join(probs[:2])
        if ok and s_ok is False:
            run.note(f"R-3.4 arg-scan: the loop condition reads as {s_why}, but every parameter is counted on the synthetic "
                     f"prototypes (plain, nested, multi-line, 1-8 parameters): accepted")
    except Unsupported as ex:
        run.note(f"R-3.4 arg-scan: CheckFuncDeclaration.run not interpreted ({ex}); syntactic form used")
        if s_ok is None:
            raise AnalysisError(f"{fd.key}: {s_why}, and run() cannot be interpreted on stub statements ({ex})")
        ok, why = s_ok, s_why
    run.ob("R-3.4", f"{fd.key}::arg-scan-range", ok,
           f"the scan that counts the parameters does not cover the whole parameter list ({why}): parameters beyond that point "
           f"are not counted", s_node)
    # (b) per-token loops
    for cname, what, evaluate in (("CheckLineLen", "column test", lambda: eval_token_scan(prog, "CheckLineLen")),
                                  ("CheckLineCount", "newline counter", lambda: eval_lines_counter(prog))):
        m = prog.method(cname, "run")
        run.require(m is not None, f"anchor vanished: {cname}.run")
        loops = [n for n in walk_fn(m.node) if isinstance(n, ast.For) and "tokens" in text(n.iter)]
        try:
            probs = evaluate()
            ok, why = not probs, "; ".join(probs[:2])
        except Unsupported as ex:
            run.note(f"R-3.4 {cname}: run() not interpreted ({ex}); syntactic form used")
            ok = len(loops) >= 1 and text(loops[0].iter) in ("context.tokens[:context.tkn_scope]",)
            brk = [x for x in ast.walk(loops[0]) if isinstance(x, (ast.Break, ast.Return))] if loops else []
            ok = ok and not brk
            why = f"iterates `{text(loops[0].iter) if loops else '?'}`" + (", leaves the loop early" if brk else "")
        run.ob("R-3.4", f"{m.key}::token-scan-range", ok,
               f"the {what} does not visit every token of the statement ({why})", loops[0] if loops else m.node)
    # (c) every line of a block comment
    m = prog.method("CheckCommentLineLen", "run")
    run.require(m is not None, "anchor vanished: CheckCommentLineLen.run")
    loops = [n for n in walk_fn(m.node) if isinstance(n, ast.For) and "lines" in text(n.iter)]
    try:
        probs = [p_ for p_ in boundary_eval(prog, "CheckCommentLineLen", "LINE_TOO_LONG") if "block comment" in p_ and "not emitted" in p_]
        ok, why = not probs, "; ".join(probs[:2])
    except Unsupported as ex:
        run.note(f"R-3.4 CheckCommentLineLen: run() not interpreted ({ex}); syntactic form used")
        ok = len(loops) == 1
        if ok:
            it = loops[0].iter
            seq = it.args[0] if isinstance(it, ast.Call) and text(it.func) == "enumerate" and it.args else it
            ok = isinstance(seq, ast.Name) and not any(isinstance(x, (ast.Break, ast.Return)) for x in ast.walk(loops[0]))
        why = ""
    run.ob("R-3.4", f"{m.key}::line-scan-range", ok,
           f"the comment-width test does not visit every line of the block comment ({why})", loops[0] if loops else m.node)


def check(run, prog):
    rule_thresholds(run, prog)
    rule_scan_complete(run, prog)
    rule_counters(run, prog)
    rule_outer_effect(run, prog)
    rule_tabstops(run, prog)
    from .c09_linesplit import rule_line_split
    rule_line_split(run, prog, "R-3.6")
    from .c03_comment_layout import rule_comment_layout
    rule_comment_layout(run, prog, "R-3.7")
    from .snippet_rules import rule_chained_comments
    rule_chained_comments(run, prog)         # R-3.8
    from .snippet_rules import rule_brace_tail
    rule_brace_tail(run, prog)               # R-3.9
    from .c03_comment_layout import rule_literal_layout
    rule_literal_layout(run, prog, "R-3.10")
    from .snippet_rules import rule_lines_counted_everywhere
    rule_lines_counted_everywhere(run, prog)  # R-3.11
