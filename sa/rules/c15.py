"""C15 — exactly the requested C sources are checked (partial: the three suffix
filters agree; error exits; gitignore only removes).  DESIGN.md §4.15."""
from __future__ import annotations

import ast
import itertools
from typing import List, Optional, Set

from ..cfg import cfg_of
from ..fold import fold_in_fn, try_fold
from ..model import AnalysisError, ancestors, parent, text, walk_fn
from .c04 import _exit_stmt
from .c05 import _cfg_node_of_expr

WANT = {".c", ".h"}


def glob_suffixes(pattern: str) -> Optional[Set[str]]:
    """Finite set of file-name suffixes (from the last dot) matched by the last component of a glob pattern,
    or None if it is not of the form `*<.literal-or-class...>` (e.g. contains * or ? after the dot)."""
    last = pattern.split("/")[-1]
    if not last.startswith("*"):
        return None
    rest = last[1:]
    if not rest.startswith("."):
        return None
    options: List[List[str]] = []
    i = 0
    while i < len(rest):
        ch = rest[i]
        if ch in "*?":
            return None
        if ch == "[":
            j = rest.find("]", i + 1)
            if j < 0:
                return None
            cls = rest[i + 1:j]
            if cls.startswith("!") or cls.startswith("^"):
                return None
            chars = []
            k = 0
            while k < len(cls):
                if k + 2 < len(cls) and cls[k + 1] == "-":
                    chars += [chr(c) for c in range(ord(cls[k]), ord(cls[k + 2]) + 1)]
                    k += 3
                else:
                    chars.append(cls[k])
                    k += 1
            options.append(chars)
            i = j + 1
        else:
            options.append([ch])
            i += 1
    return {"".join(p) for p in itertools.product(*options)}


def _pattern_text(fn, e) -> Optional[str]:
    """Fold a glob pattern; a leading non-constant directory part is replaced by 'DIR'."""
    v = fold_in_fn(e, fn, default=None)
    if isinstance(v, str):
        return v
    if isinstance(e, ast.BinOp) and isinstance(e.op, ast.Add):
        r = fold_in_fn(e.right, fn, default=None)
        if isinstance(r, str):
            return "DIR" + r
    if isinstance(e, ast.JoinedStr):
        parts = []
        for p in e.values:
            parts.append(str(p.value) if isinstance(p, ast.Constant) else "DIR")
        return "".join(parts)
    return None


def _discovery_fn(prog):
    """The function of __main__.py that holds the suffix test of the discovery loop (main itself, or a helper /
    nested function extracted from it), with the test."""
    hits = []
    for fn in prog.fns:
        if fn.mod.rel != "__main__.py":
            continue
        for n in walk_fn(fn.node):
            if isinstance(n, ast.Compare) and len(n.ops) == 1 and isinstance(n.ops[0], (ast.In, ast.NotIn)) \
                    and text(n.left).endswith(".suffix"):
                hits.append((fn, n))
    return hits


def _is_args_file(e) -> bool:
    return isinstance(e, ast.Attribute) and text(e) == "args.file"


def _args_file_test(test):
    """+1: true iff file arguments were given; -1: true iff none were given; None: some other condition."""
    if _is_args_file(test):
        return 1
    if isinstance(test, ast.UnaryOp) and isinstance(test.op, ast.Not):
        v = _args_file_test(test.operand)
        return None if v is None else -v
    if isinstance(test, ast.Compare) and len(test.ops) == 1:
        l, r = text(test.left), text(test.comparators[0])
        op = test.ops[0]
        if l == "len(args.file)" and r == "0":
            return -1 if isinstance(op, ast.Eq) else 1 if isinstance(op, (ast.Gt, ast.NotEq)) else None
        if l == "args.file" and r in ("[]", "None"):
            return -1 if isinstance(op, (ast.Eq, ast.Is)) else 1 if isinstance(op, (ast.NotEq, ast.IsNot)) else None
    return None


def default_glob_condition(prog, fn, call, depth=0):
    """Under which condition is the no-argument glob evaluated?  Returns (ok, description)."""
    from ..calls import callgraph
    child = call
    for a in ancestors(call):
        if isinstance(a, (ast.FunctionDef, ast.AsyncFunctionDef, ast.Lambda)):
            break
        if isinstance(a, ast.IfExp) and child is not a.test:
            pol = _args_file_test(a.test)
            want = 1 if child is a.orelse else -1
            return (pol == want), f"`{text(a.test, 60)}` ({'else' if child is a.orelse else 'then'} side)"
        if isinstance(a, ast.BoolOp) and child is not a.values[0]:
            before = a.values[:a.values.index(child)]
            if isinstance(a.op, ast.Or):
                return all(_is_args_file(b) for b in before), f"`{' or '.join(text(b, 40) for b in before)}` being false"
            return all(_args_file_test(b) == -1 for b in before), f"`{' and '.join(text(b, 40) for b in before)}` being true"
        if isinstance(a, ast.If) and child is not a.test:
            pol = _args_file_test(a.test)
            in_body = any(child is s for s in a.body)
            if pol is None and _args_file_test_free(a.test):
                child = a
                continue                      # an unrelated enclosing condition (e.g. the --cfile / --hfile switch)
            return (pol == (-1 if in_body else 1)), f"`if {text(a.test, 60)}` ({'then' if in_body else 'else'} branch)"
        child = a
    if depth < 2 and fn.key != "__main__.py::main":
        cg = callgraph(prog)
        sites = [c for c in cg.sites.get(fn.key, []) if isinstance(c.node, ast.Call)]
        if len(sites) == 1:
            return default_glob_condition(prog, sites[0].caller, sites[0].node, depth + 1)
    return False, "no condition at all"


def _args_file_test_free(test) -> bool:
    return "args.file" not in text(test) and "files" not in text(test) and "stack" not in text(test)


def check(run, prog):
    main = prog.fn("__main__.py::main")

    # ---- R-15.1 ------------------------------------------------------------------------------------
    run.rule("R-15.1", "sibling agreement: the suffix test for explicitly named files and the two glob patterns (no argument / "
             "directory argument) all denote exactly {.c, .h}; both globs are recursive with a **/ component", floor=3)
    hits = _discovery_fn(prog)
    run.require(len(hits) == 1, f"anchor vanished: exactly one `path.suffix [not] in (...)` test in __main__.py (found {len(hits)})")
    disc, site_a = hits[0]
    g = cfg_of(disc)
    sa = fold_in_fn(site_a.comparators[0], disc, default=None)
    s_a = set(sa) if isinstance(sa, (tuple, list, set, frozenset)) else None
    run.ob("R-15.1", f"{main.key}::suffix-filter[explicit]", s_a == WANT,
           f"explicitly named files are accepted for suffixes {sorted(s_a) if s_a is not None else '?'}; expected exactly {sorted(WANT)}",
           site_a)
    globs = []
    for fn in prog.fns:
        if fn.mod.rel == "__main__.py":
            globs += [(fn, n) for n in walk_fn(fn.node) if isinstance(n, ast.Call) and text(n.func) in ("glob.glob", "glob.iglob")]
    run.require(len(globs) >= 2, "anchor vanished: the two glob.glob calls of __main__.py")
    default_glob = None
    for fn, c in sorted(globs, key=lambda x: x[1].lineno):
        pat = _pattern_text(fn, c.args[0]) if c.args else None
        rec = any(k.arg == "recursive" and try_fold(k.value, fn.mod) is True for k in c.keywords)
        if pat is None:
            run.ob("R-15.1", f"{main.key}::suffix-filter[glob ?]", False, f"glob pattern {text(c.args[0])} does not fold", c)
            continue
        which = "directory" if pat.startswith("DIR") else "no-argument"
        if which == "no-argument":
            default_glob = (fn, c)
        sx = glob_suffixes(pat)
        deep = "**/" in pat
        run.ob("R-15.1", f"{main.key}::suffix-filter[glob {which}]", sx == WANT and rec and deep,
               f"glob pattern {pat!r} matches suffixes {sorted(sx) if sx is not None else 'an unbounded set'} "
               f"(recursive={rec}, has **/: {deep}); expected exactly {sorted(WANT)}, recursive", c, pattern=pat)

    # ---- R-15.5 ------------------------------------------------------------------------------------------
    run.rule("R-15.5", "the current-directory default is chosen from the arguments, not from what discovery found: the "
             "no-argument glob is evaluated exactly under a test of `args.file` (IfExp / or / if, right polarity)", floor=1)
    run.require(default_glob is not None, "anchor vanished: the no-argument glob (pattern without a directory prefix)")
    okc, desc = default_glob_condition(prog, default_glob[0], default_glob[1])
    run.ob("R-15.5", f"{main.key}::default-only-without-arguments", okc,
           f"the whole current directory tree is used under {desc}, which is not `no file argument was given`: named "
           f"arguments that yield no C source would make every file of the tree be checked (or the default is lost)",
           default_glob[1], condition=desc)

    # ---- R-15.2 -----------------------------------------------------------------------------------------
    run.rule("R-15.2", "MPT exits: the missing-path branch prints and exits non-zero on all paths; the wrong-suffix branch "
             "prints and cannot reach the append in that iteration; only the accepted branch appends, once per item; "
             "directories only extend the work list", floor=4)
    exists_if = None
    for n in walk_fn(disc.node):
        if isinstance(n, ast.If) and "exists()" in text(n.test):
            exists_if = n
    run.require(exists_if is not None, "anchor vanished: `if not path.exists()` in the discovery loop")
    neg = text(exists_if.test).startswith("not ")
    branch = exists_if.body if neg else exists_if.orelse
    has_print = any(isinstance(s, ast.Expr) and isinstance(s.value, ast.Call) and text(s.value.func) == "print" for s in branch)
    ex = [(_exit_stmt(s), s) for s in branch if _exit_stmt(s) is not None]
    okx = bool(ex) and branch and branch[-1] is ex[-1][1]
    if okx:
        v = try_fold(ex[-1][0].args[0], disc.mod) if ex[-1][0].args else None
        okx = isinstance(v, int) and not isinstance(v, bool) and v != 0
    run.ob("R-15.2", f"{main.key}::missing-path-exit", has_print and okx,
           "a nonexistent path does not end the run with a message and a non-zero status on every path", exists_if)
    # the suffix branches
    sfx_if = next((a for a in ancestors(site_a) if isinstance(a, ast.If) and a.test is site_a or
                   (isinstance(a, ast.If) and any(x is site_a for x in ast.walk(a.test)))), None)
    run.require(sfx_if is not None, "anchor vanished: the if statement of the suffix test")
    rejected = sfx_if.body if isinstance(site_a.ops[0], ast.NotIn) else sfx_if.orelse
    accepted = sfx_if.orelse if isinstance(site_a.ops[0], ast.NotIn) else sfx_if.body
    stack_loop = next((a for a in ancestors(sfx_if) if isinstance(a, ast.For)), None)
    run.require(stack_loop is not None, "anchor vanished: the work-list loop of the discovery")
    worklist = text(stack_loop.iter)
    appends = [n for n in ast.walk(stack_loop) if isinstance(n, ast.Call) and isinstance(n.func, ast.Attribute)
               and n.func.attr == "append" and isinstance(n.func.value, ast.Name) and n.func.value.id != worklist]
    rej_print = any(isinstance(s, ast.Expr) and isinstance(s.value, ast.Call) and text(s.value.func) == "print" for s in rejected)
    rej_appends = [a for a in appends if any(_contains(s, a) for s in rejected)]
    # after the rejected branch, no append is reachable in the same iteration of the stack loop
    it = g.nid(stack_loop)
    leak = False
    if rejected:
        first = g.nid(rejected[0]) if g.nid(rejected[0]) is not None else _cfg_node_of_expr(g, rejected[0])
        for a in appends:
            aid = _cfg_node_of_expr(g, a)
            if g.can_reach(first, aid, avoid={it}, follow_exc=False):
                leak = True
    run.ob("R-15.2", f"{main.key}::wrong-suffix-not-checked", rej_print and not rej_appends and not leak,
           "a named file with another suffix is not rejected with a message, or is still appended to the files to check", sfx_if)
    acc_appends = [a for a in appends if any(_contains(s, a) for s in accepted)]
    in_inner_loop = [a for a in acc_appends if any(isinstance(x, (ast.For, ast.While)) and x is not stack_loop and _contains(stack_loop, x)
                                                  for x in ancestors(a))]
    other = [a for a in appends if a not in acc_appends]
    arg_ok = all(isinstance(a.args[0], ast.Name) for a in acc_appends) if acc_appends else False
    # the list that receives the Files is `files` of main, or is what the extracted helper returns
    flows = False
    if acc_appends:
        recv = acc_appends[0].func.value.id
        if disc is main:
            flows = recv == "files"
        else:
            rets = [n for n in walk_fn(disc.node) if isinstance(n, ast.Return)]
            flows = bool(rets) and all(r.value is not None and text(r.value) == recv for r in rets)
    run.ob("R-15.2", f"{main.key}::append-once-per-item", len(acc_appends) == 1 and not in_inner_loop and not other and arg_ok and flows,
           "the accepted branch does not append exactly one File per work-list item to the list of files to check",
           acc_appends[0] if acc_appends else sfx_if)
    # File built from the item itself
    files_ctor = [n for n in ast.walk(stack_loop) if isinstance(n, ast.Call) and text(n.func) == "File"]
    item = text(stack_loop.target)
    run.ob("R-15.2", f"{main.key}::file-from-item", len(files_ctor) == 1 and files_ctor[0].args and text(files_ctor[0].args[0]) == item
           and len(files_ctor[0].args) == 1, "the File is not built from the work-list item itself (path changed on the way)",
           files_ctor[0] if files_ctor else stack_loop)
    dir_if = [n for n in ast.walk(stack_loop) if isinstance(n, ast.If) and "is_dir()" in text(n.test)]
    okd = len(dir_if) == 1 and all(isinstance(s, ast.AugAssign) and text(s.target) == worklist or
                                   (isinstance(s, ast.Expr) and text(s.value.func).startswith(worklist + ".")) for s in dir_if[0].body)
    run.ob("R-15.2", f"{main.key}::directory-extends-worklist", okd,
           "a directory argument does something other than extending the work list with its recursive matches",
           dir_if[0] if dir_if else stack_loop)

    # ---- R-15.3 --------------------------------------------------------------------------------------
    run.rule("R-15.3", "base name: File.basename is os.path.basename(path) and is what the human formatter prints; the JSON "
             "formatter prints the absolute path of the same File", floor=2)
    fi = prog.method("File", "__init__")
    ok = any(isinstance(n, ast.Assign) and text(n.targets[0]) == "self.basename" and text(n.value) == "os.path.basename(path)"
             for n in walk_fn(fi.node))
    ok = ok and any(isinstance(n, ast.Assign) and text(n.targets[0]) == "self.path" and text(n.value) == "path" for n in walk_fn(fi.node))
    run.ob("R-15.3", f"{fi.key}::basename", ok, "File.basename is not os.path.basename(path) / File.path is not the given path", fi.node)
    hm = prog.method("HumanizedErrorsFormatter", "__str__")
    js = prog.method("JSONErrorsFormatter", "__str__")
    ok = any(isinstance(n, ast.Attribute) and text(n) == "file.basename" for n in walk_fn(hm.node)) and \
        any(isinstance(n, ast.Call) and text(n) == "os.path.abspath(file.path)" for n in walk_fn(js.node))
    run.ob("R-15.3", "errors.py::formatters::file-naming", ok,
           "verdict lines are not named after file.basename (human) / the absolute file.path (JSON)", hm.node)

    # ---- R-15.4 ----------------------------------------------------------------------------------------
    run.rule("R-15.4", "--use-gitignore only removes: `files` is replaced by a list built by appending elements of the old "
             "`files` under a condition on the exit code of git check-ignore", floor=1)
    gi = [n for n in main.node.body if isinstance(n, ast.If) and "use_gitignore" in text(n.test)]
    run.require(len(gi) == 1, "anchor vanished: the --use-gitignore block of main")
    blk = gi[0]
    ok, why = _gitignore_subset(blk)
    run.ob("R-15.4", f"{main.key}::gitignore-subset", ok,
           f"with --use-gitignore the list of files is not a filtered copy of the selected files: {why}", blk)
    # the decision about a file is taken from git's answer for that very path
    okp, whyp = _gitignore_exact_paths(blk)
    run.ob("R-15.4", f"{main.key}::gitignore-exact-paths", okp,
           f"the answer of git check-ignore is not matched to the files exactly: {whyp}", blk)


def _gitignore_subset(blk):
    """(ok, why): inside the block, `files` is only replaced by (a) a list filled by appending loop elements of the old
    `files` under a condition, or (b) a comprehension `[t for t in files if <cond>]` / filter(...) over `files`."""
    assigns = [n for n in ast.walk(blk) if isinstance(n, ast.Assign) and any(text(t) == "files" for t in n.targets)]
    if len(assigns) != 1:
        return False, f"`files` is assigned {len(assigns)} times in the block"
    v = assigns[0].value
    if isinstance(v, ast.ListComp) and len(v.generators) == 1 and text(v.generators[0].iter) == "files" \
            and text(v.elt) == text(v.generators[0].target) and v.generators[0].ifs:
        return True, ""
    if isinstance(v, ast.Call) and text(v.func) == "list" and v.args and isinstance(v.args[0], ast.Call) \
            and text(v.args[0].func) == "filter" and len(v.args[0].args) == 2 and text(v.args[0].args[1]) == "files":
        return True, ""
    if isinstance(v, ast.Name):
        newlist = v.id
        loops = [n for n in blk.body if isinstance(n, ast.For) and text(n.iter) == "files"]
        if len(loops) != 1:
            return False, "the replacement list is not built by one loop over `files`"
        tv = text(loops[0].target)
        apps = [n for n in ast.walk(blk) if isinstance(n, ast.Call) and isinstance(n.func, ast.Attribute)
                and n.func.attr in ("append", "extend", "insert") and text(n.func.value) == newlist]
        if not apps or not all(a.func.attr == "append" and len(a.args) == 1 and text(a.args[0]) == tv
                               and any(x is loops[0] for x in _anc(a)) for a in apps):
            return False, "something other than the loop's own element is appended to the replacement list"
        if not all(any(isinstance(x, ast.If) for x in _anc(a) if any(y is loops[0] for y in _anc(x)) or x is loops[0]) for a in apps):
            return False, "elements are kept unconditionally"
        init = [n for n in blk.body if isinstance(n, ast.Assign) and text(n.targets[0]) == newlist]
        if len(init) != 1 or not (isinstance(init[0].value, ast.List) and not init[0].value.elts):
            return False, "the replacement list does not start empty"
        return True, ""
    return False, f"`files` is replaced by `{text(v, 60)}`"


def _anc(n):
    from ..model import ancestors
    return list(ancestors(n))


def _gitignore_exact_paths(blk):
    """Per-file form: the command ends with the loop element's .path and the keep/drop decision reads the return code.
    Batch form: git's output is split on line ends / NUL only (never on white space) and matched against .path."""
    cmds = [n for n in ast.walk(blk) if isinstance(n, ast.List) and any(isinstance(e, ast.Constant) and e.value == "check-ignore" for e in n.elts)]
    if len(cmds) != 1:
        return False, "cannot find the git check-ignore command"
    cmd = cmds[0]
    last = cmd.elts[-1]
    loops = [a for a in _anc(cmd) if isinstance(a, ast.For) and text(a.iter) == "files"]
    if loops and not isinstance(last, ast.Starred):
        tv = text(loops[0].target)
        if text(last) != f"{tv}.path":
            return False, f"git is asked about `{text(last)}` instead of `{tv}.path`"
        if not any("returncode" in text(n) or "exit_code" in text(n) for n in ast.walk(loops[0]) if isinstance(n, ast.If)):
            return False, "the decision does not read git's exit status"
        return True, ""
    # batch form
    splits = [n for n in ast.walk(blk) if isinstance(n, ast.Call) and isinstance(n.func, ast.Attribute)
              and n.func.attr in ("split", "splitlines", "rsplit") and "stdout" in text(n.func.value)]
    if not splits:
        return False, "batch form whose output parsing is not recognised"
    for sp in splits:
        if sp.func.attr == "splitlines":
            continue
        sep = try_fold(sp.args[0], None) if False else (sp.args[0].value if sp.args and isinstance(sp.args[0], ast.Constant) else None)
        if sep not in ("\n", "\0", "\x00"):
            return False, (f"`{text(sp, 50)}` splits git's output on white space: a path containing a blank is cut into "
                           f"fragments (ignored file still checked, or another file dropped)")
    if not any(isinstance(n, ast.Compare) and ".path" in text(n) and isinstance(n.ops[0], (ast.In, ast.NotIn)) for n in ast.walk(blk)):
        return False, "git's answer is not matched against the files' paths"
    return True, ""


def _contains(container, node) -> bool:
    x = node
    while x is not None:
        if x is container:
            return True
        x = parent(x)
    return False
