"""C15 — exactly the requested C sources are checked.  DESIGN.md §4.15.

Robustness round: the rules no longer recognise the discovery loop of ``main`` by its shape.  ``__main__`` is
interpreted as a whole by the analyser's evaluator in the stub world of sa/mainmodel.py, over virtual directory trees
(nesting, names with spaces and dots, look-alike suffixes .cc / .hh / .C / .c.bak / .ch, empty directories, non-C
files) and argument lists made of files, directories and missing paths, with and without git-ignored paths.  Each
obligation compares the multiset of files that went through the pipeline (and the verdict lines, messages and exit
status) with what the property prescribes for that tree and argument list.
"""
from __future__ import annotations

import posixpath
from pathlib import PurePosixPath
from typing import List, Optional, Tuple

from ..mainmodel import Outcome, VFS, parse_human, parse_json, run_main
from ..minieval import Unsupported
from ..model import AnalysisError, Undecided
from ..xeval import Raised
from .c04 import _exit_stmt, FormatterBench  # noqa: F401  (_exit_stmt: kept for importers)

WANT = {".c", ".h"}

T1 = {
    "a.c": "int a;\n", "b.h": "@E\n", "up.C": "x", "UP.H": "x", "x.cc": "x", "y.hh": "x", "z.c.bak": "x", "w.cpp": "x", "noext": "x",
    "c": "x", "h": "x", "sp ace.c": "@N\n", "dots.v1.h": "\n", "tab.ch": "x", "k.co": "x", "l.h~": "x", "m.c ": "x",
    "src": {"m.c": "@E\n", "m.h": "\n", "k.H": "x", "k.C": "x", "n.cc": "x", "o.c.orig": "x", "p.hc": "x",
            "deep": {"d.c": "\n", "d e.h": "@N\n", "e.ch": "x", "deeper": {"q.h": "\n", "r.txt": "x", "s.cpp": "x"}},
            "emptydir": {}},
    "inc": {"i.h": "\n", "j.txt": "x", "l.hpp": "x"},
    "v1.2": {"p.c": "\n", "p.c.bak": "x"},
    "empty": {},
}


def c_files_under(vfs: VFS, top: str) -> List[str]:
    out = []
    for d, dirs, files in vfs.walk(top):
        for f in files:
            if PurePosixPath(f).suffix in WANT:
                out.append(vfs.abs(posixpath.join(d, f)))
    return out


def expected(vfs: VFS, args: List[str], use_gitignore=False):
    """(selected abs paths, rejected names, missing name) prescribed by the property."""
    sel, rejected = [], []
    if not args:
        sel = c_files_under(vfs, ".")
    for a in args:
        if not vfs.exists(a):
            return sel, rejected, a
        if vfs.abs(a) in vfs.files:
            if PurePosixPath(a).suffix in WANT:
                sel.append(vfs.abs(a))
            else:
                rejected.append(a)
        else:
            sel += c_files_under(vfs, a)
    if use_gitignore:
        sel = [p for p in sel if not vfs.is_ignored(p)]
    return sel, rejected, None


class Runs:
    def __init__(self, prog):
        self.prog = prog
        self.n = 0

    def run(self, tree, args, extra=(), ignored=()) -> Tuple[Outcome, VFS]:
        cli = ([("<positional>", list(args))] if args else []) + list(extra)
        o = run_main(self.prog, tree, cli, ignored=ignored)
        self.n += 1
        if o.unsupported:
            raise Undecided(f"__main__ is outside the evaluable subset: {o.unsupported} (command line {cli})")
        return o, VFS(tree, ignored=ignored)


def analysed(o: Outcome, vfs: VFS) -> List[str]:
    return [vfs.abs(e[1].__dict__.get("path")) for e in o.events("run")]


def compare(o: Outcome, vfs: VFS, args, use_gitignore=False) -> Optional[str]:
    """None when the run selects what the property prescribes, else a description of the difference."""
    sel, rejected, missing = expected(vfs, list(args), use_gitignore)
    if o.crash is not None:
        return f"the run crashes: {o.crash}"
    got = analysed(o, vfs)
    if missing is not None:
        return None
    extra = sorted(set(got) - set(sel))
    lost = sorted(set(sel) - set(got))
    if extra:
        return f"checked although not requested: {[posixpath.relpath(p, vfs.cwd) for p in extra]}"
    if lost:
        return f"requested but not checked: {[posixpath.relpath(p, vfs.cwd) for p in lost]}"
    if sorted(got) != sorted(sel):
        dup = sorted({p for p in got if got.count(p) != sel.count(p)})
        return f"not checked once per mention: {[(posixpath.relpath(p, vfs.cwd), got.count(p), sel.count(p)) for p in dup]}"
    # rejection messages: one per *named* file with another suffix, none for files merely met during discovery
    _, stray = parse_human(o.stdout + o.stderr)
    pending = list(rejected)
    for ln in stray:
        hit = next((r for r in pending if r in ln or posixpath.basename(r) in ln), None)
        if hit is None:
            return f"a message is printed that no named argument explains: {ln!r}"
        pending.remove(hit)
    if pending:
        return f"no message names the rejected file(s) {pending}"
    return None


def check(run, prog):
    main = prog.fn("__main__.py::main")
    runs = Runs(prog)
    ex = main.node

    def first(pairs):
        for args, why in pairs:
            if why:
                return f"arguments {list(args)}: {why}"
        return None

    # ---- R-15.1 ------------------------------------------------------------------------------------
    run.rule("R-15.1", "suffix agreement, decided on abstract runs of __main__ over a virtual tree with look-alike suffixes "
             "(.C .H .cc .hh .c.bak .ch .co .cpp .hpp .h~ no suffix): a file named on the command line, a file found under a named "
             "directory and a file found under the current directory (no argument) are checked exactly when their suffix is .c "
             "or .h, at every depth", floor=3)
    top_files = [n for n, v in T1.items() if isinstance(v, str)] + ["src/k.H", "src/deep/e.ch", "src/m.c", "src/deep/d e.h", "v1.2/p.c.bak"]
    res = []
    for f in top_files:
        o, vfs = runs.run(T1, [f])
        res.append(([f], compare(o, vfs, [f])))
    w = first(res)
    run.ob("R-15.1", f"{main.key}::suffix-filter[explicit]", w is None,
           f"explicitly named files are not accepted exactly for the suffixes {sorted(WANT)}: {w}", ex, evaluations=len(res))
    o, vfs = runs.run(T1, [])
    w = compare(o, vfs, [])
    run.ob("R-15.1", f"{main.key}::suffix-filter[glob no-argument]", w is None,
           f"without argument the run does not check exactly the .c / .h files of the current directory tree, recursively: {w}", ex)
    res = []
    for d in (["src"], ["inc"], ["src/deep"], ["v1.2"], ["src/deep/deeper"], ["."], ["src", "inc"]):
        o, vfs = runs.run(T1, d)
        res.append((d, compare(o, vfs, d)))
    w = first(res)
    run.ob("R-15.1", f"{main.key}::suffix-filter[glob directory]", w is None,
           f"a directory argument does not yield exactly the .c / .h files under it, recursively: {w}", ex, evaluations=len(res))

    # sibling agreement of the two discovery routes on entries whose name starts with a dot: what the no-argument default
    # finds under a directory is what naming that directory finds (whether hidden entries count is the tool's choice; that
    # the two routes make the same choice is not)
    TH = {"b.h": "\n", ".hid.c": "\n", ".git": {"x.c": "\n"},
          "src": {"a.c": "\n", ".old.h": "\n", ".cache": {"gen.c": "\n"}, "sub": {".swap.c": "\n", "m.c": "\n"}}}
    o0, vfs0 = runs.run(TH, [])
    base = sorted(analysed(o0, vfs0))
    w = None
    for d in (["."], ["src"], ["src/sub"]):
        o, vfs = runs.run(TH, d)
        got = sorted(analysed(o, vfs))
        top = vfs.abs(d[0]).rstrip("/") + "/"
        want = [p for p in base if d == ["."] or p.startswith(top)]
        if got != want and w is None:
            w = (f"naming {d[0]!r} checks {[posixpath.relpath(p, vfs.cwd) for p in got]}, the no-argument default finds "
                 f"{[posixpath.relpath(p, vfs.cwd) for p in want]} there")
    run.ob("R-15.1", f"{main.key}::hidden-entries-agree", w is None,
           f"the two discovery routes disagree on entries whose name starts with a dot: {w}", ex)

    # ---- R-15.5 ------------------------------------------------------------------------------------------
    run.rule("R-15.5", "the current-directory default is chosen from the arguments, not from what discovery found: runs whose "
             "arguments yield no C source (a file with another suffix, an empty directory, both) check nothing, and a run "
             "without argument checks the current directory tree", floor=1)
    res = []
    for a in (["x.cc"], ["empty"], ["x.cc", "empty"], ["noext", "src/emptydir"], ["inc/j.txt"]):
        o, vfs = runs.run(T1, a)
        res.append((a, compare(o, vfs, a)))
    o, vfs = runs.run(T1, [])
    res.append(([], compare(o, vfs, [])))
    w = first(res)
    run.ob("R-15.5", f"{main.key}::default-only-without-arguments", w is None,
           f"the whole current directory tree is used under a condition that is not `no file argument was given`: named "
           f"arguments that yield no C source would make every file of the tree be checked (or the default is lost): {w}", ex)

    # ---- R-15.2 -----------------------------------------------------------------------------------------
    run.rule("R-15.2", "argument handling on abstract runs: a missing path ends the run with a message naming it, a non-zero "
             "status and no verdict; a named file with another suffix is rejected with a message naming it, is not checked and "
             "changes nothing else; every mention is checked once (a file named twice, or named and found under a named "
             "directory, is checked twice); the File is built from the argument itself; directories contribute their whole "
             "subtree and nothing else", floor=4)
    bad = None
    for a in (["nope.c"], ["a.c", "nope"], ["nope", "a.c"], ["src", "missing/dir", "b.h"], ["src/nope.h"]):
        o, vfs = runs.run(T1, a)
        miss = expected(vfs, a)[2]
        files, _ = parse_human(o.stdout)
        if o.crash is not None:
            bad = bad or f"arguments {a}: the run crashes ({o.crash})"
        elif o.status == 0:
            bad = bad or f"arguments {a}: exit status 0"
        elif miss not in (o.stdout + o.stderr):
            bad = bad or f"arguments {a}: no message names {miss!r}"
        elif any(s == "OK" for _, s, _ in files):
            bad = bad or f"arguments {a}: verdicts are printed although the run aborts"
    # ... whatever the options: with --use-gitignore too, also when the missing name matches an ignore pattern (git answers
    # from the name alone) or lies under an ignored directory
    for a, ign in ((["nope.c"], ["nope.c"]), (["a.c", "gen_missing.c"], ["gen_missing.c"]), (["build/x.c"], ["build"]), (["nope.c"], [])):
        o, vfs = runs.run(T1, a, extra=[("--use-gitignore", [])], ignored=ign)
        miss = expected(vfs, a)[2]
        if o.crash is not None:
            bad = bad or f"arguments {a} with --use-gitignore (ignored {ign}): the run crashes ({o.crash})"
        elif o.status == 0:
            bad = bad or f"arguments {a} with --use-gitignore (ignored {ign}): exit status 0"
        elif miss not in (o.stdout + o.stderr):
            bad = bad or f"arguments {a} with --use-gitignore (ignored {ign}): no message names {miss!r}"
    run.ob("R-15.2", f"{main.key}::missing-path-exit", bad is None,
           f"a nonexistent path does not end the run with a message and a non-zero status on every path: {bad}", ex)
    bad = None
    for a in (["x.cc"], ["a.c", "z.c.bak", "b.h"], ["up.C", "src"], ["noext"], ["tab.ch", "a.c"], ["a.c", "w.cpp"]):
        o, vfs = runs.run(T1, a)
        sel, rejected, _ = expected(vfs, a)
        w = compare(o, vfs, a)
        if w:
            bad = bad or f"arguments {a}: {w}"
        for r in rejected:
            if r not in (o.stdout + o.stderr):
                bad = bad or f"arguments {a}: no message names the rejected file {r!r}"
        want_fail = any("@E" in vfs.files[p] for p in sel)
        if o.crash is None and (o.status != 0) != want_fail:
            bad = bad or f"arguments {a}: exit status {o.status}"
    run.ob("R-15.2", f"{main.key}::wrong-suffix-not-checked", bad is None,
           f"a named file with another suffix is not rejected with a message, or is still appended to the files to check: {bad}", ex)
    res = []
    for a in (["a.c", "a.c"], ["src", "src/m.c"], ["src/m.c", "src"], ["b.h", "a.c", "b.h", "b.h"], ["src", "src"], ["src/deep", "src"]):
        o, vfs = runs.run(T1, a)
        res.append((a, compare(o, vfs, a)))
    w = first(res)
    run.ob("R-15.2", f"{main.key}::append-once-per-item", w is None,
           f"the accepted branch does not append exactly one File per work-list item to the list of files to check: {w}", ex)
    bad = None
    for a in (["a.c"], ["./a.c"], ["src/../a.c"], ["src/deep/d e.h"], ["/w/src/m.h"], ["sp ace.c", "dots.v1.h"]):
        o, vfs = runs.run(T1, a)
        built = [e[2][0] if e[2] else e[3].get("path") for e in o.events("File")]
        if [str(b) for b in built] != a or any(e[2][1:] or [k for k in e[3] if k != "path"] for e in o.events("File")):
            bad = bad or f"arguments {a}: File objects built from {built}"
        w = compare(o, vfs, a)
        if w:
            bad = bad or f"arguments {a}: {w}"
    run.ob("R-15.2", f"{main.key}::file-from-item", bad is None,
           f"the File is not built from the work-list item itself (path changed on the way): {bad}", ex)
    res = []
    for a in (["src"], ["empty"], ["src/emptydir", "inc"], ["src/deep/deeper", "a.c"], ["v1.2", "empty", "src/deep"]):
        o, vfs = runs.run(T1, a)
        res.append((a, compare(o, vfs, a)))
    o, vfs = runs.run({"only": {"sub": {"x.c": "\n"}}, "t.c": "\n"}, ["only"])
    res.append((["only"], compare(o, vfs, ["only"])))
    # a directory argument whose own name looks like a source file is still a directory
    t3 = {"libft.c": {"x.c": "\n", "sub": {"y.h": "@E\n", "z.txt": "x"}}, "inc.h": {"k.h": "\n"}, "a.c": "\n", "lib.cc": {"w.c": "\n"}}
    for a in (["libft.c"], ["libft.c", "a.c"], ["inc.h", "libft.c/sub"], ["lib.cc"], ["a.c", "inc.h"]):
        o, vfs = runs.run(t3, a)
        res.append((a, compare(o, vfs, a)))
    w = first(res)
    run.ob("R-15.2", f"{main.key}::directory-extends-worklist", w is None,
           f"a directory argument does something other than extending the work list with its recursive matches: {w}", ex)

    # ---- R-15.3 --------------------------------------------------------------------------------------
    run.rule("R-15.3", "base name: File(path) interpreted for plain, nested, dotted, absolute and blank-containing paths keeps "
             "the path and derives basename = os.path.basename(path); on abstract runs the human report names every file by "
             "that base name and the JSON report by the absolute path", floor=2)
    fi = prog.method("File", "__init__")
    run.require(fi is not None, "anchor vanished: File.__init__")
    bad = None
    try:
        for p in ("a.c", "src/m.h", "./x/y.z.c", "/abs/p.h", "sp ace.c", "noext", "dir.d/in ner.c", "Src/MixedCase.C", "UP.H", "a.c/"):
            b = FormatterBench(prog)
            try:
                f = b.ev.construct("File", [p], {})
                got = (b.ev.getattr(f, "path"), b.ev.getattr(f, "basename"))
            except Raised as r:
                got = ("exception", repr(r.value))
            if got != (p, posixpath.basename(p)):
                bad = bad or f"File({p!r}) has (path, basename) = {got}"
    except Unsupported as e:
        raise Undecided(f"File.__init__ is outside the evaluable subset: {e}")
    run.ob("R-15.3", f"{fi.key}::basename", bad is None,
           f"File.basename is not os.path.basename(path) / File.path is not the given path: {bad}", fi.node)
    bad = None
    for a in (["src/m.c", "a.c"], ["src/deep"], ["sp ace.c", "src/deep/d e.h"]):
        o, vfs = runs.run(T1, a)
        got = analysed(o, vfs)
        hf, _ = parse_human(o.stdout)
        if sorted(n for n, _, _ in hf) != sorted(posixpath.basename(p) for p in got):
            bad = bad or f"arguments {a}: verdict lines name {[n for n, _, _ in hf]}"
        o, vfs = runs.run(T1, a, extra=[("-f", ["json"])])
        jf, _, _ = parse_json(o.stdout)
        if sorted(str(n) for n, _, _ in jf) != sorted(analysed(o, vfs)):
            bad = bad or f"arguments {a} -f json: paths {[n for n, _, _ in jf]}"
    hm = prog.method("HumanizedErrorsFormatter", "__str__")
    run.ob("R-15.3", "errors.py::formatters::file-naming", bad is None,
           f"verdict lines are not named after file.basename (human) / the absolute file.path (JSON): {bad}", hm.node if hm else None)

    # ---- R-15.4 ----------------------------------------------------------------------------------------
    run.rule("R-15.4", "--use-gitignore only removes: on abstract runs where `git check-ignore` is answered from a set of "
             "ignored paths (single files, a whole directory, paths containing blanks, everything, nothing) the files checked "
             "are exactly the selected files that git does not ignore; without the option ignored files are still checked", floor=1)
    cases = [
        ([], ["src/deep", "inc/i.h"]), (["src", "a.c", "b.h"], ["b.h", "src/m.c"]), (["src"], []), (["a.c", "b.h"], ["a.c", "b.h"]),
        (["src", "a.c"], ["src"]), (["a.c", "a.c", "b.h"], ["b.h"]), (["inc", "a.c"], ["a.c"]),
        # a file re-included by a negated pattern (`*.c` then `!a.c`) is not ignored
        (["a.c", "b.h"], ["!a.c"]), (["src"], ["src/deep", "!src/m.c"]), ([], ["!b.h", "a.c"]),
    ]
    blank_cases = [
        (["sp ace.c", "a.c", "b.h"], ["sp ace.c"]), (["src/deep"], ["src/deep/d e.h"]), (["sp ace.c", "ace.c.h", "sp"], ["sp ace.c"]),
        ([], ["sp ace.c", "src/deep/d e.h"]),
    ]
    tree2 = dict(T1, **{"ace.c.h": "\n", "sp": {"t.c": "\n"}})
    bad = bad_blank = None
    for args, ign in cases:
        o, vfs = runs.run(T1, args, extra=[("--use-gitignore", [])], ignored=ign)
        w = compare(o, vfs, args, use_gitignore=True)
        if w:
            bad = bad or f"arguments {args}, ignored {ign}: {w}"
        sel = [p for p in expected(vfs, args, True)[0]]
        if o.crash is None and analysed(o, vfs) != sel and sorted(analysed(o, vfs)) == sorted(sel) and args and all(vfs.abs(a) in vfs.files for a in args):
            bad = bad or f"arguments {args}, ignored {ign}: the order of the remaining files changes"
        o, vfs = runs.run(T1, args, ignored=ign)
        w = compare(o, vfs, args, use_gitignore=False)
        if w:
            bad = bad or f"arguments {args}, ignored {ign}, without --use-gitignore: {w}"
    for args, ign in blank_cases:
        o, vfs = runs.run(tree2, args, extra=[("--use-gitignore", [])], ignored=ign)
        w = compare(o, vfs, args, use_gitignore=True)
        if w:
            bad_blank = bad_blank or f"arguments {args}, ignored {ign}: {w}"
    run.ob("R-15.4", f"{main.key}::gitignore-subset", bad is None,
           f"with --use-gitignore the list of files is not a filtered copy of the selected files: {bad}", ex)
    run.ob("R-15.4", f"{main.key}::gitignore-exact-paths", bad_blank is None,
           f"the answer of git check-ignore is not matched to the files exactly (paths containing blanks): {bad_blank}", ex,
           evaluations=runs.n)
    from .c15_argv import rule_argv_complete
    rule_argv_complete(run, prog)            # R-15.6
