"""C04 — exit status and per-file verdict agree with the diagnostics.  DESIGN.md §4.4."""
from __future__ import annotations

import ast
import builtins
import itertools

from ..cfg import cfg_of
from ..dataflow import definitely_assigned, names_loaded, target_names
from ..fold import try_fold
from ..minieval import Evaluator, Obj, Unsupported
from ..model import AnalysisError, ancestors, parent, text, walk_fn

LEVELS = ("Error", "Notice")


def _is_sys_exit(call) -> bool:
    return isinstance(call, ast.Call) and text(call.func) in ("sys.exit", "exit", "quit", "os._exit", "SystemExit")


def _exit_stmt(st):
    if isinstance(st, ast.Expr) and _is_sys_exit(st.value):
        return st.value
    if isinstance(st, ast.Raise) and isinstance(st.exc, ast.Call) and _is_sys_exit(st.exc):
        return st.exc
    return None


def status_methods(prog):
    methods = {}
    for cname in ("Errors", "Error", "Highlight"):
        c = prog.cls(cname)
        for mname, m in c.methods.items():
            methods[(cname, mname)] = m.node
    return methods


class ErrorsModel:
    """The repository's Errors / Error / Highlight classes interpreted by the analyser's evaluator."""

    def __init__(self, prog):
        from ..facts import catalogue
        self.prog = prog
        self.methods = status_methods(prog)
        self.classes = {n: prog.cls(n).node for n in ("Errors", "Error", "Highlight")}
        self.globals = {"errors_dict": catalogue(prog)}

    def evaluator(self, **kw) -> Evaluator:
        ev = Evaluator(self.methods, **kw)
        ev.classes = self.classes

        def insort(seq, item, *a, **k):
            # bisect.insort_right through the repository's own __lt__
            i = len(seq)
            lo, hi = 0, len(seq)
            while lo < hi:
                mid = (lo + hi) // 2
                if (ev.obj_lt(item, seq[mid]) if isinstance(item, Obj) else item < seq[mid]):
                    hi = mid
                else:
                    lo = mid + 1
            seq.insert(lo, item)

        ev.globals = dict(self.globals, insort=insort, insort_right=insort)
        ev.modules = dict(ev.modules, bisect={"insort": insort, "insort_right": insort})
        return ev

    ADD_FORMS = [("inst", "Error"), ("inst", "Notice"), ("name", "Error"), ("name", "Notice"), ("name-default", "Error"),
                 ("append-inst", "Error"), ("append-inst", "Notice"), ("text", "Error"), ("text", "Notice")]

    def new_errors(self, ev):
        return ev.instantiate("Errors", [], {})

    def add(self, ev, errors, form, level):
        hl = ev.instantiate("Highlight", [1, 1], {})
        m_add = self.methods[("Errors", "add")]
        if form in ("inst", "append-inst"):
            err = ev.invoke(self.methods[("Error", "from_name")], [__import__("sa.minieval", fromlist=["ClassRef"]).ClassRef("Error"),
                                                                   "TOO_MANY_LINES"], {"level": level, "highlights": [hl]})
            meth = m_add if form == "inst" else self.methods.get(("Errors", "append"), m_add)
            ev.invoke(meth, [errors, err], {})
        elif form == "name":
            ev.invoke(m_add, [errors, "TOO_MANY_LINES"], {"level": level, "highlights": [hl]})
        elif form == "name-default":
            ev.invoke(m_add, [errors, "TOO_MANY_LINES"], {"highlights": [hl]})
        elif form == "text":
            ev.invoke(m_add, [errors, "CUSTOM", "custom text"], {"level": level, "highlights": [hl]})

    def stored_levels(self, errors):
        inner = errors.__dict__.get("_inner")
        if not isinstance(inner, list):
            raise Unsupported("Errors no longer keeps its diagnostics in _inner")
        return [e.level for e in inner]

    def status(self, ev, errors):
        return ev.expr(ast.parse("errors.status", mode="eval").body, {"errors": errors})


def mk_file(model, ev, levels, form="inst"):
    errors = model.new_errors(ev)
    for l in levels:
        model.add(ev, errors, form, l)
    return Obj("File", errors=errors)


FILE_KINDS = ([], ["Notice"], ["Error"], ["Notice", "Error"], ["Notice", "Notice"], ["Error", "Error"])


def check(run, prog):
    main = prog.fn("__main__.py::main")
    g = cfg_of(main)
    methods = status_methods(prog)

    # ---- R-4.1 single source of verdict ---------------------------------------
    run.rule("R-4.1", "class Errors interpreted by the analyser over every sequence of <= 3 add() calls in each "
             "calling form (instance / by name / by name with default level / deprecated append / name+text): status is "
             "'Error' exactly when a stored diagnostic has level 'Error'; every formatter takes its verdict from .errors.status, "
             "once per file, unconditionally", floor=3)
    st = prog.method("Errors", "status")
    run.require(st is not None, "anchor vanished: Errors.status")
    model = ErrorsModel(prog)
    bad = None
    n_eval = 0
    try:
        for k in range(0, 4):
            for forms in itertools.product(ErrorsModel.ADD_FORMS, repeat=k):
                ev = model.evaluator(max_steps=100000)
                errors = model.new_errors(ev)
                for form, level in forms:
                    model.add(ev, errors, form, level)
                levels = model.stored_levels(errors)
                res = model.status(ev, errors)
                n_eval += 1
                want = "Error" if "Error" in levels else "OK"
                if (res != want or len(levels) != k) and bad is None:
                    bad = ([f"{f}:{l}" for f, l in forms], levels, res, want)
    except Unsupported as e:
        raise AnalysisError(f"class Errors is outside the evaluable subset: {e}")
    run.ob("R-4.1", f"{st.key}::predicate", bad is None,
           (f"Errors.status is not 'some stored diagnostic has level Error': after add calls {bad[0]} the stored levels are "
            f"{bad[1]} but status is {bad[2]!r} (expected {bad[3]!r})") if bad else "status predicate", st.node, evaluations=n_eval)
    fmts = prog.subclasses("_formatter")
    run.require(len(fmts) >= 2, "fewer than two formatter classes")
    for c in fmts:
        m = c.methods.get("__str__")
        run.require(m is not None, f"{c.key} has no __str__")
        loops = [n for n in m.node.body if isinstance(n, ast.For) and text(n.iter) == "self.files"]
        reads = [n for n in walk_fn(m.node) if isinstance(n, ast.Attribute) and n.attr == "status"]
        ok = len(loops) == 1 and len(reads) >= 1
        detail = ""
        for r in reads:
            if not text(r.value).endswith(".errors"):
                ok, detail = False, f"status read from {text(r.value)}"
            # must sit directly in the per-file loop: no inner loop / condition around it
            depth = []
            cur = r
            for a in ancestors(r):
                if isinstance(a, (ast.For, ast.While, ast.If, ast.IfExp, ast.comprehension, ast.GeneratorExp, ast.ListComp)):
                    if isinstance(a, ast.If) and cur is a.test:
                        pass
                    depth.append(a)
                if a is m.node:
                    break
                cur = a
            if not (len(depth) == 1 and loops and depth[0] is loops[0]):
                ok, detail = False, "verdict is conditional or nested (not exactly once per file)"
        lits = [n for n in walk_fn(m.node) if isinstance(n, ast.Constant) and isinstance(n.value, str)
                and ("OK" in n.value or "Error!" in n.value or "KO" in n.value)]
        if lits:
            ok, detail = False, f"verdict literal {lits[0].value!r} in formatter"
        run.ob("R-4.1", f"{m.key}::verdict-source", ok,
               f"formatter verdict not taken from file.errors.status once per file ({detail})", m.node,
               loops=len(loops), status_reads=len(reads))

    # ---- R-4.2 exit status derivation ------------------------------------------------
    run.rule("R-4.2", "the argument of main's final sys.exit: (a) all names definitely assigned, (b) no loop variable read "
             "after its loop, (c-e) evaluates to non-zero exactly when some analysed file has an Error-level diagnostic "
             "(analyser's interpreter over all file lists up to length 3 of 6 file kinds; helpers inlined)", floor=3)
    finals = [(_exit_stmt(s), s) for s in main.node.body if _exit_stmt(s) is not None]
    run.require(finals, "anchor vanished: no top-level sys.exit(...) statement in main")
    exit_call, exit_stmt = finals[-1]
    run.require(main.node.body[-1] is exit_stmt, "the final statement of main is not the sys.exit call")
    E = exit_call.args[0] if exit_call.args else ast.Constant(None)
    free = names_loaded(E) - set(dir(builtins)) - set(main.mod.imports) - set(main.mod.functions) - set(main.mod.classes) \
        - set(main.mod.assigns)
    DA = definitely_assigned(g, main.params)
    nid = g.nid(exit_stmt)
    run.require(nid is not None, "exit statement not in CFG")
    unbound = sorted(n for n in free if n not in DA[nid])
    run.ob("R-4.2", f"{main.key}::exit-arg[unbound]", not unbound,
           f"name(s) {unbound} may be unbound when the exit status is computed (e.g. empty file selection)",
           exit_stmt, free_names=sorted(free))
    loopvars = {}
    for n in walk_fn(main.node):
        if isinstance(n, ast.For):
            for nm in target_names(n.target):
                loopvars.setdefault(nm, []).append(n)
    stale = sorted(nm for nm in free if nm in loopvars
                   and not any(a in loopvars[nm] for a in ancestors(exit_stmt)))
    run.ob("R-4.2", f"{main.key}::exit-arg[loopvar]", not stale,
           f"exit status reads loop variable(s) {stale} after the loop: only the last element decides", exit_stmt)
    # the files collection: the Name passed to the formatter
    fmt_calls = [n for n in walk_fn(main.node) if isinstance(n, ast.Call) and isinstance(n.func, ast.Name)
                 and n.func.id == "format"]
    run.require(len(fmt_calls) == 1 and fmt_calls[0].args and isinstance(fmt_calls[0].args[0], ast.Name),
                "anchor vanished: format(<files>, ...) call in main")
    files_name = fmt_calls[0].args[0].id
    helpers = {n: f.node for n, f in main.mod.functions.items() if n != "main"}

    def lookup(name):
        # a local bound by exactly one plain assignment whose statement dominates the exit
        cands = [n for n in walk_fn(main.node) if isinstance(n, ast.Assign) and len(n.targets) == 1
                 and isinstance(n.targets[0], ast.Name) and n.targets[0].id == name]
        if len(cands) == 1 and g.nid(cands[0]) is not None and g.dominates(g.nid(cands[0]), nid):
            return cands[0].value
        return None

    witness = None
    n_eval = 0
    unsupported = None
    fail_values = set()
    if not unbound and not stale:
        for k in range(0, 4):
            for kinds in itertools.product(range(len(FILE_KINDS)), repeat=k):
                ev = model.evaluator(functions=helpers, lookup=lambda nm: None if nm == files_name else lookup(nm),
                                     max_steps=200000)
                try:
                    files = [mk_file(model, ev, FILE_KINDS[i], "inst" if (j % 2 == 0) else "name") for j, i in enumerate(kinds)]
                except Unsupported as e:
                    raise AnalysisError(f"class Errors is outside the evaluable subset: {e}")
                try:
                    res = ev.expr(E, {files_name: files})
                except (Unsupported, TypeError, AttributeError, KeyError, IndexError) as e:
                    unsupported = f"{type(e).__name__}: {e}"
                    break
                n_eval += 1
                want_fail = any("Error" in FILE_KINDS[i] for i in kinds)
                got_fail = bool(res) if not isinstance(res, str) else True
                if got_fail != want_fail and witness is None:
                    witness = ([FILE_KINDS[i] for i in kinds], res)
                if want_fail and got_fail:
                    fail_values.add(res if isinstance(res, (int, bool, str)) else repr(res))
            if unsupported:
                break
        if unsupported:
            run.ob("R-4.2", f"{main.key}::exit-arg[value]", False,
                   f"exit expression is not a function of the analysed files' diagnostics that the analyser can evaluate "
                   f"({unsupported}); expected a quantification over `{files_name}` of .errors.status", exit_stmt)
        else:
            numeric = {int(v) for v in fail_values if isinstance(v, (int, bool))}
            run.ob("R-4.2", f"{main.key}::exit-arg[bounded]", len(numeric) <= 1 and all(0 < v < 256 for v in numeric),
                   f"the exit status takes the values {sorted(numeric)} for 1..3 failing files: it grows with the number of "
                   f"failing files, and the operating system keeps only its low 8 bits (256 failing files exit with 0)",
                   exit_stmt, values=sorted(numeric))
            run.ob("R-4.2", f"{main.key}::exit-arg[value]", witness is None,
                   (f"exit status disagrees with the verdicts: files with diagnostic levels {witness[0]} "
                    f"exit with {witness[1]!r}") if witness else "exit value", exit_stmt, evaluations=n_eval)
    # the list analysed is the list reported
    per_file = [n for n in main.node.body if isinstance(n, ast.For) and any(
        isinstance(c, ast.Call) and text(c.func).endswith("registry.run") for c in ast.walk(n))]
    run.require(len(per_file) == 1, "anchor vanished: the per-file analysis loop of main")
    loop = per_file[0]
    same = isinstance(loop.iter, ast.Name) and loop.iter.id == files_name
    rebinds = []
    after = False
    for s in main.node.body:
        if s is loop:
            after = True
            continue
        if after:
            for n in ast.walk(s):
                if isinstance(n, (ast.Assign, ast.AugAssign)):
                    ts = n.targets if isinstance(n, ast.Assign) else [n.target]
                    if any(files_name in target_names(t) for t in ts):
                        rebinds.append(n)
                if isinstance(n, ast.Call) and isinstance(n.func, ast.Attribute) and text(n.func.value) == files_name \
                        and n.func.attr in ("remove", "pop", "clear", "append", "extend", "insert", "sort", "reverse"):
                    rebinds.append(n)
    run.ob("R-4.2", f"{main.key}::same-files", same and not rebinds,
           f"the list analysed ({text(loop.iter)}) is not the list reported ({files_name}) or it is changed in between",
           loop, rebinds=[text(r) for r in rebinds])

    # ---- R-4.3 fatal path --------------------------------------------------------------
    run.rule("R-4.3", "MPT: the per-file try has a handler for CParsingError; from its entry every path prints the "
             "loop's file and then reaches sys.exit(<non-zero constant>); none leaves the handler normally", floor=2)
    trys = [n for n in ast.walk(loop) if isinstance(n, ast.Try)]
    run.require(len(trys) == 1, "anchor vanished: the try statement of the per-file loop")
    tr = trys[0]
    filevar = target_names(loop.target)
    bases = {"CParsingError"}
    todo = ["CParsingError"]
    while todo:
        c = todo.pop()
        if c in prog.classes:
            for b in prog.classes[c].bases:
                if b not in bases:
                    bases.add(b)
                    todo.append(b)
    bases |= {"Exception", "BaseException"}
    covering = []
    for h in tr.handlers:
        names = []
        if h.type is None:
            names = ["BaseException"]
        elif isinstance(h.type, ast.Tuple):
            names = [text(e).split(".")[-1] for e in h.type.elts]
        else:
            names = [text(h.type).split(".")[-1]]
        if any(nm in bases for nm in names):
            covering.append(h)
    run.ob("R-4.3", f"{main.key}::handler[CParsingError]", bool(covering),
           "no except clause of the per-file try covers CParsingError: a fatal parse error ends in a traceback", tr)
    for h in covering[:1]:
        hid = g.nid(h)
        inside = {g.nid(s) for s in ast.walk(h) if g.nid(s) is not None}
        exits, bad_exits, prints = set(), [], set()
        for s in ast.walk(h):
            c = _exit_stmt(s) if isinstance(s, ast.stmt) else None
            if c is not None:
                v = try_fold(c.args[0], main.mod, default=None) if c.args else None
                if isinstance(v, int) and not isinstance(v, bool) and v != 0:
                    exits.add(g.nid(s))
                else:
                    bad_exits.append(s)
            if isinstance(s, ast.Expr) and isinstance(s.value, ast.Call) and text(s.value.func) == "print":
                if any(isinstance(n, ast.Name) and n.id in filevar for n in ast.walk(s.value)):
                    prints.add(g.nid(s))
        escapes = sorted(g.reachable(hid, avoid=exits) - inside - {hid})
        escapes = [e for e in escapes if g.nodes[e].kind != "rexit"]
        ok_exit = bool(exits) and not bad_exits and not escapes
        run.ob("R-4.3", f"{main.key}::handler-exit", ok_exit,
               "a path leaves the fatal-error handler without sys.exit(<non-zero constant>)"
               + (f" (exit with {text(bad_exits[0])})" if bad_exits else ""), h,
               escapes=[repr(g.nodes[e]) for e in escapes[:4]])
        named = bool(prints) and all(not g.can_reach(hid, e, avoid=prints) for e in exits)
        run.ob("R-4.3", f"{main.key}::handler-names-file", named,
               "the fatal-error handler can exit without printing the file it was analysing", h)

    # ---- R-4.5 empty selection ------------------------------------------------------------
    run.rule("R-4.5", "no element of the files list is addressed by position after the selection phase "
             "(files[-1], files[0]): an empty selection must reach the formatter and the exit", floor=1)
    subs = [n for n in walk_fn(main.node) if isinstance(n, ast.Subscript) and isinstance(n.value, ast.Name)
            and n.value.id == files_name and not isinstance(n.slice, ast.Slice)]

    def guarded_nonempty(n) -> bool:
        """under `if files ...:` / `if len(files) ...` (true branch) or an earlier `files and` operand"""
        from ..facts import conjuncts
        cur = n
        for a in ancestors(n):
            if isinstance(a, ast.BoolOp) and isinstance(a.op, ast.And):
                idx = next((i for i, v in enumerate(a.values) if any(x is cur for x in ast.walk(v))), None)
                if idx is not None and any(text(v) in (files_name, f"len({files_name})", f"len({files_name}) > 0") for v in a.values[:idx]):
                    return True
            if isinstance(a, ast.If) and any(any(x is n for x in ast.walk(s_)) for s_ in a.body):
                if any(text(c) in (files_name, f"len({files_name})", f"len({files_name}) > 0", f"{files_name} != []")
                       for c in conjuncts(a.test)):
                    return True
            if isinstance(a, ast.For) and text(a.iter) == files_name:
                return True
            cur = a
        return False

    subs = [n for n in subs if not guarded_nonempty(n)]
    run.ob("R-4.5", f"{main.key}::no-positional-files", not subs,
           f"{files_name}[...] is addressed by position: crashes on an empty selection", subs[0] if subs else main.node)
