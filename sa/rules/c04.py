"""C04 — exit status and per-file verdict agree with the diagnostics.  DESIGN.md §4.4.

How the rules are decided (robustness round): nothing here looks at the *shape* of ``main`` or of the formatters any
more.  ``Errors`` is interpreted over every short sequence of ``add`` calls (R-4.1), each formatter is interpreted on
stub files whose status is a unique sentinel (R-4.1), and ``__main__`` as a whole is interpreted by the analyser's own
evaluator (sa/xeval.py) in the stub world of sa/mainmodel.py for finite families of command lines over a virtual file
system whose file contents ask for diagnostics / fatal errors (R-4.2, R-4.3, R-4.5).  The obligations are statements
about the outcome of those abstract runs: exit status, verdict lines, which files went through the pipeline.
"""
from __future__ import annotations

import ast
import itertools
import posixpath
from typing import Dict, List, Tuple

from ..mainmodel import Outcome, World, parse_human, parse_json, plan_of, run_main
from ..minieval import ClassRef, Obj, Unsupported
from ..model import AnalysisError, Undecided, text
from ..xeval import Raised, XEvaluator, Module

LEVELS = ("Error", "Notice")


def _is_sys_exit(call) -> bool:
    return isinstance(call, ast.Call) and text(call.func) in ("sys.exit", "exit", "quit", "os._exit", "SystemExit")


def _exit_stmt(st):
    """kept for c15.py (older versions imported it)"""
    if isinstance(st, ast.Expr) and _is_sys_exit(st.value):
        return st.value
    if isinstance(st, ast.Raise) and isinstance(st.exc, ast.Call) and _is_sys_exit(st.exc):
        return st.exc
    return None


# ------------------------------------------------------------------------------------------------ class Errors
class ErrorsModel:
    """The repository's Errors / Error / Highlight classes interpreted by the analyser's evaluator (free names of
    errors.py are resolved through that module's own imports and constants)."""

    ADD_FORMS = [("inst", "Error"), ("inst", "Notice"), ("name", "Error"), ("name", "Notice"), ("name-default", "Error"),
                 ("append-inst", "Error"), ("append-inst", "Notice"), ("text", "Error"), ("text", "Notice")]

    def __init__(self, prog):
        self.prog = prog
        for c in ("Errors", "Error", "Highlight"):
            prog.cls(c)
        self.mod = prog.cls("Errors").mod

    def evaluator(self, max_steps=200000) -> XEvaluator:
        ev = XEvaluator(self.prog, interpreted_classes=("Errors", "Error", "Highlight"), main_mod=self.mod, max_steps=max_steps)
        w = World.__new__(World)          # only its bisect stand-in is needed
        w.ev = ev
        ev.world_modules["bisect"] = Module("bisect", {"insort": w._insort, "insort_right": w._insort,
                                                       "insort_left": lambda s, x, **k: w._insort(s, x, left=True)}, lenient=False)
        import operator as _op
        ev.world_modules["operator"] = Module("operator", {
            "attrgetter": lambda *names: (lambda o: ev.getattr(o, names[0]) if len(names) == 1 else tuple(ev.getattr(o, n) for n in names)),
            "itemgetter": _op.itemgetter, "methodcaller": lambda n, *a, **k: (lambda o: ev.call_method(o, n, list(a), k))}, lenient=False)
        return ev

    def new_errors(self, ev):
        return ev.instantiate("Errors", [], {})

    def add(self, ev, errors, form, level, pos=(1, 1), code="TOO_MANY_LINES"):
        hl = ev.instantiate("Highlight", list(pos), {})
        if form in ("inst", "append-inst"):
            err = ev.call_value(ev.getattr(ClassRef("Error"), "from_name"), [code], {"level": level, "highlights": [hl]})
            ev.call_method(errors, "add" if form == "inst" or self.prog.method("Errors", "append") is None else "append", [err], {})
        elif form == "name":
            ev.call_method(errors, "add", [code], {"level": level, "highlights": [hl]})
        elif form == "name-default":
            ev.call_method(errors, "add", [code], {"highlights": [hl]})
        elif form == "text":
            ev.call_method(errors, "add", ["CUSTOM", "custom text"], {"level": level, "highlights": [hl]})

    def stored_levels(self, ev, errors):
        inner = errors.__dict__.get("_inner")
        if isinstance(inner, list):
            return [e.level for e in inner]
        # the container was renamed / restructured: ask the object itself
        return [ev.getattr(e, "level") for e in ev.iterate(errors)]

    def status(self, ev, errors):
        return ev.getattr(errors, "status")


def rule_status(run, prog):
    run.rule("R-4.1", "class Errors interpreted by the analyser over every sequence of <= 3 add() calls in each "
             "calling form (instance / by name / by name with default level / deprecated append / name+text): status is "
             "'Error' exactly when a stored diagnostic has level 'Error'; every formatter, interpreted on stub files whose "
             "status is a unique sentinel, prints each file's status exactly once, in file order, whatever the number of "
             "diagnostics; end to end every analysed file gets one verdict line that is OK iff it has no Error-level diagnostic",
             floor=3)
    st = prog.method("Errors", "status")
    run.require(st is not None, "anchor vanished: Errors.status")
    model = ErrorsModel(prog)
    bad = None
    n_eval = 0
    try:
        for k in range(0, 4):
            for forms in itertools.product(ErrorsModel.ADD_FORMS, repeat=k):
                ev = model.evaluator()
                try:
                    errors = model.new_errors(ev)
                    for form, level in forms:
                        model.add(ev, errors, form, level)
                    levels = model.stored_levels(ev, errors)
                    res = model.status(ev, errors)
                except Raised as r:
                    levels, res = [], f"exception {r.value!r}"
                n_eval += 1
                want = "Error" if any(l == "Error" for f, l in forms) else "OK"
                if (res != want or len(levels) != k) and bad is None:
                    bad = ([f"{f}:{l}" for f, l in forms], levels, res, want)
    except Unsupported as e:
        raise Undecided(f"class Errors is outside the evaluable subset: {e}")
    run.ob("R-4.1", f"{st.key}::predicate", bad is None,
           (f"Errors.status is not 'some stored diagnostic has level Error': after add calls {bad[0]} the stored levels are "
            f"{bad[1]} but status is {bad[2]!r} (expected {bad[3]!r})") if bad else "status predicate", st.node, evaluations=n_eval)
    fmts = prog.subclasses("_formatter")
    run.require(len(fmts) >= 2, "fewer than two formatter classes")
    for c in fmts:
        m = c.methods.get("__str__") or prog.method(c.name, "__str__")
        run.require(m is not None, f"{c.key} has no __str__")
        ok, detail, n = formatter_verdict_source(prog, c.name)
        run.ob("R-4.1", f"{m.key}::verdict-source", ok,
               f"formatter verdict not taken from file.errors.status once per file ({detail})", m.node, evaluations=n)


class FormatterBench:
    """Interprets one formatter class on stub File objects."""

    def __init__(self, prog):
        self.prog = prog
        self.world = World(prog)
        self.ev = self.world.ev
        self.ev.max_steps = 400000

    def error(self, name="TOO_MANY_LINES", text_=None, level="Error", positions=((1, 1),), hints=()):
        ev = self.ev
        hls = [ev.instantiate("Highlight", list(p), {"hint": hints[i]} if i < len(hints) and hints[i] else {})
               for i, p in enumerate(positions)]
        if text_ is None:
            return ev.call_value(ev.getattr(ClassRef("Error"), "from_name"), [name], {"level": level, "highlights": hls})
        return ev.instantiate("Error", [name, text_], {"level": level, "highlights": hls})

    def stub_file(self, path, status, diags):
        errors = Obj("Errors", status=status, _seq=list(diags))
        return Obj("File", path=path, basename=posixpath.basename(path), name=posixpath.splitext(posixpath.basename(path))[0],
                   type=posixpath.splitext(path)[1], errors=errors)

    def real_file(self, path, diags, source=""):
        ev = self.ev
        f = ev.construct("File", [path, source], {})
        for d in diags:
            ev.call_method(ev.getattr(f, "errors"), "add", [d], {})
        return f

    def render(self, cname, files, **options) -> str:
        ev = self.ev
        fm = ev.instantiate(cname, [files], options)
        return ev.py_str(fm)


def formatter_verdict_source(prog, cname) -> Tuple[bool, str, int]:
    n = 0
    try:
        for nfiles in range(0, 4):
            for counts in itertools.product((0, 1, 2), repeat=nfiles):
                for colors in (True, False):
                    b = FormatterBench(prog)
                    files = []
                    for i, k in enumerate(counts):
                        diags = [b.error(level=("Error", "Notice")[j % 2], positions=((j + 1, 1),)) for j in range(k)]
                        files.append(b.stub_file(f"dir/file{i}.c", f"#STATUS{i}#", diags))
                    try:
                        out = b.render(cname, files, use_colors=colors)
                    except Raised as r:
                        return False, f"the formatter raises {r.value!r} on files with {list(counts)} diagnostics", n
                    n += 1
                    pos = []
                    for i in range(nfiles):
                        c = out.count(f"#STATUS{i}#")
                        if c != 1:
                            return False, (f"with {list(counts)} diagnostics per file the status of file {i} is printed {c} time(s): "
                                           f"the verdict is conditional or nested (not exactly once per file)"), n
                        pos.append(out.index(f"#STATUS{i}#"))
                    if pos != sorted(pos):
                        return False, "the verdicts are not printed in file order", n
                    for lit in ("OK!", "KO!", "Error!"):
                        if lit in out:
                            return False, f"verdict literal {lit!r} printed by the formatter itself", n
    except Unsupported as e:
        raise Undecided(f"formatter {cname} is outside the evaluable subset: {e}")
    return True, "", n


# ------------------------------------------------------------------------------------------------ abstract runs of main
FILES = {
    "clean.c": "int a;\n", "notice.c": "int a; @N\n", "error.h": "@E\n", "mixed.c": "@N then @E\n",
    "notice2.h": "@N @N\n", "errors2.c": "@E @E\n", "fatal_l.c": "@L\n", "fatal_p.h": "@E @F\n",
    # a byte that is not UTF-8: the text cannot even be read (fatal before the lexer starts)
    "fatal_r.c": "int a; /* \udce9 */\n",
    # the tokenizer gives up on its own (its loop guard): another class of the repository's error family
    "fatal_m.c": "@M\n",
    # a source and its header share the stem: nothing may be keyed by File.name
    "twin.c": "@E\n", "twin.h": "int a;\n",
}
CORE = ("clean.c", "notice.c", "error.h", "mixed.c")
FATAL = ("fatal_l.c", "fatal_p.h", "fatal_r.c", "fatal_m.c")


def want_status(name: str) -> str:
    return "Error" if "@E" in FILES[posixpath.basename(name)] else "OK"


class Runs:
    def __init__(self, prog):
        self.prog = prog
        self.cache: Dict[tuple, Outcome] = {}
        self.n = 0

    def run(self, names, fmt=None, tree=None, extra=(), ignored=()) -> Outcome:
        key = (tuple(names), fmt, repr(tree), repr(extra), tuple(ignored))
        if key not in self.cache:
            cli = []
            if names:
                cli.append(("<positional>", list(names)))
            if fmt:
                cli.append(("-f", [fmt]))
            cli += list(extra)
            o = run_main(self.prog, tree if tree is not None else dict(FILES), cli, ignored=ignored)
            self.n += 1
            if o.unsupported:
                raise Undecided(f"__main__ is outside the evaluable subset: {o.unsupported} (command line {cli})")
            self.cache[key] = o
        return self.cache[key]


def started(o: Outcome) -> List[str]:
    return [e[1].__dict__.get("path") for e in o.events("Lexer")]


def completed(o: Outcome) -> List[str]:
    return [e[1].__dict__.get("path") for e in o.events("run") if plan_of(FILES.get(posixpath.basename(e[1].__dict__.get("path") or ""), ""))[1] is None]


def reported(o: Outcome, fmt) -> Tuple[List[Tuple[str, str]], List[str]]:
    if fmt == "json":
        files, stray, _ = parse_json(o.stdout)
    else:
        files, stray = parse_human(o.stdout)
    return [(posixpath.basename(n or ""), s) for n, s, _ in files], stray


def describe(names) -> str:
    return "[" + ", ".join(names) + "]"


def check(run, prog):
    main = prog.fn("__main__.py::main")
    rule_status(run, prog)
    runs = Runs(prog)

    # ---- R-4.2 exit status ---------------------------------------------------------------------------------
    run.rule("R-4.2", "__main__ interpreted for every sequence (length 0..3, with repetition) of files of the classes clean / "
             "notice-only / erroneous / mixed named on the command line, plus all pairs of six classes, in both output "
             "formats and through a directory argument: (a) no local is read before assignment, (b) the exit status does not "
             "depend on the order of the files, (c) it is non-zero exactly when some file has an Error-level diagnostic, "
             "(d) it is one value in 1..255 whatever the number of failing files, (e) exactly the selected files go through "
             "Lexer / Context / registry.run once each and exactly those get a verdict line", floor=3)
    seqs: List[Tuple[str, ...]] = []
    for k in range(0, 4):
        seqs += list(itertools.product(CORE, repeat=k))
    six = [n for n in FILES if n not in FATAL]
    seqs += [s for s in itertools.product(six, repeat=2) if s not in seqs]
    unbound = value = order = same = verdict = None
    fail_values = set()
    by_multiset: Dict[tuple, set] = {}
    for names in seqs:
        for fmt in ((None, "json") if len(names) <= 2 else (None,)):
            tree = dict(FILES) if names else {"only": {"x.txt": "no C file here"}}
            o = runs.run(names, fmt, tree=tree if not names else None)
            if o.crash is not None:
                if "UnboundLocalError" in o.crash or "NameError" in o.crash:
                    unbound = unbound or (names, o.crash)
                else:
                    value = value or (names, f"the run crashes with {o.crash}")
                continue
            want_fail = any(want_status(n) == "Error" for n in names)
            st = o.status
            if (st != 0) != want_fail:
                value = value or (names, f"exit status {st}")
            if want_fail and st != 0:
                raw = o.exit_code
                fail_values.add(int(raw) if isinstance(raw, (int, bool)) else 1)
            by_multiset.setdefault((tuple(sorted(names)), fmt), set()).add(st)
            done = completed(o)
            if done != list(names):
                same = same or (names, f"files that went through the pipeline: {describe(done)}")
            rep, stray = reported(o, fmt)
            if [n for n, _ in rep] != [posixpath.basename(n) for n in names]:
                same = same or (names, f"files that got a verdict: {describe([n for n, _ in rep])}")
            elif [s for _, s in rep] != [want_status(n) for n in names]:
                verdict = verdict or (names, f"verdicts {[s for _, s in rep]}")
    for (ms, fmt), sts in by_multiset.items():
        if len({s != 0 for s in sts}) > 1:
            order = order or (ms, sorted(sts))
    ex = main.node
    run.ob("R-4.2", f"{main.key}::exit-arg[unbound]", unbound is None,
           (f"with the files {describe(unbound[0])} the run dies on an unbound local before the exit status is computed "
            f"(e.g. empty file selection): {unbound[1]}") if unbound else "no unbound local", ex)
    run.ob("R-4.2", f"{main.key}::exit-arg[loopvar]", order is None,
           (f"the exit status depends on the order of the files: the files {describe(order[0])} exit with {order[1]} depending on "
            f"their order (only the last element decides)") if order else "order independent", ex)
    numeric = sorted(fail_values)
    run.ob("R-4.2", f"{main.key}::exit-arg[bounded]", len(numeric) <= 1 and all(0 < v < 256 for v in numeric),
           f"the exit status takes the values {numeric} for 1..3 failing files: it grows with the number of "
           f"failing files, and the operating system keeps only its low 8 bits (256 failing files exit with 0)", ex, values=numeric)
    run.ob("R-4.2", f"{main.key}::exit-arg[value]", value is None,
           (f"exit status disagrees with the verdicts: the files {describe(value[0])} (diagnostic levels "
            f"{[plan_of(FILES[n])[0] for n in value[0]]}) give {value[1]}") if value else "exit value", ex, evaluations=runs.n)
    # through a directory argument / the current directory
    o = runs.run(("src",), None, tree={"src": {k: v for k, v in FILES.items() if k not in FATAL}})
    o2 = runs.run((), None, tree={"src": {"clean.c": FILES["clean.c"], "notice.c": FILES["notice.c"]}, "x.c": FILES["clean.c"]})
    # ... and through several directory arguments (one verdict line per file, however many directories are named)
    o3 = runs.run(("d1", "d2", "d3"), None, tree={"d1": {"clean.c": FILES["clean.c"]}, "d2": {"notice.c": FILES["notice.c"]},
                                                   "d3": {"error.h": FILES["error.h"]}})
    for oo, files, wantfail in ((o, [k for k in FILES if k not in FATAL], True), (o2, ["clean.c", "notice.c", "x.c"], False),
                                (o3, ["clean.c", "notice.c", "error.h"], True)):
        if oo.crash is not None:
            value = value or ((), oo.crash)
        if sorted(posixpath.basename(p) for p in completed(oo)) != sorted(files) or sorted(n for n, _ in reported(oo, None)[0]) != sorted(files):
            same = same or (tuple(files), f"through a directory: analysed {describe(completed(oo))}, reported {describe([n for n, _ in reported(oo, None)[0]])}")
        if (oo.status != 0) != wantfail:
            same = same or (tuple(files), f"through a directory: exit status {oo.status}")
    run.ob("R-4.2", f"{main.key}::same-files", same is None,
           (f"the list analysed is not the list reported, or it is changed in between: command line {describe(same[0])}: {same[1]}")
           if same else "analysed == reported", ex)
    run.ob("R-4.1", f"{main.key}::verdict-per-file", verdict is None,
           (f"a verdict line disagrees with the file's diagnostics: files {describe(verdict[0])} get {verdict[1]}, expected "
            f"{[want_status(n) for n in verdict[0]]}") if verdict else "verdict lines", ex)

    # ---- R-4.3 fatal path ----------------------------------------------------------------------------------
    run.rule("R-4.3", "__main__ interpreted for every sequence (length 1..3) over clean / erroneous / fatal-while-lexing / "
             "fatal-while-parsing files that contains a fatal one: the CParsingError never escapes as a traceback; the exit "
             "status is non-zero on every such run (immediately or through a flag that survives to the final exit); every "
             "file whose analysis died is named in the output and never reported OK; files that were not analysed get no verdict",
             floor=2)
    pool = ("clean.c", "error.h") + FATAL
    escape = noexit = unnamed = wrong = None
    n_f = 0
    for k in range(1, 4):
        for names in itertools.product(pool, repeat=k):
            if not any(n in FATAL for n in names):
                continue
            for fmt in ((None, "json") if k <= 2 else (None,)):
                o = runs.run(names, fmt)
                n_f += 1
                if o.crash is not None:
                    if isinstance(o.crash_value, Obj) and "NorminetteError" in runs_chain(prog, o.crash_value._cls):
                        escape = escape or (names, o.crash)
                    else:
                        escape = escape or (names, f"crash: {o.crash}")
                    continue
                if o.status == 0:
                    noexit = noexit or (names, fmt)
                begun = started(o)
                died = [p for p in begun if posixpath.basename(p) in FATAL]
                alltext = o.stdout + o.stderr
                for p in died:
                    if p not in alltext and posixpath.basename(p) not in alltext:
                        unnamed = unnamed or (names, p)
                rep, _ = reported(o, fmt)
                done = [posixpath.basename(p) for p in completed(o)]
                for nme, status in rep:
                    if nme in FATAL:
                        if status == "OK":
                            wrong = wrong or (names, f"the fatal file {nme} is reported OK")
                    elif nme not in done:
                        wrong = wrong or (names, f"{nme} gets a verdict without having been analysed")
                    elif status != want_status(nme):
                        wrong = wrong or (names, f"{nme} is reported {status}")
                for nme in set(n for n, _ in rep):
                    if nme not in FATAL and [n for n, _ in rep].count(nme) > done.count(nme):
                        wrong = wrong or (names, f"{nme} gets more verdict lines than it was analysed")
    # the same through a directory argument and through the no-argument default: the File objects then come from the
    # discovery code (glob results), not from the command line
    for cli_names, tree in ((("src",), {"src": {"clean.c": FILES["clean.c"], "fatal_l.c": FILES["fatal_l.c"]}}),
                            (("src", "error.h"), {"src": {"fatal_p.h": FILES["fatal_p.h"]}, "error.h": FILES["error.h"]}),
                            ((), {"fatal_l.c": FILES["fatal_l.c"], "sub": {"clean.c": FILES["clean.c"]}})):
        o = runs.run(cli_names, None, tree=tree)
        n_f += 1
        if o.crash is not None:
            escape = escape or (cli_names or ("<no argument>",), f"crash: {o.crash}")
            continue
        if o.status == 0:
            noexit = noexit or (cli_names or ("<no argument>",), None)
        for p in [p for p in started(o) if posixpath.basename(str(p)) in FATAL]:
            if str(p) not in (o.stdout + o.stderr) and posixpath.basename(str(p)) not in (o.stdout + o.stderr):
                unnamed = unnamed or (cli_names or ("<no argument>",), str(p))
    run.ob("R-4.3", f"{main.key}::handler[CParsingError]", escape is None,
           (f"no except clause of the per-file try covers CParsingError: with the files {describe(escape[0])} a fatal parse error "
            f"ends in a traceback ({escape[1]})") if escape else "covered", ex, evaluations=n_f)
    run.ob("R-4.3", f"{main.key}::handler-exit", noexit is None,
           (f"a path leaves the fatal-error handler without a non-zero exit status: the files {describe(noexit[0])}"
            f"{' (-f json)' if noexit[1] else ''} exit with 0 although a file could not be parsed") if noexit else "non-zero", ex)
    run.ob("R-4.3", f"{main.key}::handler-names-file", unnamed is None,
           (f"the fatal-error handler can exit without printing the file it was analysing: files {describe(unnamed[0])}, "
            f"{unnamed[1]} is never named") if unnamed else "named", ex)
    run.ob("R-4.3", f"{main.key}::fatal-run-verdicts", wrong is None,
           (f"after a fatal error the report is wrong: files {describe(wrong[0])}: {wrong[1]}") if wrong else "verdicts", ex)

    # ---- R-4.5 empty selection -------------------------------------------------------------------------------
    run.rule("R-4.5", "__main__ interpreted on runs that select no file (no C file under the current directory, an empty "
             "directory argument, only a file with another suffix, everything ignored by git): the run ends cleanly with status 0 "
             "and an empty report in both formats", floor=1)
    empties = [
        ((), {"docs": {"readme.txt": "x"}}, (), ()),
        ((), {}, (), ()),
        (("empty",), {"empty": {}, "a.c": "@E"}, (), ()),
        (("notes.txt",), {"notes.txt": "x", "a.c": "@E"}, (), ()),
        (("a.c",), {"a.c": "@E"}, (("--use-gitignore", []),), ("a.c",)),
    ]
    bad = None
    for names, tree, extra, ign in empties:
        for fmt in (None, "json"):
            o = runs.run(names, fmt, tree=tree, extra=extra, ignored=ign)
            rep, stray = reported(o, fmt)
            if o.crash is not None:
                bad = bad or (names, f"the run crashes: {o.crash}")
            elif o.status != 0:
                bad = bad or (names, f"exit status {o.status}")
            elif rep or started(o):
                bad = bad or (names, f"files analysed / reported: {started(o)} / {rep}")
            elif fmt == "json" and parse_json(o.stdout)[2] != 1:
                bad = bad or (names, f"the JSON report of an empty run is not one JSON document: {o.stdout!r}")
    run.ob("R-4.5", f"{main.key}::no-positional-files", bad is None,
           (f"an empty selection does not reach the formatter and a clean exit: command line {describe(bad[0])}: {bad[1]}")
           if bad else "empty selection", ex)


def runs_chain(prog, cname):
    out, todo = [], [cname]
    while todo:
        c = todo.pop(0)
        if c in out:
            continue
        out.append(c)
        if c in prog.classes:
            todo.extend(prog.classes[c].bases)
    return out
