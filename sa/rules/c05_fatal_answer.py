"""R-5.18 (property C05): every member of the repository's error family gets the one-line answer.

R-5.2 shows that the exceptions raised below main's per-file try are covered by one of its handlers; whether the handler itself
comes through is decided here on abstract runs of __main__ (sa/mainmodel.py, DESIGN §3.4b): single-file runs on a file that dies
while lexing with a CParsingError, on one the tokenizer gives up on with its own error class (MaybeInfiniteLoop / UnexpectedEOF,
whatever their constructors store), on one that dies while parsing and on one whose text cannot be read, in both formats and
with --no-colors: no run ends in a traceback, each exits non-zero and names the file."""
from __future__ import annotations

import posixpath

from ..minieval import Unsupported
from ..model import Undecided


def rule_fatal_answer(run, prog, rid="R-5.18"):
    run.rule(rid, "the fatal path answers for every error class of the repository: __main__ interpreted on single fatal files (CParsingError "
             "while lexing, the tokenizer's own give-up class, CParsingError while parsing, unreadable text) under no option, -f json "
             "and --no-colors ends without traceback, with a non-zero status and the file named", floor=1)
    from .c04 import FATAL, FILES, Runs
    main = prog.fn("__main__.py::main")
    run.require(main is not None, "anchor vanished: __main__.main")
    bad, n = None, 0
    try:
        runs = Runs(prog)
        for name in FATAL:
            for fmt, extra in ((None, ()), ("json", ()), (None, (("--no-colors", []),))):
                n += 1
                o = runs.run((name,), fmt, extra=list(extra))
                if o.crash is not None:
                    bad = bad or (name, fmt, extra, f"ends in a traceback ({o.crash})")
                elif o.status == 0:
                    bad = bad or (name, fmt, extra, "exits with status 0")
                elif posixpath.basename(name) not in (o.stdout + o.stderr):
                    bad = bad or (name, fmt, extra, "does not name the file")
    except Unsupported as e:
        raise Undecided(f"__main__ is outside the evaluable subset: {e}")
    run.ob(rid, f"{main.key}::fatal-answer", bad is None,
           (f"the run on {bad[0]} ({FILES[bad[0]]!r}: its analysis dies){' -f json' if bad[1] else ''}{' --no-colors' if bad[2] else ''} {bad[3]}")
           if bad else "", main.node, evaluations=n)
