"""R-9.11 (property C09): the notices about escape sequences point at the offending character.

"The position printed with a diagnostic points at the offending character": for UNKNOWN_ESCAPE and NO_HEX_DIGITS that is the
character after the backslash -- the first character of its spelling when it is written as a digraph or trigraph.
Lexer.pop(use_escape=True) is interpreted (sa/lexsim.py, DESIGN §3.4b) at columns 1..6 on a backslash (plain and `??/`) followed
by a character no escape knows, plain and in every digraph / trigraph spelling, and by an `x` without hexadecimal digits: the one
highlight recorded must stand on the line, at the column right behind the backslash's spelling, one column long."""
from __future__ import annotations

from ..fold import Unknown, fold_name
from ..lexsim import LexerSim
from ..minieval import Unsupported
from ..model import AnalysisError, Undecided


def rule_escape_notice_positions(run, prog, rid="R-9.11"):
    run.rule(rid, "escape notices point at the character behind the backslash: Lexer.pop(use_escape=True), interpreted at columns 1..6 on "
             "`\\\\` / `??/` followed by an unknown escape character (plain, and every digraph / trigraph spelling of one) or by `x` "
             "without digits, records UNKNOWN_ESCAPE / NO_HEX_DIGITS with one highlight at (line, column of the first character "
             "behind the backslash's spelling), length 1", floor=1)
    pop = prog.method("Lexer", "pop")
    run.require(pop is not None, "anchor vanished: Lexer.pop")
    dm = prog.mod("lexer/dictionary.py")
    try:
        tri, di = fold_name("trigraphs", dm), fold_name("digraphs", dm)
    except Unknown as e:
        raise AnalysisError(f"lexer tables do not fold: {e}")
    seconds = [("q", "UNKNOWN_ESCAPE"), ("z", "UNKNOWN_ESCAPE"), ("x;", "NO_HEX_DIGITS")]
    for sp, ch in list(tri.items()) + list(di.items()):
        if ch not in "\\'\"?" and ch != "\n":
            seconds.append((sp, "UNKNOWN_ESCAPE"))
    bad, n = None, 0
    try:
        for bs in ("\\", "??/"):
            for second, code in seconds:
                for col in (1, 2, 5, 6):
                    n += 1
                    src = "a" * (col - 1) + bs + second + '" z'
                    sim = LexerSim(prog, src)
                    if col > 1:
                        sim.call("pop", times=col - 1)
                    out = sim.call("pop", use_escape=True)
                    errs = [e for e in sim.errors.items if e.name == code]
                    want = (1, col + len(bs), 1)
                    got = [(h.lineno, h.column, h.length) for e in errs for h in e.highlights]
                    if out.kind != "ok":
                        continue
                    if got != [want] and bad is None:
                        bad = (src, code, got, want)
    except Unsupported as e:
        raise Undecided(f"Lexer.pop is outside the evaluable subset: {e}")
    run.ob(rid, f"{pop.key}::escape-notice-position", bad is None,
           (f"reading {bad[0]!r} in a literal records {bad[1]} with the highlights {bad[2]}, expected exactly {bad[3]} (the character "
            f"right behind the backslash): both report formats print a position that is not the offending character") if bad else "",
           pop.node, evaluations=n)
