"""R-5.17 (property C05): the tokenizer answers on an input cut anywhere.

"The tokenizer is total / never loops forever": the character-level loops of the sub-parsers are not all token look-ups that
R-5.4 can reason about (a scan over a slice of the source, a counter over the raw text).  Decided on the behaviour instead:
Lexer.get_next_token is interpreted (sa/lexsim.py, DESIGN §3.4b) on every prefix of a family of fragments that exercises every
sub-parser (escapes of each kind, prefixed literals, comments, splices, trigraphs, numeric families, directives), token after
token until the end of the input.  Each call must end -- with a token, with None, or with an exception of the repository --
within a step budget that is four orders of magnitude above what a dozen characters need, and the input must be exhausted
after at most len + 2 calls."""
from __future__ import annotations

from ..lexsim import LexerSim
from ..minieval import Unsupported
from ..model import Undecided

FRAGMENTS = [
    '"\\x41"', "'\\xE9'", 'L"\\x1234"', 'u8"\\101\\7"', "'\\0'", '"\\u00e9\\U0001F600"', '"a\\\\"', '"\\q"', "'ab'", "''",
    "/* a * / */", "// a\\\nb\n", "/*/ */", "0x1.8p-3f", "1e+5L", "0b101u", "07.5e", "1..2", ".5", "12ulll", "0x",
    "??=define", "%:", "<::>", "<%%>", "??/\n", "a\\\nb", "\\\n", "\\ \n", "#include <a.h>\n", '#include "a.h"\n', "->*", "...",
    "<<=", "a\tb", "\r\n", "@", "`", "$a", "\x7f", "\xe9", "'", '"', "\\",
]


def rule_truncated_inputs(run, prog, rid="R-5.17"):
    run.rule(rid, "the tokenizer answers on an input cut anywhere: Lexer.get_next_token, interpreted token after token on every "
             f"prefix of {len(FRAGMENTS)} fragments covering each sub-parser (escapes, prefixed literals, comments, splices, "
             "trigraphs / digraphs, numeric families, directives, stray characters), ends every call inside the step budget with a "
             "token, None or a repository exception, and exhausts the input in <= len + 2 calls", floor=1)
    fn = prog.method("Lexer", "get_next_token")
    run.require(fn is not None, "anchor vanished: Lexer.get_next_token")
    seen, bad, n = set(), None, 0
    unsupported = None
    for frag in FRAGMENTS:
        for cut in range(1, len(frag) + 1):
            src = frag[:cut]
            if src in seen:
                continue
            seen.add(src)
            n += 1
            try:
                sim = LexerSim(prog, src, max_steps=300000)
                calls, ended = 0, False
                for calls in range(1, len(src) + 3):
                    out = sim.call("get_next_token")
                    if out.kind != "ok" or out.value is None:
                        ended = True
                        break
                    if sim.pos is not None and sim.pos >= len(src):
                        ended = True
                        break
                if not ended and bad is None:
                    bad = (src, f"is not exhausted after {calls} calls of get_next_token (cursor at offset {sim.pos})")
            except Unsupported as e:
                if "step budget" in str(e):
                    if bad is None:
                        bad = (src, "keeps the tokenizer busy beyond 300000 interpreter steps: it does not come back")
                elif unsupported is None:
                    unsupported = (src, str(e))
    if unsupported is not None and bad is None:
        raise Undecided(f"get_next_token is outside the evaluable subset on {unsupported[0]!r}: {unsupported[1]}")
    run.ob(rid, f"{fn.key}::truncated-inputs", bad is None, f"the input {bad[0]!r} {bad[1]}" if bad else "", fn.node, evaluations=n)
