"""R-19.6 (property C19): a comment line between two top-level definitions is judged as a top-level comment, whatever came before.

"Inserting a comment line between two top-level definitions ... leaves the earlier diagnostics untouched and moves the later
ones" requires, first of all, that the inserted line itself gets no diagnostic.  The only check that runs on a comment
statement and can report one there is the scope test of CheckComment (WRONG_SCOPE_COMMENT), which falls back to a scan of
context.history.  That scan is a pure function of the history, so it is interpreted (sa/stubrun.py, DESIGN §3.4b) on every
well-formed history of up to three top-level items -- variable, preprocessor line, comment, empty line, and functions whose
opening brace follows the declarator directly, after preprocessor lines (alternative signatures under #ifdef), or whose
body holds a nested block -- with the comment inserted at each top-level point, in file scope."""
from __future__ import annotations

import itertools

from ..minieval import Unsupported
from ..model import Undecided
from ..stubrun import RUNTIME_ERRORS, StubContext, line_tokens, run_rule

ITEMS = {
    "var": ["IsVarDeclaration"],
    "preproc": ["IsPreprocessorStatement"],
    "comment": ["IsComment"],
    "empty": ["IsEmptyLine"],
    "function": ["IsFuncDeclaration", "IsBlockStart", "IsVarDeclaration", "IsEmptyLine", "IsExpressionStatement", "IsBlockEnd"],
    "function, #ifdef signatures": ["IsPreprocessorStatement", "IsFuncDeclaration", "IsPreprocessorStatement", "IsFuncDeclaration",
                                    "IsPreprocessorStatement", "IsBlockStart", "IsExpressionStatement", "IsBlockEnd"],
    "function, #pragma before the brace": ["IsFuncDeclaration", "IsPreprocessorStatement", "IsBlockStart", "IsExpressionStatement",
                                           "IsBlockEnd"],
    "function with a nested block": ["IsFuncDeclaration", "IsBlockStart", "IsControlStatement", "IsBlockStart", "IsExpressionStatement",
                                     "IsBlockEnd", "IsBlockEnd"],
    "function with a comment inside": ["IsFuncDeclaration", "IsBlockStart", "IsComment", "IsExpressionStatement", "IsBlockEnd"],
}


def rule_toplevel_comment(run, prog, rid="R-19.6"):
    run.rule(rid, "CheckComment.run, interpreted in file scope on a comment line inserted after every well-formed sequence of "
             "<= 3 top-level items (variables, preprocessor lines, comments, empty lines, functions with the brace directly / "
             "after preprocessor lines / with nested blocks / with inner comments), reports nothing: a top-level comment is "
             "never taken for a comment inside a function because of what precedes it", floor=1)
    m = prog.method("CheckComment", "run")
    run.require(m is not None, "anchor vanished: CheckComment.run")
    bad, n = None, 0
    try:
        for size in range(0, 4):
            for combo in itertools.product(sorted(ITEMS), repeat=size):
                hist = [r for it in combo for r in ITEMS[it]]
                for tok in (("COMMENT", "// x"), ("MULT_COMMENT", "/* x */")):
                    n += 1
                    sc = StubContext(prog, line_tokens([tok, "NEWLINE"], 40, 1), history=tuple(hist + ["IsComment"]), scope="GlobalScope")
                    try:
                        run_rule(prog, "CheckComment", sc)
                    except RUNTIME_ERRORS as e:
                        if bad is None:
                            bad = (combo, tok[0], [f"raise {type(e).__name__}"])
                        continue
                    if sc.codes() and bad is None:
                        bad = (combo, tok[0], sc.codes())
    except Unsupported as e:
        raise Undecided(f"CheckComment.run is outside the evaluable subset: {e}")
    run.ob(rid, f"{m.key}::top-level-comment", bad is None,
           (f"after the top-level items {list(bad[0])} a {bad[1]} line inserted in file scope gets {bad[2]}: inserting a comment "
            f"between two definitions adds a diagnostic of its own") if bad else "", m.node, evaluations=n)
    # ... nor by CheckHeader, which runs after every statement: once the header question of the file is settled (accepted header,
    # or the one INVALID_HEADER of a headerless file), a comment inserted between two later definitions changes nothing
    from .c13 import simulate_header_machine
    bad2, n2 = None, 0
    try:
        for before in (("mc", "nc"), ("mc", "mc", "nc"), ("nc",), ("oc", "nc"), ("mc", "nc", "nc")):
            for inserted in ("oc", "mc"):
                for rx_ok in (True, False):
                    n2 += 1
                    base, _ = simulate_header_machine(prog, before + ("nc",), rx_ok)
                    rec, at = simulate_header_machine(prog, before + (inserted, "nc"), rx_ok)
                    if rec.emitted != base.emitted and bad2 is None:
                        bad2 = (before, inserted, rx_ok, base.emitted, rec.emitted)
    except Unsupported as e:
        raise Undecided(f"CheckHeader.run is outside the evaluable subset: {e}")
    kinds = {"mc": "block comment", "oc": "// comment", "nc": "definition"}
    run.ob(rid, "rules/check_header.py::CheckHeader.run::silent-after-its-verdict", bad2 is None,
           (f"in a file that begins with {[kinds[k] for k in bad2[0]]} (header recogniser {'matching' if bad2[2] else 'failing'}) a "
            f"{kinds[bad2[1]]} inserted before the next definition changes the header diagnostics from {bad2[3]} to {bad2[4]}")
           if bad2 else "", prog.method("CheckHeader", "run").node, evaluations=n2)
