"""R-14.6 (property C14): whoever removes entries from the list of defined macros removes the entries it selected.

`context.preproc.macros` is what `has_macro_defined(guard)` answers from at the closing #endif.  A method that deletes
from that list (for #undef, say) selects its victim by name; interpreted on every list of <= 3 distinctly named macros and
every target name, the list afterwards must be the list before minus entries of exactly that name (one or all of them) --
an index slip (`del macros[-i]` over an enumerate(reversed(...))) removes the guard's own macro instead."""
from __future__ import annotations

import ast
import itertools

from ..minieval import Evaluator, Obj, Raised, Unsupported
from ..model import Undecided, text, walk_fn


def rule_macro_removal(run, prog):
    run.rule("R-14.6", "removal from preproc.macros is by name: each method of PreProcessors that deletes from self.macros, "
             "interpreted on all lists of <= 3 macros and every target name, leaves the other macros in place", floor=0)
    pp = prog.classes.get("PreProcessors")
    if pp is None:
        return
    n = 0
    for m in pp.methods.values():
        deletes = [x for x in walk_fn(m.node) if (isinstance(x, ast.Delete) and "macros" in text(x))
                   or (isinstance(x, ast.Call) and isinstance(x.func, ast.Attribute) and x.func.attr in ("pop", "remove", "clear")
                       and text(x.func.value).endswith("macros"))
                   or (isinstance(x, ast.Assign) and any(text(t) == "self.macros" for t in x.targets) and m.name != "__init__")]
        if not deletes:
            continue
        params = [p for p in m.params if p != "self"]
        if len(params) != 1:
            run.note(f"R-14.6: {m.key} deletes from macros but does not take exactly one argument: not interpreted")
            continue
        n += 1
        bad = None
        methods = {("PreProcessors", k): v.node for k, v in pp.methods.items()}
        try:
            for size in (1, 2, 3):
                for names in itertools.permutations(["A_H", "B", "C", "D"], size):
                    for target in list(names) + ["Z"]:
                        me = Obj("PreProcessors", macros=[Obj("Macro", name=nm, is_func=False) for nm in names])
                        ev = Evaluator(methods)
                        for arg in (target, Obj("Token", value=target, type="IDENTIFIER")):
                            me.__dict__["macros"] = [Obj("Macro", name=nm, is_func=False) for nm in names]
                            try:
                                ev.invoke(m.node, [me, arg], {})
                            except (Raised, LookupError, TypeError, ValueError, AttributeError):
                                continue
                            after = [x.__dict__.get("name") for x in me.__dict__["macros"]]
                            want = [nm for nm in names if nm != target]
                            if after != want and bad is None and (after != list(names) or target in names):
                                if after == list(names) and not isinstance(arg, str):
                                    continue                  # this calling convention is not the method's
                                if after == list(names) and isinstance(arg, str):
                                    continue
                                bad = (list(names), target, after)
                            if after == want:
                                break
        except Unsupported as e:
            raise Undecided(f"{m.key} is outside the evaluable subset: {e}")
        run.ob("R-14.6", f"{m.key}::removes-by-name", bad is None,
               (f"with the macros {bad[0]} defined, removing {bad[1]!r} leaves {bad[2]} (expected {[x for x in bad[0] if x != bad[1]]}): "
                f"another macro is dropped -- e.g. the header guard's own, and HEADER_PROT_NODEF is reported for a correct guard")
               if bad else "", deletes[0])
    # index slips over a reversed enumeration, anywhere in the package (the helper above may have been inlined into its caller)
    for fn in prog.fns:
        for lp in walk_fn(fn.node):
            if not (isinstance(lp, ast.For) and isinstance(lp.iter, ast.Call) and text(lp.iter.func) == "enumerate" and lp.iter.args
                    and isinstance(lp.iter.args[0], ast.Call) and text(lp.iter.args[0].func) == "reversed" and lp.iter.args[0].args
                    and isinstance(lp.target, ast.Tuple) and lp.target.elts and isinstance(lp.target.elts[0], ast.Name)):
                continue
            seq = text(lp.iter.args[0].args[0])
            idx = lp.target.elts[0].id
            start = 0
            if len(lp.iter.args) > 1 and isinstance(lp.iter.args[1], ast.Constant):
                start = lp.iter.args[1].value
            for k in lp.iter.keywords:
                if k.arg == "start" and isinstance(k.value, ast.Constant):
                    start = k.value.value
            if any(isinstance(y, ast.Name) and y.id == idx and isinstance(y.ctx, ast.Store) for st in lp.body for y in ast.walk(st)):
                continue                      # the index is recomputed inside the loop: not the enumeration's any more
            for x in ast.walk(lp):
                if isinstance(x, ast.Subscript) and text(x.value) == seq and not isinstance(x.slice, ast.Slice) \
                        and any(isinstance(y, ast.Name) and y.id == idx for y in ast.walk(x.slice)):
                    sl = text(x.slice).replace(" ", "")
                    good = {0: {f"-{idx}-1", f"-({idx}+1)", f"~{idx}", f"len({seq})-1-{idx}", f"len({seq})-{idx}-1", f"-1-{idx}"},
                            1: {f"-{idx}", f"len({seq})-{idx}"}}.get(start, set())
                    n += 1
                    run.ob("R-14.6", f"{fn.key}::reversed-index[{seq}[{text(x.slice, 30)}]]", sl in good,
                           f"`{seq}[{text(x.slice)}]` inside `for {idx}, ... in enumerate(reversed({seq}){', ' + str(start) if start else ''})`: "
                           f"the element being looked at is {seq}[-{idx}-1]; with {idx} == 0 this expression names {seq}[0] "
                           f"(for preproc.macros: the header guard's own macro)", x)
    if n == 0:
        run.note("R-14.6: nothing deletes from the macro list by position in this tree")


def rule_macro_lookup(run, prog):
    run.rule("R-14.7", "lookup in preproc.macros is by equality of names: PreProcessors.has_macro_defined, interpreted on every "
             "list of <= 2 macros over names that are substrings / prefixes / suffixes / case variants of one another and on "
             "every such query, answers true exactly when a macro of that very name is in the list", floor=0)
    pp = prog.classes.get("PreProcessors")
    m = pp.methods.get("has_macro_defined") if pp is not None else None
    if m is None:
        run.note("R-14.7: PreProcessors.has_macro_defined does not exist in this tree (the lookup is spelled at its use: R-14.2)")
        return
    names = ["A_H", "XA_H", "A_HX", "a_h", "A", ""]
    methods = {("PreProcessors", k): v.node for k, v in pp.methods.items()}
    bad, n = None, 0
    try:
        for size in (0, 1, 2):
            for defined in itertools.permutations(names[:5], size):
                for query in names:
                    n += 1
                    me = Obj("PreProcessors", macros=[Obj("Macro", name=nm, is_func=False) for nm in defined])
                    ev = Evaluator(methods)
                    try:
                        got = ev.invoke(m.node, [me, query], {})
                    except Raised as r:
                        got = f"raise {r}"
                    want = query in defined
                    if (isinstance(got, str) or bool(got) != want) and bad is None:
                        bad = (list(defined), query, got, want)
    except Unsupported as e:
        raise Undecided(f"{m.key} is outside the evaluable subset: {e}")
    run.ob("R-14.7", f"{m.key}::lookup-by-equality", bad is None,
           (f"with the macros {bad[0]} defined, has_macro_defined({bad[1]!r}) answers {bad[2]!r} (expected {bad[3]}): a header whose "
            f"guard is never #defined passes when another macro's name merely resembles the guard, or a defined guard is missed")
           if bad else "", m.node, evaluations=n)
