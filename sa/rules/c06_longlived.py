"""R-6.7 (property C06): objects that outlive one file carry no per-file state across files.

`main` builds one Registry for the whole run (and registry.py one `rules = Rules()` for the process) and calls
registry.run(context) once per file; a fatal file leaves run() by an exception.  An attribute of such a long-lived object that
a per-file method writes or mutates must therefore be re-initialised at the very start of the per-file entry point (before
anything can raise) -- state that is only reset "when the work is done" survives an aborted file and leaks into the next."""
from __future__ import annotations

import ast
from typing import Dict, List, Set

from ..calls import callgraph
from ..cfg import cfg_of
from ..model import text, walk_fn

MUTATORS = {"append", "extend", "insert", "pop", "remove", "clear", "add", "discard", "update", "setdefault", "sort", "reverse",
            "popitem"}


def _self_writes(fn) -> Dict[str, List[ast.AST]]:
    out: Dict[str, List[ast.AST]] = {}
    for n in walk_fn(fn.node):
        tg = n.targets if isinstance(n, ast.Assign) else [n.target] if isinstance(n, (ast.AugAssign, ast.AnnAssign)) else []
        for t in tg:
            for x in ast.walk(t):
                if isinstance(x, ast.Attribute) and isinstance(x.value, ast.Name) and x.value.id == "self" and isinstance(x.ctx, ast.Store):
                    out.setdefault(x.attr, []).append(n)
                elif isinstance(x, ast.Subscript) and isinstance(x.value, ast.Attribute) and isinstance(x.value.value, ast.Name) \
                        and x.value.value.id == "self":
                    out.setdefault(x.value.attr, []).append(n)
        if isinstance(n, ast.Call) and isinstance(n.func, ast.Attribute) and n.func.attr in MUTATORS \
                and isinstance(n.func.value, ast.Attribute) and isinstance(n.func.value.value, ast.Name) and n.func.value.value.id == "self":
            out.setdefault(n.func.value.attr, []).append(n)
    return out


def rule_long_lived(run, prog):
    run.rule("R-6.7", "per-file state on objects that outlive a file: every attribute of the Registry (one instance for the whole "
             "run) that a method reachable from Registry.run writes or mutates is assigned afresh at the start of run(), before "
             "any statement that can raise; otherwise what a fatally aborted file left behind reaches the next file", floor=1)
    reg = prog.classes.get("Registry")
    runm = prog.method("Registry", "run")
    run.require(reg is not None and runm is not None, "anchor vanished: Registry.run")
    cg = callgraph(prog)
    reach = cg.reachable_from([runm.key])
    per_file = [m for m in reg.methods.values() if m.key in reach and m.name != "__init__"]
    written: Dict[str, List] = {}
    for m in per_file:
        for attr, nodes in _self_writes(m).items():
            written.setdefault(attr, []).extend((m, n) for n in nodes)
    # the reset: leading simple statements of run() of the form self.X = <display / call / constant>
    resets: Set[str] = set()
    for st in runm.node.body:
        if isinstance(st, ast.Expr) and isinstance(st.value, ast.Constant):
            continue
        if isinstance(st, ast.Assign) and len(st.targets) == 1 and isinstance(st.targets[0], ast.Attribute) \
                and isinstance(st.targets[0].value, ast.Name) and st.targets[0].value.id == "self" \
                and isinstance(st.value, (ast.List, ast.Dict, ast.Set, ast.Tuple, ast.Constant, ast.Call)) \
                and not any(isinstance(x, ast.Attribute) and text(x).startswith("self.") for x in ast.walk(st.value)):
            resets.add(st.targets[0].attr)
            continue
        if isinstance(st, ast.Assign) and all(isinstance(t, ast.Name) for t in st.targets):
            continue                      # a local being initialised cannot raise in a way that matters here
        break
    if not written:
        run.ob("R-6.7", f"{reg.key}::per-file-state", True, "", reg.node, per_file_methods=[m.name for m in per_file], attributes=[])
        return
    for attr, sites in sorted(written.items()):
        m, n = sites[0]
        run.ob("R-6.7", f"{reg.key}::per-file-state[{attr}]", attr in resets,
               f"Registry.{attr} is written in {', '.join(sorted({mm.name for mm, _ in sites}))} (per file) but is not re-initialised "
               f"at the start of Registry.run: when a file is abandoned by an exception, what it left in self.{attr} is seen by "
               f"the next file analysed with the same Registry", n, writers=sorted({mm.key for mm, _ in sites}))
