"""C13 — the 42 header is recognised exactly.  DESIGN.md §4.13."""
from __future__ import annotations

import ast
import itertools
import string
from typing import List, Optional

from ..facts import emission_sites, registry_model, value_set
from ..fold import RegexConst, fold_in_fn
from ..minieval import Evaluator, Obj, Unsupported
from ..model import AnalysisError, Undecided, text, walk_fn
from ..regexlang import (Lit, Rep, UNIVERSE, UnsupportedRegex, from_pattern, from_template, included,
                         intersection_witness)

# field alphabets (printable ASCII; no blank; no '*', so that no comment delimiter can appear inside a field)
FIELD = frozenset(c for c in string.printable if 33 <= ord(c) <= 126 and c != "*")
DATE = frozenset("0123456789/")
TIME = frozenset("0123456789:")
SP = frozenset(" ")


def F():
    return Rep(FIELD, 1, None)


def PAD():
    return Rep(SP, 1, None)


STARS = "/* " + "*" * 74 + " */\n"
BLANK = "/*" + " " * 76 + "*/\n"


def lines(frame_top=STARS, frame_bottom=STARS, by=True, created=True, updated=True, by_kw="By:", created_kw="Created:",
          created_by=True, updated_by=True):
    """The eleven lines of the stdheader layout as template items (a superset of real headers: padding is not
    tied to the field lengths)."""
    L = []
    L.append([frame_top])
    L.append([BLANK])
    L.append(["/*", PAD(), ":::      ::::::::   */\n"])
    L.append(["/*   ", F(), PAD(), ":+:      :+:    :+:   */\n"])
    L.append(["/*", PAD(), "+:+ +:+         +:+     */\n"])
    if by:
        # the stdheader template cuts the left part of a line at a fixed width: for a long login / mail domain the
        # closing '>' (or more) of `By: login <mail>` is lost -- still a well-formed header
        L.append(["/*   " + by_kw + " ", F(), Rep(SP, 0, 1), Rep(frozenset("<"), 0, 1), Rep(FIELD, 0, None),
                  PAD(), "+#+  +:+       +#+        */\n"])
    else:
        L.append([BLANK])
    L.append(["/*", PAD(), "+#+#+#+#+#+   +#+           */\n"])
    if created:
        it = ["/*   " + created_kw + " ", Rep(DATE, 10, 10), " ", Rep(TIME, 8, 8)]
        if created_by:
            it += [" by ", F()]
        L.append(it + [PAD(), "#+#    #+#             */\n"])
    else:
        L.append([BLANK])
    if updated:
        it = ["/*   Updated: ", Rep(DATE, 10, 10), " ", Rep(TIME, 8, 8)]
        if updated_by:
            it += [" by ", F()]
        L.append(it + [PAD(), "###   ########.fr       */\n"])
    else:
        L.append([BLANK])
    L.append([BLANK])
    L.append([frame_bottom])
    return L


def flat(ls):
    out = []
    for l in ls:
        out += l
    return out


def one_block(ls):
    """The same eleven lines written as ONE block comment: inner `*/` and `/*` blanked."""
    out = []
    n = len(ls)
    for i, l in enumerate(ls):
        items = list(l)
        # strip the leading "/*" (except first line) and trailing "*/" (except last line)
        if i > 0:
            first = items[0]
            assert isinstance(first, str) and first.startswith("/*")
            items[0] = "  " + first[2:]
        if i < n - 1:
            last = items[-1]
            assert isinstance(last, str) and last.endswith("*/\n")
            items[-1] = last[:-3] + "  \n"
        out += items
    return out


def mutations():
    base = lines()
    M = []
    for k in range(11):
        M.append((f"line L{k + 1} removed", flat(base[:k] + base[k + 1:])))
    for n in (73, 75):
        fr = "/* " + "*" * n + " */\n"
        M.append((f"top frame line with {n} stars", flat(lines(frame_top=fr))))
        M.append((f"bottom frame line with {n} stars", flat(lines(frame_bottom=fr))))
    M.append(("By: line replaced by a blank frame line", flat(lines(by=False))))
    M.append(("Created: line replaced by a blank frame line", flat(lines(created=False))))
    M.append(("Updated: line replaced by a blank frame line", flat(lines(updated=False))))
    M.append(("keyword By: misspelled by:", flat(lines(by_kw="by:"))))
    M.append(("keyword Created: misspelled Create:", flat(lines(created_kw="Create:"))))
    M.append(("' by <login>' removed from the Created line", flat(lines(created_by=False))))
    M.append(("' by <login>' removed from the Updated line", flat(lines(updated_by=False))))
    M.append(("the eleven lines written as one block comment", one_block(base)))
    return M


def header_regex(prog):
    """(pattern, flags, mode) of the recogniser in CheckHeader.check_header, and the call node."""
    ch = prog.cls("CheckHeader")
    # the method that applies the recogniser: check_header today; any method of the class (helpers merged into run ...)
    cands = [m for n_, m in sorted(ch.methods.items(), key=lambda kv: (kv[0] != "check_header", kv[0]))]
    for fn in cands:
        got = _header_regex_in(fn)
        if got is not None:
            return got
    raise AnalysisError("CheckHeader: cannot find/fold the header regular expression and its application")


def _header_regex_in(fn):
    from ..dataflow import expand_aliases
    # regex = re.compile(P, FLAGS) ; regex.search(context.header)      or      re.search(P, context.header, FLAGS)
    for n in walk_fn(fn.node):
        if isinstance(n, ast.Call) and isinstance(n.func, ast.Attribute) and n.func.attr in ("search", "match", "fullmatch") \
                and n.args and "header" in text(expand_aliases(fn, n.args[-1] if text(n.func.value) != "re" else
                                                               (n.args[1] if len(n.args) > 1 else n.args[-1]))):
            mode = n.func.attr
            if text(n.func.value) == "re":
                pat = fold_in_fn(n.args[0], fn, default=None)
                flags = 0
                if len(n.args) > 2:
                    flags = fold_in_fn(n.args[2], fn, default=None)
                for k in n.keywords:
                    if k.arg == "flags":
                        flags = fold_in_fn(k.value, fn, default=None)
                if isinstance(pat, str) and isinstance(flags, int):
                    return pat, flags, mode, n, fn
            else:
                rc = fold_in_fn(n.func.value, fn, default=None)
                if isinstance(rc, RegexConst):
                    return rc.pattern, rc.flags, mode, n, fn
    return None


def rule_language(run, prog):
    run.rule("R-13.1", "LANG acceptance: L(template family of the stdheader layout, fields = any non-empty blank-free "
             "strings, padding free) is included in the language of strings the recogniser accepts (pattern literal and "
             "flags folded from CheckHeader.check_header, search/match/fullmatch semantics modelled)", floor=1)
    run.rule("R-13.2", "LANG rejection: for each structural mutation of the template family the intersection with the "
             "accepted language is empty (otherwise the shortest accepted member is the witness)", floor=20)
    pat, flags, mode, call, fn = header_regex(prog)
    try:
        rx = from_pattern(pat, flags, mode)
        tmpl = from_template(flat(lines()))
        ok, cex, st = included(tmpl, rx)
    except UnsupportedRegex as e:
        raise AnalysisError(f"header pattern uses a construct outside the language engine: {e}")
    run.extra["states"] = st["states"]
    run.extra["transitions"] = st["transitions"]
    run.extra["nfa_states_pattern"] = rx.n
    run.extra["nfa_states_template"] = tmpl.n
    run.ob("R-13.1", f"{fn.key}::accepts-template-family", ok,
           f"a well-formed 42 header is rejected by the recogniser; shortest rejected member of the family:\n{cex}" if not ok else "included",
           call, product_states=st["states"], mode=mode, flags=flags)
    # context.header also receives every further leading block comment: the header followed by another comment
    # statement must still be accepted
    extra = ["/*", Rep(FIELD | SP, 0, None), "*/\n"]
    tmpl2 = from_template(flat(lines()) + extra)
    ok2, cex2, st2 = included(tmpl2, rx)
    run.ob("R-13.1", f"{fn.key}::accepts-header-then-comment", ok2,
           f"a well-formed header directly followed by another block comment is rejected; shortest rejected member:\n{cex2}" if not ok2 else "included",
           call, product_states=st2["states"])
    # the result None <=> INVALID_HEADER: observed on the two-flag machine (block comment, then code) with a stub recogniser
    try:
        r_ok, _ = simulate_header_machine(prog, ("mc", "nc"), True)
        r_ko, _ = simulate_header_machine(prog, ("mc", "nc"), False)
        cond_ok = r_ok.emitted == [] and r_ko.emitted == ["INVALID_HEADER"] and len(r_ok.searched) == 1 and len(r_ko.searched) == 1
        why = f"matching: {r_ok.emitted}, not matching: {r_ko.emitted}, applications: {len(r_ok.searched)}/{len(r_ko.searched)}"
    except Unsupported as e:
        raise Undecided(f"CheckHeader.run is outside the evaluable subset: {e}")
    run.ob("R-13.1", f"{fn.key}::none-means-invalid", cond_ok,
           f"INVALID_HEADER is not emitted exactly when the regular expression does not match ({why})", fn.node)
    tot_states = st["states"]
    tot_trans = st["transitions"]
    for name, items in mutations():
        m = from_template(items)
        w, st2 = intersection_witness(m, rx)
        tot_states += st2["states"]
        tot_trans += st2["transitions"]
        run.ob("R-13.2", f"{fn.key}::rejects[{name}]", w is None,
               f"a damaged header ({name}) is accepted by the recogniser; shortest accepted member:\n{w}", call,
               product_states=st2["states"])
    run.extra["states"] = tot_states
    run.extra["transitions"] = tot_trans


class _Recorder:
    def __init__(self):
        self.emitted: List[str] = []
        self.searched: List[str] = []      # the strings handed to the regular expression


def simulate_header_machine(prog, seq, rx_ok: bool, sizes=None, class_state=None):
    """CheckHeader.run interpreted (minieval) over a sequence of abstract statements -- "mc" block comment, "oc" // comment,
    "nc" anything else -- with a stub regular expression that matches (rx_ok) or not.  -> (_Recorder, emitted_at indexes)."""
    ch = prog.cls("CheckHeader")
    methods = {("CheckHeader", n): m.node for n, m in ch.methods.items()}
    seen_b, todo_b = set(), list(ch.bases)
    while todo_b:                                   # helpers inherited from Rule / Check (is_starting, is_ending)
        b_ = todo_b.pop()
        if b_ in seen_b or b_ not in prog.classes:
            continue
        seen_b.add(b_)
        for n_, m_ in prog.classes[b_].methods.items():
            if not (n_.startswith("__") and n_.endswith("__")):
                methods.setdefault(("CheckHeader", n_), m_.node)
        todo_b += list(prog.classes[b_].bases)
    ctx = prog.cls("Context")
    for n in ("peek_token", "check_token"):
        methods[("Context", n)] = ctx.methods[n].node
    runm = ch.methods.get("run")
    if runm is None:
        raise AnalysisError("anchor vanished: CheckHeader.run")
    rec = _Recorder()
    context = Obj("Context", header_started=False, header_parsed=False, header="", history=[], tokens=[])

    def new_error(code, tok, rec=rec):
        rec.emitted.append(code)

    def apply(s, *a, rec=rec):
        rec.searched.append(s)
        return Obj("Match") if rx_ok else None

    def compile_(pattern, flags=0):
        return Obj("Pattern", _native={"search": apply, "match": apply, "fullmatch": apply})

    flags = {"DOTALL": 16, "S": 16, "VERBOSE": 64, "X": 64, "MULTILINE": 8, "M": 8, "IGNORECASE": 2, "I": 2, "ASCII": 256, "A": 256}
    remod = {"compile": compile_, "search": lambda p, s, f=0: apply(s), "match": lambda p, s, f=0: apply(s),
             "fullmatch": lambda p, s, f=0: apply(s)}
    remod.update(flags)
    from ..stubrun import ModuleAwareEvaluator
    ev = ModuleAwareEvaluator(prog, methods, natives={("Context", "new_error"): new_error, ("Context", "new_warning"): new_error},
                              modules={"re": remod}, max_steps=200000)
    ev.globals.update({"str": str, "list": list, "tuple": tuple, "print": lambda *a, **k: None})
    # patterns compiled at module level / string constants hoisted there
    for nm, vals in ch.mod.assigns.items():
        if len(vals) == 1 and isinstance(vals[0], ast.Call) and text(vals[0].func) == "re.compile":
            ev.globals[nm] = compile_("", 0)
        elif len(vals) == 1 and isinstance(vals[0], ast.expr):
            v = fold_in_fn(vals[0], runm, default=None)
            if isinstance(v, (str, int, tuple)):
                ev.globals[nm] = v
    # diagnostics filed directly through context.errors.add(...) count like new_error
    def errors_add(name, *a, rec=rec, **k):
        rec.emitted.append(name if isinstance(name, str) else str(getattr(name, "name", "?")))
    errs = Obj("Errors")
    errs.__dict__["_native"] = {"add": errors_add, "append": errors_add}
    context.__dict__["errors"] = errs
    context.__dict__["file"] = Obj("File", errors=errs, basename="file.c", name="file", type=".c", path="file.c")
    context.__dict__["state"] = "running"
    if "Highlight" in prog.classes:
        ev.classes["Highlight"] = prog.classes["Highlight"].node
    # the header state starts as Context.__init__ sets it (two flags today; an enum-valued attribute after a tidy-up)
    init = prog.method("Context", "__init__")
    if init is not None:
        wanted = header_state_attrs(prog) - {"header"}
        for st_ in walk_fn(init.node):
            if isinstance(st_, ast.Assign) and len(st_.targets) == 1 and isinstance(st_.targets[0], ast.Attribute) \
                    and text(st_.targets[0].value) == "self" and st_.targets[0].attr in wanted:
                ev._mods.append(init.mod)
                try:
                    context.__dict__[st_.targets[0].attr] = ev.expr(st_.value, {})
                finally:
                    ev._mods.pop()
    me = Obj("CheckHeader", context=context, name="CheckHeader")
    from ..fold import class_constants
    for k_, v_ in class_constants(ch).items():           # class-level constants read through self
        if class_state is not None:
            v_ = class_state.setdefault(k_, v_)            # the class object outlives the file: same objects for the next one
        me.__dict__.setdefault(k_, v_)
    emitted_at = []
    for i, k in enumerate(seq):
        context.history.append("IsComment" if k in ("mc", "oc") else "IsVarDeclaration")
        if k == "mc":
            body = f"/* {i} */" if not sizes else "/*" + "x" * (sizes[i] - 4) + "*/"
            context.tokens = [Obj("Token", type="MULT_COMMENT", value=body, pos=(i + 1, 1))]
        elif k == "oc":
            context.tokens = [Obj("Token", type="COMMENT", value=f"// {i}", pos=(i + 1, 1))]
        else:
            context.tokens = [Obj("Token", type="INT", value=None, pos=(i + 1, 1))]
        before = len(rec.emitted)
        ev.steps = 0
        ev.call_function(runm.node, {"self": me, "context": context})
        emitted_at += [i] * (len(rec.emitted) - before)
    # the end of the file: a check registered in the `_end` slot is run once more with context.state == "ending"
    if "_end" in registry_model(prog).live_slots("CheckHeader"):
        context.__dict__["state"] = "ending"
        context.tokens = []
        before = len(rec.emitted)
        ev.steps = 0
        ev.call_function(runm.node, {"self": me, "context": context})
        emitted_at += [len(seq)] * (len(rec.emitted) - before)
    return rec, emitted_at


def rule_machine(run, prog):
    run.rule("R-13.3", "typestate: CheckHeader.run interpreted by the analyser over every sequence (length <= 5) of abstract "
             "statements {block comment, other comment, non-comment} x {regex matches, fails}: INVALID_HEADER is emitted at "
             "most once, exactly once when the file does not begin with accepted block comments, never for an accepted header; "
             "the text handed to the recogniser is the concatenation of the leading block comments; CheckHeader is live in "
             "slot _rule", floor=3)
    ch = prog.cls("CheckHeader")
    runm = ch.methods.get("run")
    run.require(runm is not None, "anchor vanished: CheckHeader.run")
    KINDS = ("mc", "oc", "nc")       # block comment first / other comment / non-comment statement
    n_seq = 0
    bad = None
    bad_text = None
    try:
        for L in range(1, 6):
            for seq in itertools.product(KINDS, repeat=L):
                for rx_ok in (True, False):
                    rec, _ = simulate_header_machine(prog, seq, rx_ok)
                    n_seq += 1
                    # expectation
                    lead = 0
                    while lead < len(seq) and seq[lead] == "mc":
                        lead += 1
                    if lead == len(seq):
                        want = 0                       # only header comments so far: nothing decided yet
                    elif lead == 0:
                        want = 1                       # no leading block comment at all
                    elif seq[lead] == "oc":
                        want = 1                       # a // comment inside the leading comments
                    else:
                        want = 0 if rx_ok else 1
                    got = [c for c in rec.emitted if c == "INVALID_HEADER"]
                    if (len(got) != want or len(rec.emitted) != len(got)) and bad is None:
                        bad = (seq, rx_ok, rec.emitted, want)
                    if 0 < lead < len(seq) and seq[lead] == "nc" and bad_text is None:
                        expect = "".join(f"/* {i} */\n" for i in range(lead))
                        if rec.searched != [expect]:
                            bad_text = (seq, rec.searched, expect)
    except Unsupported as e:
        raise Undecided(f"CheckHeader.run is outside the evaluable subset: {e}")
    run.ob("R-13.3", f"{runm.key}::two-flag-machine", bad is None,
           (f"statement sequence {bad[0]} with the regex {'matching' if bad[1] else 'failing'} emits {bad[2]}, expected "
            f"{bad[3]} INVALID_HEADER") if bad else "ok", runm.node, sequences=n_seq)
    # the verdict is the recogniser's, whatever the amount of text: a header may be followed by any number of block comments of
    # any size (they all go to the recogniser, which searches), so no size or count of the accumulated text decides anything
    bad_size = None
    n_size = 0
    try:
        for sizes in ([891], [891, 1000], [891, 10 ** 4], [891, 10 ** 5], [891, 10 ** 6], [891] + [80] * 40, [891] + [8] * 300):
            seq = ("mc",) * len(sizes) + ("nc",)
            for rx_ok in (True, False):
                rec, _ = simulate_header_machine(prog, seq, rx_ok, sizes=sizes + [0])
                n_size += 1
                want = [] if rx_ok else ["INVALID_HEADER"]
                if (rec.emitted != want or len(rec.searched) != 1 or len(rec.searched[0]) != sum(sizes) + len(sizes)) and bad_size is None:
                    bad_size = (sizes, rx_ok, rec.emitted, want, [len(x) for x in rec.searched])
    except Unsupported as e:
        raise Undecided(f"CheckHeader.run is outside the evaluable subset: {e}")
    run.ob("R-13.3", f"{runm.key}::size-independent", bad_size is None,
           (f"leading block comments of {bad_size[0][:3]}{'...' if len(bad_size[0]) > 3 else ''} characters ({len(bad_size[0])} comments) with the "
            f"regex {'matching' if bad_size[1] else 'failing'} emit {bad_size[2]}, expected {bad_size[3]}; the recogniser saw texts of "
            f"{bad_size[4]} characters: a well-formed header followed by a long comment is judged by its size, not by the recogniser")
           if bad_size else "ok", runm.node, evaluations=n_size)
    # the machine of a file starts from nothing: whatever the previous file of the process was (comments only, so that its
    # header was never judged; a // comment; code first), the recogniser gets exactly this file's leading block comments
    bad_carry = None
    n_carry = 0
    try:
        for first in (("mc",), ("mc", "mc"), ("mc", "oc"), ("nc",), ("mc", "nc")):
            for rx_ok in (True, False):
                state = {}
                simulate_header_machine(prog, first, rx_ok, class_state=state)
                rec, _ = simulate_header_machine(prog, ("mc", "nc"), rx_ok, class_state=state)
                alone, _ = simulate_header_machine(prog, ("mc", "nc"), rx_ok)
                n_carry += 1
                if (rec.emitted, rec.searched) != (alone.emitted, alone.searched) and bad_carry is None:
                    bad_carry = (first, rx_ok, rec.emitted, rec.searched, alone.emitted, alone.searched)
    except Unsupported as e:
        raise Undecided(f"CheckHeader.run is outside the evaluable subset: {e}")
    run.ob("R-13.3", f"{runm.key}::fresh-per-file", bad_carry is None,
           (f"after a file whose statements were {bad_carry[0]}, the file (block comment, code) emits {bad_carry[2]} and hands "
            f"{bad_carry[3]!r} to the recogniser; alone it emits {bad_carry[4]} and hands over {bad_carry[5]!r}: text of the "
            f"previous file's comments is judged with this file's header") if bad_carry else "ok", runm.node, evaluations=n_carry)
    rm = registry_model(prog)
    run.ob("R-13.3", f"{ch.key}::runs-on-every-statement", "_rule" in rm.live_slots("CheckHeader"),
           "CheckHeader does not run after every statement (slot _rule): an empty or code first line could pass unnoticed",
           ch.node, slots=rm.live_slots("CheckHeader"))
    ph = ch.methods.get("parse_header")
    run.ob("R-13.3", f"{ch.key}::accumulates-comments", bad_text is None,
           (f"after the statements {bad_text[0]} the recogniser is applied to {bad_text[1]!r}, expected once to {bad_text[2]!r} "
            f"(every leading block comment, in order, each followed by a newline)") if bad_text else "ok",
           ph.node if ph else ch.node)


def header_state_attrs(prog):
    out = set()
    for fn in prog.fns:
        if fn.mod.rel != "rules/check_header.py":
            continue
        for x in walk_fn(fn.node):
            tg = x.targets if isinstance(x, ast.Assign) else [x.target] if isinstance(x, (ast.AugAssign, ast.AnnAssign)) else []
            for t in tg:
                if isinstance(t, ast.Attribute) and text(t.value) == "context":
                    out.add(t.attr)
    return out


def rule_isolation(run, prog):
    run.rule("R-13.4", "OWN: context.header / header_started / header_parsed are touched only in check_header.py and "
             "Context.__init__; INVALID_HEADER is emitted only by CheckHeader", floor=2)
    outside = []
    n = 0
    # the header state = the attributes of the context that check_header.py stores (two flags and the text today; a single
    # enum-valued attribute after a tidy-up is the same state under another name)
    state = header_state_attrs(prog)
    run.require("header" in state and len(state) >= 2, f"anchor vanished: header state attributes (check_header.py stores {sorted(state)})")
    for fn in prog.fns:
        for x in walk_fn(fn.node):
            if isinstance(x, ast.Attribute) and x.attr in state and text(x.value) in ("context", "self", "self.context", "ctx"):
                if text(x.value) == "self" and not (fn.cls is not None and fn.cls.name == "Context"):
                    continue
                n += 1
                if fn.mod.rel != "rules/check_header.py" and fn.key != "context.py::Context.__init__":
                    outside.append((fn, x))
    run.require(n >= 6, "anchor vanished: header state attributes")
    run.ob("R-13.4", "context.py::Context::header-state-private", not outside,
           "header state is used outside CheckHeader: " + ", ".join(f"{f.key}:{x.lineno}" for f, x in outside[:4]),
           outside[0][1] if outside else None)
    others = []
    mine = 0
    for e in emission_sites(prog):
        if e.fn.mod.rel == "errors.py" or (e.fn.cls is not None and e.fn.cls.name == "Context"):
            continue                       # the choke points; their callers are the emitters
        vs = value_set(prog, e.fn, e.code_expr) if e.code_expr is not None else None
        if vs and "INVALID_HEADER" in vs:
            if e.fn.mod.rel == "rules/check_header.py":
                mine += 1
            else:
                others.append(e)
    run.ob("R-13.4", "rules/check_header.py::CheckHeader::sole-emitter", mine >= 1 and not others,
           "INVALID_HEADER is emitted outside CheckHeader: " + ", ".join(e.fn.key for e in others),
           others[0].node if others else None, emitters=mine)


def check(run, prog):
    rule_language(run, prog)
    rule_machine(run, prog)
    rule_isolation(run, prog)
    from .c08_container import rule_container_keeps_all
    rule_container_keeps_all(run, prog, "R-13.5")
    rule_state_option_free(run, prog)


def rule_state_option_free(run, prog, rid="R-13.6"):
    run.rule(rid, "the header recogniser starts in the same state whatever the options: Context.__init__, interpreted with no -R words, "
             "with `CheckDefine`, with an unknown word and with every string constant its own code (and the functions of context.py) "
             "mentions, sets the header state attributes (those check_header.py stores) to the same values", floor=1)
    from .c04 import FormatterBench
    from ..minieval import Unsupported
    from ..xeval import Raised
    ci = prog.fn("context.py::Context.__init__")
    run.require(ci is not None, "anchor vanished: Context.__init__")
    state = sorted(header_state_attrs(prog))
    words = {"x", "CheckDefine", "CheckHeader"}
    for fn in prog.fns:
        if fn.mod.rel == "context.py":
            for c in walk_fn(fn.node):
                if isinstance(c, ast.Constant) and isinstance(c.value, str) and c.value.isidentifier() and len(c.value) > 3:
                    words.add(c.value)
    bad, n = None, 0
    try:
        ref = None
        for av in [None, []] + [[w] for w in sorted(words)]:
            n += 1
            b = FormatterBench(prog)
            f = b.ev.construct("File", ["t.c", "int a;\n"], {})
            for debug in (0, 2):
                try:
                    ctx = b.ev.construct("Context", [f, [], debug] + ([av] if av is not None else []), {})
                except Raised:
                    continue
                got = tuple(repr(ctx.__dict__.get(a)) for a in state)
                if ref is None:
                    ref = got
                elif got != ref and bad is None:
                    bad = (av, debug, dict(zip(state, got)), dict(zip(state, ref)))
    except Unsupported as e:
        raise Undecided(f"Context.__init__ is outside the evaluable subset: {e}")
    run.ob(rid, f"{ci.key}::header-state-option-free", bad is None,
           (f"Context(..., debug={bad[1]}, added_value={bad[0]!r}) starts the header recogniser in the state {bad[2]}, without options it "
            f"is {bad[3]}: an option decides whether INVALID_HEADER can be reported") if bad else "", ci.node, evaluations=n)
