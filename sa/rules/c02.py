"""C02 — every enforced violation is reported (partial): a rule the tool
enforces can only be reported if some reachable statement emits its code from
a check the registry will actually run.  DESIGN.md §4.2."""
from __future__ import annotations

import ast

from ..calls import callgraph
from ..cfg import cfg_of
from ..facts import (catalogue, emission_sites, live_function_keys, registry_model,
                     trivially_dead, value_set)
from ..model import AnalysisError, Undecided, text, walk_fn
from ..fold import Unknown, fold_name

# Frozen on the pinned tree and confirmed by reading (DESIGN.md §4.2): for each
# emitter unit the codes it is responsible for.  The unit is part of the
# obligation because the units run in different slots (a code emitted by
# CheckLineIndent does not cover the continuation-line case of
# CheckAssignationIndent).
ENFORCED = {
    "CheckAssignation": ["MULT_ASSIGN_LINE", "TOO_MANY_INSTR"],
    "CheckAssignationIndent": ["COMMA_START_LINE", "EOL_OPERATOR", "TOO_FEW_TAB", "TOO_MANY_TAB"],
    "CheckBlockStart": ["MULT_IN_SINGLE_INSTR"],
    "CheckBrace": ["BRACE_SHOULD_EOL", "SPC_BEFORE_NL", "TOO_MANY_LINES"],
    "CheckComment": ["COMMENT_ON_INSTR", "WRONG_SCOPE_COMMENT"],
    "CheckCommentLineLen": ["LINE_TOO_LONG"],
    "CheckControlStatement": ["ASSIGN_IN_CONTROL", "EXP_NEWLINE", "FORBIDDEN_CS", "TOO_FEW_TAB", "TOO_MANY_TAB", "WRONG_SCOPE"],
    "CheckEmptyLine": ["CONSECUTIVE_NEWLINES", "EMPTY_LINE_EOF", "EMPTY_LINE_FILE_START", "EMPTY_LINE_FUNCTION",
                       "NL_AFTER_PREPROC", "NL_AFTER_VAR_DECL", "SPACE_EMPTY_LINE"],
    "CheckExpressionStatement": ["RETURN_PARENTHESIS", "SPACE_AFTER_KW"],
    "CheckFuncArgumentsName": ["ARG_TYPE_UKN", "MISSING_IDENTIFIER", "NO_ARGS_VOID", "TAB_INSTEAD_SPC"],
    "CheckFuncDeclaration": ["BRACE_NEWLINE", "EXP_PARENTHESIS", "NEWLINE_PRECEDES_FUNC", "NO_SPC_BFR_PAR",
                             "SPC_BEFORE_NL", "TOO_MANY_ARGS"],
    "CheckFuncSpacing": ["MISSING_TAB_FUNC", "SPACE_BEFORE_FUNC", "TOO_MANY_TABS_FUNC"],
    "CheckFunctionsCount": ["TOO_MANY_FUNCS"],
    "CheckGeneralSpacing": ["TAB_INSTEAD_SPC"],
    "CheckGlobalNaming": ["GLOBAL_VAR_DETECTED", "GLOBAL_VAR_NAMING"],
    "CheckHeader": ["INVALID_HEADER"],
    "CheckIdentifierName": ["FORBIDDEN_CHAR_NAME", "WRONG_SCOPE_FCT"],
    "CheckLabel": ["GOTO_FBIDDEN", "LABEL_FBIDDEN"],
    "CheckLineIndent": ["TOO_FEW_TAB", "TOO_MANY_TAB"],
    "CheckLineLen": ["LINE_TOO_LONG"],
    "CheckManyInstructions": ["TOO_MANY_INSTR"],
    "CheckNestLineIndent": ["EOL_OPERATOR", "TOO_FEW_TAB", "TOO_MANY_TAB"],
    "CheckNewlineIndent": ["TOO_FEW_TAB", "TOO_MANY_TAB"],
    "CheckOperatorsSpacing": ["NO_SPC_AFR_OPR", "NO_SPC_AFR_PAR", "NO_SPC_BFR_OPR", "NO_SPC_BFR_PAR",
                              "SPC_AFTER_OPERATOR", "SPC_AFTER_PAR", "SPC_AFTER_POINTER", "SPC_BFR_OPERATOR",
                              "SPC_BFR_PAR", "SPC_BFR_POINTER"],
    "CheckPreprocessorDefine": ["MACRO_FUNC_FORBIDDEN", "MACRO_NAME_CAPITAL", "PREPROC_CONSTANT"],
    "CheckPreprocessorInclude": ["INCLUDE_HEADER_ONLY", "INCLUDE_START_FILE"],
    "CheckPreprocessorIndent": ["CONSECUTIVE_WS", "PREPOC_ONLY_GLOBAL", "PREPROC_BAD_INDENT", "PREPROC_NO_SPACE",
                                "PREPROC_START_LINE", "TAB_REPLACE_SPACE", "TOO_MANY_WS"],
    "CheckPreprocessorProtection": ["HEADER_PROT_ALL", "HEADER_PROT_ALL_AF", "HEADER_PROT_MULT", "HEADER_PROT_NAME",
                                    "HEADER_PROT_NODEF", "HEADER_PROT_UPPER"],
    "CheckPrototypeIndent": ["ATTR_EOL", "MISALIGNED_FUNC_DECL", "SPACE_REPLACE_TAB"],
    "CheckSpacing": ["CONSECUTIVE_SPC", "MIXED_SPACE_TAB", "SPACE_EMPTY_LINE", "SPACE_REPLACE_TAB", "SPC_BEFORE_NL"],
    "CheckTernary": ["TERNARY_FBIDDEN"],
    "CheckUtypeDeclaration": ["ENUM_TYPE_NAMING", "FORBIDDEN_ENUM", "FORBIDDEN_STRUCT", "FORBIDDEN_TYPEDEF",
                              "FORBIDDEN_UNION", "MISALIGNED_VAR_DECL", "MISSING_TYPEDEF_ID", "NEWLINE_IN_DECL",
                              "NO_TAB_BF_TYPEDEF", "SPACE_REPLACE_TAB", "STRUCT_TYPE_NAMING", "TAB_REPLACE_SPACE",
                              "TYPE_NOT_GLOBAL", "UNION_TYPE_NAMING", "USER_DEFINED_TYPEDEF"],
    "CheckVariableDeclaration": ["DECL_ASSIGN_LINE", "IMPLICIT_VAR_TYPE", "MULT_DECL_LINE", "TOO_MANY_VARS_FUNC",
                                 "VAR_DECL_START_FUNC", "WRONG_SCOPE_VAR"],
    "CheckVariableIndent": ["MISALIGNED_VAR_DECL", "SPACE_REPLACE_TAB", "TAB_REPLACE_SPACE", "VLA_FORBIDDEN"],
    "IsPreprocessorStatement": ["PREPROC_BAD_ELIF", "PREPROC_BAD_ELSE", "PREPROC_BAD_ENDIF", "PREPROC_BAD_IF",
                                "PREPROC_BAD_IFDEF", "PREPROC_BAD_IFNDEF"],
    "Lexer": ["BAD_EXPONENT", "BAD_FLOAT_SUFFIX", "BAD_LEXEME", "CHAR_AS_STRING", "EMPTY_CHAR", "INVALID_BIN_INT",
              "INVALID_HEX_INT", "INVALID_OCT_INT", "INVALID_SUFFIX", "MAXIMAL_MUNCH", "MULTIPLE_DOTS", "MULTIPLE_X",
              "NO_HEX_DIGITS", "UNEXPECTED_EOF_CHR", "UNEXPECTED_EOF_MC", "UNEXPECTED_EOF_STR",
              "UNEXPECTED_EOL_CHR", "UNKNOWN_ESCAPE"],
}

# Frozen on the pinned tree and confirmed against DESIGN.md §4.2: the slots in which each emitting check runs.
# A check may gain slots; losing one means the violations it reports go unnoticed after that statement kind.
# "_rule" = after every recognised statement (equivalent to depending on every runnable primary).
SLOTS = {
    "CheckAssignation": ["IsAssignation"],
    "CheckAssignationIndent": ["IsAssignation", "IsFuncPrototype", "IsFunctionCall", "IsVarDeclaration"],
    "CheckBlockStart": ["IsBlockStart"],
    "CheckBrace": ["IsBlockEnd", "IsBlockStart"],
    "CheckComment": ["_rule"],
    "CheckCommentLineLen": ["IsComment"],
    "CheckControlStatement": ["IsControlStatement"],
    "CheckEmptyLine": ["_rule"],
    "CheckExpressionStatement": ["IsAssignation", "IsCast", "IsControlStatement", "IsExpressionStatement", "IsFunctionCall"],
    "CheckFuncArgumentsName": ["IsFuncDeclaration", "IsFuncPrototype"],
    "CheckFuncDeclaration": ["IsFuncDeclaration", "IsFuncPrototype", "IsUserDefinedType"],
    "CheckFuncSpacing": ["IsFuncDeclaration"],
    "CheckFunctionsCount": ["IsFuncDeclaration"],
    "CheckGeneralSpacing": ["IsAssignation", "IsControlStatement", "IsDeclaration", "IsExpressionStatement", "IsFunctionCall"],
    "CheckGlobalNaming": ["IsVarDeclaration"],
    "CheckHeader": ["_rule"],
    "CheckIdentifierName": ["_rule"],
    "CheckLabel": ["_rule"],
    "CheckLineCount": ["_rule"],
    "CheckLineIndent": ["_rule"],
    "CheckLineLen": ["_rule"],
    "CheckManyInstructions": ["IsAssignation", "IsBlockEnd", "IsControlStatement", "IsExpressionStatement",
                              "IsFuncDeclaration", "IsFuncPrototype", "IsFunctionCall", "IsUserDefinedType", "IsVarDeclaration"],
    "CheckNestLineIndent": ["IsControlStatement", "IsDeclaration", "IsExpressionStatement"],
    "CheckNewlineIndent": ["IsAssignation", "IsCast", "IsDeclaration", "IsExpressionStatement"],
    "CheckOperatorsSpacing": ["IsAssignation", "IsControlStatement", "IsDeclaration", "IsExpressionStatement",
                              "IsFuncDeclaration", "IsFuncPrototype", "IsFunctionCall", "IsVarDeclaration"],
    "CheckPreprocessorDefine": ["IsPreprocessorStatement"],
    "CheckPreprocessorInclude": ["IsPreprocessorStatement"],
    "CheckPreprocessorIndent": ["IsPreprocessorStatement"],
    "CheckPreprocessorProtection": ["IsPreprocessorStatement"],
    "CheckPrototypeIndent": ["IsFuncPrototype"],
    "CheckSpacing": ["_rule"],
    "CheckTernary": ["_rule"],
    "CheckUtypeDeclaration": ["IsUserDefinedType"],
    "CheckVariableDeclaration": ["IsVarDeclaration"],
    "CheckVariableIndent": ["IsVarDeclaration"],
}


# R-2.5 tables (frozen from today's tree).  UNIT_BASE: statement kinds of the check's slots after which run() returns
# before any emission (closed by constant tests on context.history[-1]).  SITE_EXTRA: further kinds closed for the
# emission sites of one code (each entry = the shape of one site today).
_ALL_BUT_EMPTY = ["IsAmbiguousDeclaration", "IsAssignation", "IsBlockEnd", "IsBlockStart", "IsCast", "IsComment",
                  "IsControlStatement", "IsDeclaration", "IsEnumVarDecl", "IsExpressionStatement", "IsFuncDeclaration",
                  "IsFuncPrototype", "IsFunctionCall", "IsLabel", "IsPreprocessorStatement", "IsTernary",
                  "IsUserDefinedType", "IsVarDeclaration"]
_ALL_BUT_FUNC = [x for x in _ALL_BUT_EMPTY if x != "IsFuncDeclaration"] + ["IsEmptyLine"]
UNIT_BASE = {
    "CheckEmptyLine": ["IsComment"],
    "CheckLineIndent": ["IsComment", "IsEmptyLine", "IsPreprocessorStatement"],
    "CheckSpacing": ["IsEmptyLine", "IsPreprocessorStatement"],
}
SITE_EXTRA = {
    ("CheckEmptyLine", "CONSECUTIVE_NEWLINES"): [_ALL_BUT_EMPTY],
    ("CheckEmptyLine", "EMPTY_LINE_EOF"): [_ALL_BUT_EMPTY],
    ("CheckEmptyLine", "EMPTY_LINE_FILE_START"): [_ALL_BUT_EMPTY],
    ("CheckEmptyLine", "EMPTY_LINE_FUNCTION"): [_ALL_BUT_EMPTY],
    ("CheckEmptyLine", "SPACE_EMPTY_LINE"): [_ALL_BUT_EMPTY],
    ("CheckEmptyLine", "NL_AFTER_PREPROC"): [["IsEmptyLine", "IsPreprocessorStatement"]],
    ("CheckEmptyLine", "NL_AFTER_VAR_DECL"): [["IsEmptyLine", "IsVarDeclaration"]],
    ("CheckFuncDeclaration", "EXP_PARENTHESIS"): [["IsUserDefinedType"]],
    ("CheckFuncDeclaration", "NEWLINE_PRECEDES_FUNC"): [["IsFuncPrototype", "IsUserDefinedType"]],
    ("CheckFuncDeclaration", "NO_SPC_BFR_PAR"): [["IsUserDefinedType"]],
    ("CheckFuncDeclaration", "SPC_BEFORE_NL"): [["IsUserDefinedType"]],
    ("CheckFuncDeclaration", "TOO_MANY_ARGS"): [["IsUserDefinedType"]],
    ("CheckHeader", "INVALID_HEADER"): [_ALL_BUT_EMPTY + ["IsEmptyLine"], ["IsComment"]],
    ("CheckIdentifierName", "FORBIDDEN_CHAR_NAME"): [_ALL_BUT_FUNC],
    ("CheckIdentifierName", "WRONG_SCOPE_FCT"): [_ALL_BUT_FUNC],
    ("CheckOperatorsSpacing", "NO_SPC_AFR_PAR"): [["IsFuncDeclaration", "IsFuncPrototype"]],
    ("CheckOperatorsSpacing", "NO_SPC_BFR_PAR"): [["IsFuncDeclaration", "IsFuncPrototype"]],
    ("CheckOperatorsSpacing", "SPC_AFTER_PAR"): [["IsFuncDeclaration", "IsFuncPrototype"]],
    ("CheckOperatorsSpacing", "SPC_BFR_PAR"): [["IsFuncDeclaration", "IsFuncPrototype"]],
}


def _reachable_after(fn, node, last) -> bool:
    """May *node* execute in *fn* when context.history[-1] == last?  Tests on history[-1] with constants are decided,
    every other test is open (over-approximation: unknown = reachable)."""
    from ..cfg import cfg_of
    from .c05 import _cfg_node_of_expr
    from .c19 import _test_value
    g = cfg_of(fn)
    blocked = {}
    for n in g.nodes:
        if n.kind == "test":
            v = _test_value(n.ast, last, assume_global=False, fn=fn)
            if v is not None:
                blocked[n.id] = "F" if v else "T"
    reach = g.reachable(g.entry, follow_exc=False, edge_filter=lambda a, b, lab: not (a in blocked and lab == blocked[a]))
    at = _cfg_node_of_expr(g, node)
    return at is None or at in reach


def site_excluded(prog, rm, unit, e, runnable):
    """Statement kinds (among the check's slots) after which emission site *e* cannot be reached."""
    from ..calls import callgraph
    cg = callgraph(prog)
    slots = set(rm.live_slots(unit))
    prims = set(runnable) if "_rule" in slots else {s for s in slots if s in runnable}
    runfn = prog.method(unit, "run")
    out = []
    for P in sorted(prims):
        r = _reachable_after(e.fn, e.node, P)
        if r and runfn is not None and e.fn is not runfn:
            calls = [c for c in cg.sites.get(e.fn.key, []) if c.caller is runfn]
            if calls and len(calls) == len(cg.sites.get(e.fn.key, [])):
                r = any(_reachable_after(runfn, c.node, P) for c in calls)
        if not r:
            out.append(P)
    return out


def unit_of(fn) -> str:
    f = fn
    while f.outer is not None:
        f = f.outer
    return f.cls.name if f.cls is not None else f.mod.rel


def live_emissions(prog):
    """(unit, code) -> [Emission] for emission sites that are reachable and not trivially dead."""
    live = live_function_keys(prog)
    rm = registry_model(prog)
    live_rule_names = {c.name for c in rm.live_rules()}
    table = {}
    for e in emission_sites(prog):
        if e.code_expr is None:
            continue
        u = unit_of(e.fn)
        if u == "Context" or e.fn.mod.rel == "errors.py":
            continue                      # the choke points themselves
        if e.fn.key not in live or trivially_dead(e.node):
            continue
        if u in prog.classes and prog.is_sub(u, "Rule") and u not in live_rule_names:
            continue
        vs = value_set(prog, e.fn, e.code_expr)
        if vs is None:
            continue
        for v in vs:
            table.setdefault((u, v), []).append(e)
    return table


def run_rules_dispatch(prog, rr):
    """Registry.run_rules interpreted by the analyser (minieval) on stub rule objects: a Primary that matches, a Primary
    that does not, a Check (whatever its run() returns).  Which dependants are handed to the recursive call, and what they
    see of the context, is observed -- not the shape of the code.  Returns {"bad": {"named": [...], "_rule": [...],
    "state": [...]}, "site": {...}, "scenarios": n}."""
    import collections
    from ..minieval import Evaluator, Obj, Raised, Unsupported
    a = rr.node.args
    params = [x.arg for x in a.posonlyargs + a.args]
    if len(params) < 3 or len(params) - len(a.defaults) > 3 or a.vararg or a.kwarg:
        raise AnalysisError(f"{rr.key}: expected the signature (self, context, rule[, optional...]), found {params}")
    reg = prog.cls("Registry")
    methods = {("Registry", n): m.node for n, m in reg.methods.items()}
    bad = {"named": [], "_rule": [], "state": []}
    n_sc = 0
    # (rule classes carry `name` once instantiated: Rule.__new__ stores it on the class)
    named = [Obj("DepClass", tag="named-1", name="named-1"), Obj("DepClass", tag="named-2", name="named-2")]
    every = [Obj("DepClass", tag="_rule-1", name="_rule-1"), Obj("DepClass", tag="_rule-2", name="_rule-2")]
    other = [Obj("DepClass", tag="other", name="other")]
    scenarios = [("Primary", (True, 3)), ("Primary", (False, 0)), ("Primary", (True, 1)),
                 ("Check", None), ("Check", (False, 0)), ("Check", True), ("Check", (True, 5))]
    try:
        for cls_name, result in scenarios:
            n_sc += 1
            seen = []
            ctx = Obj("Context", scope=Obj("Scope", instructions=0), tkn_scope=11, history=[], sub=None, state="running")
            inst = Obj(cls_name, name="R", _native={"run": (lambda res: (lambda *x: res))(result)})

            def recorder(*args, _seen=seen, _ctx=ctx, **kw):
                dep = args[1] if len(args) > 1 else kw.get(params[2])
                _seen.append((dep, args[0] if args else kw.get(params[1]), _ctx.tkn_scope,
                              _ctx.history[-1] if _ctx.history else None))
                return (False, 0)
            def lookup(name, _mod=rr.mod):
                # module-level constants of registry.py (a limit, a tuple of names hoisted out of the method)
                try:
                    return ast.parse(repr(fold_name(name, _mod)), mode="eval").body
                except (Unknown, SyntaxError, ValueError, RecursionError):
                    return None
            ev = Evaluator(methods, natives={("Registry", "run_rules"): recorder}, lookup=lookup)
            deps = collections.defaultdict(list)
            deps["R"] = list(named)
            deps["_rule"] = list(every)
            deps["Other"] = list(other)
            me = Obj("Registry", dependencies=deps)
            desc = f"{cls_name} whose run() returns {result!r}"
            try:
                r = ev.invoke(rr.node, [me, ctx, (lambda o: (lambda *x: o))(inst)], {})
            except (Raised, LookupError, TypeError, ValueError, AttributeError) as e:
                if cls_name == "Check":
                    bad["named"].append(f"for a {desc} run_rules fails with {type(e).__name__} (the result of a check must be ignored)")
                    bad["_rule"].append(bad["named"][-1])
                continue
            matched = cls_name == "Primary" and bool(result[0])
            for which, group in (("named", named), ("_rule", every)):
                got = [d for d, _, _, _ in seen if any(d is x for x in group)]
                if matched:
                    miss = [x.tag for x in group if sum(1 for d in got if d is x) != 1]
                    if miss:
                        bad[which].append(f"after a {desc} the dependants {miss} are not run exactly once")
                elif got:
                    bad[which].append(f"after a {desc} (no match) {len(got)} dependant(s) are run")
            stray = [d for d, _, _, _ in seen if not any(d is x for x in named + every)]
            if stray:
                bad["named"].append(f"after a {desc} run_rules recurses on {len(stray)} rule(s) that do not depend on it")
            if matched:
                for d, c, ts, last in seen:
                    if c is not ctx:
                        bad["state"].append("a dependant is run on another context object")
                    if ts != result[1]:
                        bad["state"].append(f"context.tkn_scope is {ts!r} while `{d.tag}` runs; the primary consumed {result[1]} tokens")
                    if last is not inst:
                        bad["state"].append(f"context.history[-1] is not the matched primary while `{d.tag}` runs")
                if not (isinstance(r, tuple) and len(r) == 2 and r[0] and r[1] == result[1]):
                    bad["state"].append(f"run_rules answers {r!r} for a {desc}")
            elif cls_name == "Primary" and not (isinstance(r, tuple) and len(r) == 2 and not r[0]):
                bad["state"].append(f"run_rules answers {r!r} for a {desc}")
    except Unsupported as e:
        raise Undecided(f"{rr.key} is outside the evaluable subset of the analyser's interpreter: {e}")
    # for the report: the recursive calls
    site = {}
    for n in walk_fn(rr.node):
        if isinstance(n, ast.Call) and isinstance(n.func, ast.Attribute) and n.func.attr == "run_rules":
            site.setdefault("named", n)
            site["_rule"] = n
    for k in bad:
        bad[k] = sorted(set(bad[k]))
    return {"bad": bad, "site": site, "scenarios": n_sc}


def run_offers_primaries(prog, rn):
    """Registry.run interpreted on a stub context, stub primaries (one of them filtered out by its scope tuple) and a recording
    stub for run_rules: [problems] -- or a string (reason) when the function is outside the interpreter's subset."""
    import collections
    from ..minieval import Evaluator, Obj, Raised, Unsupported
    from .c06 import _module_lookup, _stub_globals
    reg = prog.cls("Registry")
    methods = {("Registry", n): m.node for n, m in reg.methods.items()}
    problems = []
    cur, other = Obj("Scope", name="Cur"), Obj("Scope", name="Other")
    prims = [Obj("PrimaryClass", name="P1", scope=()), Obj("PrimaryClass", name="P2", scope=(other,)),
             Obj("PrimaryClass", name="P3", scope=(cur, other)), Obj("PrimaryClass", name="P4", scope=())]
    try:
        for matcher, n_tokens in ((None, 2), ("P3", 2), ("P4", 3), ("P1", 1)):
            tokens = [Obj("Token", type="X", value=None, pos=(1, i + 1)) for i in range(n_tokens)]
            ctx = Obj("Context", tokens=tokens, tkn_scope=0, scope=cur, debug=0, state="", history=[], file=Obj("File", name="f.c", basename="f.c"))
            rounds = [[]]
            events = []

            def run_rules(context, rule, _r=rounds, _m=matcher, _ctx=ctx):
                if isinstance(rule, Obj) and rule._cls == "PrimaryClass":
                    _r[-1].append(rule.name)
                    if rule.name == _m:
                        return (True, len(_ctx.tokens))
                return (False, 0)

            def pop_tokens(n, _ctx=ctx, _r=rounds, _e=events):
                _e.append(("pop", n))
                del _ctx.tokens[:n]
                _r.append([])
            ev = Evaluator(methods, natives={("Registry", "run_rules"): run_rules, ("Context", "pop_tokens"): pop_tokens,
                                             ("Context", "update"): lambda _e=events: _e.append(("update",)),
                                             ("Context", "dprint"): lambda *a: None},
                           lookup=_module_lookup(prog, ["registry.py"]), max_steps=100000)
            ev.globals.update(_stub_globals())
            ev.globals["rules"] = Obj("Rules", primaries=list(prims), checks=[], all=[])
            me = Obj("Registry", dependencies=collections.defaultdict(list))
            raised = None
            try:
                ev.call_function(rn.node, {rn.params[0]: me, rn.params[1]: ctx})
            except Raised as e:
                raised = e.name
            except (LookupError, TypeError, ValueError, AttributeError) as e:
                problems.append(f"Registry.run fails on the stub context: {type(e).__name__}: {e}")
                continue
            eligible = ["P1", "P3", "P4"]
            want_first = eligible if matcher is None else eligible[: eligible.index(matcher) + 1]
            if rounds[0] != want_first:
                problems.append(f"with the current scope accepted by P1, P3, P4 only and {'no primary' if matcher is None else matcher} matching, "
                                f"the primaries offered for the first statement are {rounds[0]}, expected {want_first}")
            if matcher is None and len(rounds) > 1 and rounds[1] != eligible:
                problems.append(f"after an unrecognised token the primaries offered are {rounds[1]}, expected {eligible}")
            if matcher is not None and ("update",) not in events:
                problems.append("context.update() is not called after a match")
    except Unsupported as e:
        if "step budget" in str(e):
            return [f"Registry.run does not terminate on a {n_tokens}-token stub input (a round of primaries that neither matches nor "
                    f"consumes the unrecognised token: rounds seen {[r_[:5] for r_ in rounds[:3]]})"]
        return str(e)
    return sorted(set(problems))


# ------------------------------------------------------------------------------------------------ R-2.6
LIST_BREAKERS = {"insert", "sort", "reverse", "remove", "pop", "clear"}


def _state_lists(prog):
    """Attributes of Scope / Context / PreProcessors objects that start as an empty list in __init__."""
    out = set()
    owners = ["Context", "PreProcessors"] + [c.name for c in prog.subclasses("Scope", strict=False)]
    for cname in owners:
        c = prog.classes.get(cname)
        init = c.methods.get("__init__") if c is not None else None
        if init is None:
            continue
        for n in walk_fn(init.node):
            if isinstance(n, ast.Assign) and ((isinstance(n.value, ast.List) and not n.value.elts) or
                                              (isinstance(n.value, ast.Call) and text(n.value.func) == "list" and not n.value.args)):
                for t in n.targets:
                    if isinstance(t, ast.Attribute) and text(t.value) == "self":
                        out.add(t.attr)
    return out


def rule_last_element(run, prog):
    from ..dataflow import expand_aliases
    from .c03 import dominating_atoms
    run.rule("R-2.6", "contradiction rule, last-element protocol: for every state list (attribute of a Scope / Context / "
             "PreProcessors object created empty) that some rule reads positionally from its end (`<x>.ATTR[-k]`, belief: the "
             "last elements are the ones recorded last), every producer `<y>.ATTR.append(v)` is unconditional with respect to "
             "the list's own content (no test on ATTR dominates it in the CFG), and nothing inserts into / sorts / reverses / "
             "removes from / rebinds ATTR: otherwise `ATTR[-1]` is not the element just recorded and the rule that reads it "
             "checks something else (or nothing)", floor=10)
    lists = _state_lists(prog)
    consumers, producers, breakers = {}, {}, {}

    def attr_of(e, fn):
        x = expand_aliases(fn, e)
        return x.attr if isinstance(x, ast.Attribute) and x.attr in lists else None

    for fn in prog.fns:
        for n in walk_fn(fn.node):
            if isinstance(n, ast.Subscript) and isinstance(n.ctx, ast.Load) and isinstance(n.slice, ast.UnaryOp) \
                    and isinstance(n.slice.op, ast.USub) and isinstance(n.slice.operand, (ast.Constant, ast.Name)):
                a = attr_of(n.value, fn)
                if a:
                    consumers.setdefault(a, {}).setdefault(fn.key, n)
            elif isinstance(n, ast.Call) and isinstance(n.func, ast.Attribute):
                a = attr_of(n.func.value, fn)
                if a and n.func.attr in ("append", "extend"):
                    producers.setdefault(a, []).append((fn, n))
                elif a and n.func.attr in LIST_BREAKERS:
                    breakers.setdefault(a, []).append((fn, n, f".{n.func.attr}()"))
            elif isinstance(n, (ast.Assign, ast.AugAssign, ast.Delete)):
                tg = n.targets if isinstance(n, (ast.Assign, ast.Delete)) else [n.target]
                for t in tg:
                    if isinstance(t, ast.Subscript) and attr_of(t.value, fn):
                        breakers.setdefault(attr_of(t.value, fn), []).append((fn, n, "item / slice store"))
                    elif isinstance(t, ast.Attribute) and t.attr in lists and fn.name != "__init__" and not isinstance(n, ast.Delete) \
                            and not (isinstance(n, ast.AugAssign) and isinstance(n.op, ast.Add)):
                        breakers.setdefault(t.attr, []).append((fn, n, "rebinding"))
    n_triples = 0
    for attr in sorted(consumers):
        cons = consumers[attr]
        prods = producers.get(attr, [])
        brk = breakers.get(attr, [])
        for pf, call in sorted(prods, key=lambda x: (x[0].key, x[1].lineno, x[1].col_offset)):
            guards = [text(atom, 70) for atom, neg, _ in dominating_atoms(pf, call)
                      if any(isinstance(x, ast.Attribute) and x.attr == attr for x in ast.walk(atom))]
            for ckey in sorted(cons):
                n_triples += 1
                run.ob("R-2.6", f"{pf.key}::last-element[{attr}]<-{ckey.split('::')[-1]}", not guards and not brk,
                       f"{ckey.split('::')[-1]} reads `{text(cons[ckey], 40)}` as the element just recorded, but "
                       + (f"this append to {attr} only happens when `{guards[0]}` holds (a test on the list itself: a value "
                          f"already present is not appended again, so the last element is an older one)" if guards else
                          f"{brk[0][0].qual} changes the order / content of {attr} ({brk[0][2]} at line {brk[0][1].lineno})"
                          if brk else "ok"),
                       call if guards or not brk else brk[0][1], producer=pf.key, consumer=ckey)
    run.note("R-2.6: positional readers per state list: " + ", ".join(f"{a}: {len(c)}" for a, c in sorted(consumers.items()))
             + "; lists never read from the end: " + ", ".join(sorted(lists - set(consumers))))
    run.require(n_triples >= 10, f"only {n_triples} (list, producer, consumer) triples found (floor 10)")


def check(run, prog):
    rm = registry_model(prog)
    run.require(len(rm.primaries) >= 19, f"only {len(rm.primaries)} Primary rules found (floor 19)")
    run.require(len(rm.checks) >= 39, f"only {len(rm.checks)} Check rules found (floor 39)")

    # ---- R-2.1 trigger liveness -------------------------------------------
    run.rule("R-2.1", "REG: every Check subclass has >= 1 live slot (an existing, runnable Primary or _start/_rule/_end); "
             "every Primary can pass the scope filter", floor=58)
    for c in rm.checks:
        live = rm.live_slots(c.name)
        dangling = [d for d in rm.depends_on[c.name] if d not in rm.primary_names]
        if dangling and live:
            run.note(f"{c.name}: depends_on names without a Primary class {dangling} (harmless: {len(live)} live slots)")
        run.ob("R-2.1", f"{c.key}::slots", bool(live),
               f"check {c.name} is never run: depends_on={rm.depends_on[c.name]} flags={rm.flags[c.name]} "
               f"(dangling: {dangling})", c.node, live_slots=live)
    for c in rm.primaries:
        sc = rm.scope[c.name]
        ok = rm.primary_can_run(c.name)
        bad = [] if sc is None else [s for s in sc if s not in rm.scope_classes]
        run.ob("R-2.1", f"{c.key}::scope", ok and not bad,
               f"primary {c.name} has a scope filter that no Scope class satisfies / non-Scope elements: {sc}",
               c.node, scope=sc)
        m = prog.method(c.name, "run")
        own = m is not None and m.cls is not None and m.cls.name not in ("Primary", "Check", "Rule")
        run.ob("R-2.1", f"{c.key}::run", own, f"primary {c.name} does not define run()", c.node)
    # every rule module still defines a rule (a module that lost its class would silently drop checks)
    for rel, mod in sorted(prog.mods.items()):
        if rel.startswith("rules/") and (rel.startswith("rules/check_") or rel.startswith("rules/is_")):
            has = any(prog.is_sub(c.name, "Rule") for c in mod.classes.values())
            run.ob("R-2.1", f"{rel}::module", has, "rule module defines no Rule subclass", mod.tree)

    # ---- R-2.4 slot coverage ---------------------------------------------------
    run.rule("R-2.4", "REG: every emitting check still runs in each slot of the frozen slot table (statement kinds after "
             "which it is triggered); `_rule` counts as every runnable primary", floor=30)
    runnable = {c.name for c in rm.primaries if rm.primary_can_run(c.name)}
    for cname, want in sorted(SLOTS.items()):
        if cname not in prog.classes:
            run.ob("R-2.4", f"rules::{cname}::slots", False, f"check class {cname} no longer exists", None)
            continue
        live = set(rm.live_slots(cname))
        if "_rule" in live:
            live |= runnable
        need = set(want)
        if "_rule" in need and "_rule" not in live:
            need = (need - {"_rule"}) | runnable
        lost = sorted(need - live)
        run.ob("R-2.4", f"{prog.classes[cname].key}::slots-kept", not lost,
               f"{cname} no longer runs after {lost}: the violations it reports are missed in those statements",
               prog.classes[cname].node, frozen=want, live=sorted(rm.live_slots(cname)))

    # ---- R-2.2 emitter exhaustiveness ---------------------------------------
    run.rule("R-2.2", "EMIT: for every (emitter unit, enforced code) of the frozen table there is >= 1 emission site "
             "whose code value set contains it, reachable from a live rule / the lexer, not trivially dead", floor=145)
    table = live_emissions(prog)
    for unit, codes in sorted(ENFORCED.items()):
        where = prog.classes[unit].key if unit in prog.classes else unit
        for code in codes:
            sites = table.get((unit, code), [])
            run.ob("R-2.2", f"{where}::emit[{code}]", bool(sites),
                   f"no live emission site for {code} in {unit}",
                   sites[0].node if sites else (prog.classes[unit].node if unit in prog.classes else None),
                   sites=len(sites))
    extra = sorted({f"{u}:{c}" for (u, c) in table if c not in ENFORCED.get(u, [])})
    if extra:
        run.note("live emissions outside the frozen table (not obligations): " + ", ".join(extra))
    cat = catalogue(prog)
    enforced_codes = {c for cs in ENFORCED.values() for c in cs}
    run.note(f"{len(enforced_codes)} enforced codes; catalogue entries never emitted: "
             + ", ".join(sorted(set(cat) - {c for (_, c) in table})))

    # ---- R-2.5 statement kinds closed by history tests ------------------------------
    run.rule("R-2.5", "REG x EMIT: for every live emission site of an enforced code in a Check, the statement kinds of the "
             "check's slots after which the site cannot be reached (paths closed by constant tests on context.history[-1] in "
             "run() or in the helper holding the site) stay within the frozen tables UNIT_BASE / SITE_EXTRA: a new "
             "`history[-1] != X` guard silently removes the rule from X statements", floor=105)
    seen = {}
    for unit, codes in sorted(ENFORCED.items()):
        if unit not in prog.classes or not prog.is_sub(unit, "Check"):
            continue
        for code in codes:
            for e in sorted(table.get((unit, code), []), key=lambda e: (e.fn.key, e.node.lineno, e.node.col_offset)):
                ex = set(site_excluded(prog, rm, unit, e, runnable))
                base = set(UNIT_BASE.get(unit, []))
                allowed = [base | set(x) for x in SITE_EXTRA.get((unit, code), [[]])]
                ok = any(ex <= a for a in allowed)
                new = sorted(min((ex - a for a in allowed), key=len))
                k = f"{e.fn.key}::kinds[{code}]"
                seen[k] = seen.get(k, 0) + 1
                run.ob("R-2.5", k if seen[k] == 1 else f"{k}#{seen[k]}", ok,
                       f"{code} can no longer be reported from this site in statements recognised by {new}: every path to "
                       f"it is closed by a test on context.history[-1]", e.node, excluded=sorted(ex))

    # ---- R-2.3 dispatch ----------------------------------------------------------
    run.rule("R-2.3", "MPT: Registry.run_rules runs the dependants of the matched rule and the _rule checks on the "
             "matched path; Registry.run offers every primary (only the scope filter skips)", floor=4)
    rr = prog.fn("registry.py::Registry.run_rules")
    facts = run_rules_dispatch(prog, rr)
    for which in ("named", "_rule"):
        bad = facts["bad"][which]
        run.ob("R-2.3", f"{rr.key}::loop[{which}]", not bad,
               f"run_rules does not run the {which} dependants under the matched-rule guard: " + "; ".join(bad[:3]),
               facts["site"].get(which) or rr.node, scenarios=facts["scenarios"])
    bad = facts["bad"]["state"]
    run.ob("R-2.3", f"{rr.key}::dependants-see-statement", not bad,
           "the dependants of a matched primary do not see the statement just recognised: " + "; ".join(bad[:3]), rr.node)
    rn = prog.fn("registry.py::Registry.run")
    prim_loop = None
    for n in walk_fn(rn.node):
        if isinstance(n, ast.For) and text(n.iter).endswith("primaries"):
            prim_loop = n
    offered = run_offers_primaries(prog, rn)
    if isinstance(offered, str):
        # outside the interpreter's subset: the syntactic form
        run.note(f"R-2.3: Registry.run not interpreted ({offered}); syntactic form used")
        ok = prim_loop is not None
        conts = []
        if prim_loop is not None:
            for n in ast.walk(prim_loop):
                if isinstance(n, ast.Continue):
                    conts.append(n)
            for cnt in conts:
                p = _if_ancestors(cnt)
                if not p or "scope" not in text(p[0].test):
                    ok = False
            calls = [c for c in ast.walk(prim_loop) if isinstance(c, ast.Call) and isinstance(c.func, ast.Attribute)
                     and c.func.attr == "run_rules"]
            ok = ok and len(calls) == 1
        why = ""
    else:
        ok, why = not offered, "; ".join(offered[:2])
    run.ob("R-2.3", f"{rn.key}::primaries-loop", ok,
           "Registry.run does not offer every primary (loop over rules.primaries with only the scope-filter continue) " + why,
           prim_loop or rn.node)
    # the value iterated is the full sorted primaries list; rule discovery imports every module of the rules directory
    # (Rules.__init__ run by the analyser's interpreter on stub classes and a stub directory listing, see c06.registry_semantics)
    from .c06 import registry_semantics
    sem = registry_semantics(prog)
    rules_init = prog.fn("rules/__init__.py::Rules.__init__")
    src = None
    for n in walk_fn(rules_init.node):
        if isinstance(n, ast.Assign) and text(n.targets[0]) == "self.primaries":
            src = n
    imp = [n for n in walk_fn(rules_init.node) if isinstance(n, ast.Call) and text(n.func).endswith("import_module")]
    if "rules_init" in sem["unsupported"]:
        run.note(f"R-2.3: Rules.__init__ not interpreted ({sem['unsupported']['rules_init']}); syntactic form used")
        ok = src is not None and "Primary.__subclasses__()" in text(src.value, 400)
        inloop = [n for n in imp if any(isinstance(a, ast.For) and "listdir" in text(a.iter) for a in _ancestors(n))]
        ok2 = bool(inloop)
        why = why2 = ""
    else:
        ok, why = not sem["primaries"], "; ".join(sem["primaries"][:2])
        ok2, why2 = not sem["discovery"], "; ".join(sem["discovery"][:2])
    run.ob("R-2.3", f"{rules_init.key}::primaries", ok,
           "Rules.primaries is not built from Primary.__subclasses__() " + why, src or rules_init.node)
    run.ob("R-2.3", f"{rules_init.key}::discovery", ok2,
           "Rules.__init__ no longer imports every module listed in the rules directory " + why2,
           imp[0] if imp else rules_init.node)
    # the registry model used by R-2.1 / R-2.4 / R-2.5 assumes what Check.__init_subclass__ / Check.register /
    # Registry.__init__ do; that assumption is observed on stub classes
    for part, fnkey, what in (("init_subclass", "rules/rule.py::Check.__init_subclass__", "the flags a Check class gets"),
                              ("register", "rules/rule.py::Check.register", "the slots a Check class is registered in")):
        if part in sem["unsupported"] or (part == "register" and "registry_init" in sem["unsupported"]):
            run.note(f"R-2.3: {fnkey} not interpreted ({sem['unsupported']}); the registry model is taken on trust")
            continue
        run.ob("R-2.3", f"{fnkey}::as-modelled", not sem[part],
               f"{what} differ from the registry model the other rules are built on: " + "; ".join(sem[part][:2]),
               prog.fn(fnkey).node)


    rule_last_element(run, prog)
    from .c02_condition_scan import rule_condition_scan
    rule_condition_scan(run, prog)           # R-2.7
    from .snippet_rules import rule_continuation_indent
    rule_continuation_indent(run, prog)      # R-2.8
    from .snippet_rules import rule_operator_spacing
    rule_operator_spacing(run, prog)         # R-2.9
    from .c02_filetype import rule_file_kind
    rule_file_kind(run, prog)                # R-2.10
    from .snippet_rules import rule_vla_sizes
    rule_vla_sizes(run, prog)                # R-2.11
    from .snippet_rules import rule_global_prefix
    rule_global_prefix(run, prog)            # R-2.12


def _ancestors(n):
    from ..model import ancestors
    return list(ancestors(n))


def _if_ancestors(n):
    out = []
    from ..model import ancestors, parent
    cur = n
    for a in ancestors(n):
        if isinstance(a, ast.If) and any(cur is s for s in a.body):
            out.append(a)
        if isinstance(a, (ast.FunctionDef, ast.AsyncFunctionDef)):
            break
        cur = a
    return out
