"""C16 — options change the presentation, never the findings.  DESIGN.md §4.16."""
from __future__ import annotations

import ast
from typing import Dict, List, Optional, Set

from ..calls import callgraph
from ..cfg import cfg_of
from ..facts import emission_sites, value_set
from ..model import AnalysisError, Fn, ancestors, parent, text, walk_fn
from .c05 import _cfg_node_of_expr
from .c07 import _value_when_debug_zero

DEBUG_ATTRS = ("context.debug", "self.debug", "self.context.debug", "ctx.debug")


def _debug_reads(fn: Fn) -> List[ast.AST]:
    out = []
    for n in walk_fn(fn.node):
        if isinstance(n, ast.Attribute) and n.attr == "debug" and isinstance(n.ctx, ast.Load) and text(n) != "args.debug":
            out.append(n)
    return out


def _value_when_debug(test, level: int):
    """Truth value of a pure debug test for a given level (None if the test is not a pure function of the level)."""
    import copy

    class Sub(ast.NodeTransformer):
        ok = True

        def visit_Attribute(self, node):
            if text(node) in DEBUG_ATTRS:
                return ast.copy_location(ast.Constant(level), node)
            self.ok = False
            return node

        def visit_Name(self, node):
            self.ok = False
            return node

        def visit_Call(self, node):
            self.ok = False
            return node

    sub = Sub()
    e = sub.visit(ast.parse(ast.unparse(test), mode="eval").body)
    if not sub.ok or not any(isinstance(n, ast.Constant) for n in ast.walk(e)):
        return None
    try:
        return bool(eval(compile(ast.fix_missing_locations(ast.Expression(e)), "<debug-test>", "eval"), {"__builtins__": {}}))
    except Exception:
        return None


def _is_presentation_stmt(st, marker_names: Set[str]) -> bool:
    """print / dprint / pass / raise / maintenance of a marker variable that only feeds such statements."""
    if isinstance(st, ast.Pass):
        return True
    if isinstance(st, ast.Raise):
        return True
    if isinstance(st, ast.Expr) and isinstance(st.value, ast.Call):
        f = text(st.value.func)
        if f == "print" or f.endswith(".dprint") or f.endswith("print"):
            return True
        if isinstance(st.value.func, ast.Attribute) and isinstance(st.value.func.value, ast.Name) \
                and st.value.func.value.id in marker_names and st.value.func.attr in ("append", "clear", "extend"):
            return True
    if isinstance(st, ast.Expr) and isinstance(st.value, ast.Constant):
        return True
    if isinstance(st, ast.Assign) and all(isinstance(t, ast.Name) and t.id in marker_names for t in st.targets):
        return True
    if isinstance(st, ast.Return) and st.value is None:
        return True
    return False


def _marker_names(fn: Fn) -> Set[str]:
    """Local names every read of which is in the test of an `if` controlling only presentation statements / debug
    tests, or inside a raise / print argument."""
    cands: Set[str] = set()
    for n in walk_fn(fn.node):
        if isinstance(n, ast.Assign) and len(n.targets) == 1 and isinstance(n.targets[0], ast.Name) \
                and isinstance(n.value, (ast.List, ast.Constant)):
            cands.add(n.targets[0].id)
    out = set()
    for name in cands:
        ok = True
        for n in walk_fn(fn.node):
            if isinstance(n, ast.Name) and n.id == name and isinstance(n.ctx, ast.Load):
                p = parent(n)
                # allowed: receiver of append/clear; inside a raise / print; in an If test
                if isinstance(p, ast.Attribute) and p.attr in ("append", "clear", "extend"):
                    continue
                if any(isinstance(a, ast.Raise) or (isinstance(a, ast.Call) and text(a.func) == "print") for a in ancestors(n)):
                    continue
                iff = next((a for a in ancestors(n) if isinstance(a, ast.If) and _inside(n, a.test)), None)
                if iff is None:
                    ok = False
                    break
                if not all(_presentation_block(s, {name}) for s in iff.body + iff.orelse):
                    ok = False
                    break
        if ok:
            out.add(name)
    return out


def _presentation_block(st, markers) -> bool:
    if _is_presentation_stmt(st, markers):
        return True
    if isinstance(st, ast.If):
        pure = _value_when_debug(st.test, 0) is not None or all(
            isinstance(x, (ast.Name, ast.Compare, ast.List, ast.Load, ast.NotEq, ast.Eq, ast.Constant, ast.UnaryOp, ast.Not))
            and (not isinstance(x, ast.Name) or x.id in markers) for x in ast.walk(st.test))
        return pure and all(_presentation_block(s, markers) for s in st.body + st.orelse)
    return False


def _inside(node, container) -> bool:
    x = node
    while x is not None:
        if x is container:
            return True
        x = parent(x)
    return False


def rule_debug(run, prog):
    run.rule("R-16.1", "TAINT debug: every read of the debug level is a pure test on the level or a print argument; the CFG "
             "nodes whose reachability depends on the level (reachable for level 0 xor for level 1/2) are presentation / "
             "fatality statements only (print, dprint, pass, raise, upkeep of a marker variable that only feeds those)", floor=5)
    n_reads = 0
    for fn in prog.fns:
        if fn.mod.rel == "__main__.py":
            continue
        reads = _debug_reads(fn)
        if not reads:
            continue
        g = cfg_of(fn)
        markers = _marker_names(fn)
        # 1. each read is in a pure test, a print, or the constructor's own store
        for r in reads:
            n_reads += 1
            key = f"{fn.key}::debug-read[{text(enclosing_test_or_stmt(r), 40)}]"
            st = r
            while not isinstance(st, ast.stmt):
                st = parent(st)
            test = next((a.test for a in ancestors(r) if isinstance(a, (ast.If, ast.While, ast.IfExp)) and _inside(r, a.test)), None)
            if test is not None:
                pure = _value_when_debug(test, 0) is not None
                if not pure:
                    # mixed test: everything it controls must be presentation only
                    iff = next(a for a in ancestors(r) if isinstance(a, (ast.If, ast.While, ast.IfExp)) and _inside(r, a.test))
                    ok = isinstance(iff, ast.If) and all(_presentation_block(s, markers) for s in iff.body + iff.orelse)
                    run.ob("R-16.1", key, ok,
                           "the debug level is combined with other conditions in a test that controls more than printing / "
                           "fatality: findings may differ between -d levels", r)
                else:
                    run.ob("R-16.1", key, True, "pure level test", r)
                continue
            in_print = any(isinstance(a, ast.Call) and (text(a.func) == "print" or text(a.func).endswith("dprint")) for a in ancestors(r))
            run.ob("R-16.1", key, in_print,
                   f"the debug level flows into `{text(st, 60)}`: it is used as data, not only to decide about printing", r)
        # 2. level-dependent regions
        def edges_for(levels):
            blocked = {}
            for node in g.nodes:
                if node.kind == "test":
                    vals = {_value_when_debug(node.ast, l) for l in levels}
                    if None in vals:
                        continue
                    if vals == {True}:
                        blocked[node.id] = "F"
                    elif vals == {False}:
                        blocked[node.id] = "T"
            return blocked

        b0 = edges_for([0])
        b12 = edges_for([1, 2])
        r0 = g.reachable(g.entry, follow_exc=False, edge_filter=lambda n, m, lab: not (n in b0 and lab == b0[n]))
        r12 = set()
        for lv in (1, 2):
            bl = edges_for([lv])
            r12 |= g.reachable(g.entry, follow_exc=False, edge_filter=lambda n, m, lab, bl=bl: not (n in bl and lab == bl[n]))
        dependent = (r0 ^ r12)
        bad = []
        dep_nodes = {nid for nid in dependent}
        for nid in sorted(dependent):
            node = g.nodes[nid]
            a = node.ast
            if node.kind != "stmt" or a is None:
                continue                # tests / loop heads / handlers: control flow alone changes nothing
            if _is_presentation_stmt(a, markers):
                continue
            if isinstance(a, (ast.Assign, ast.AugAssign)):
                tg = a.targets if isinstance(a, ast.Assign) else [a.target]
                names = [t.id for t in tg if isinstance(t, ast.Name)]
                if len(names) == len(tg):
                    # a local written only here: harmless if it is never read outside the level-dependent region
                    leak = False
                    for x in walk_fn(fn.node):
                        if isinstance(x, ast.Name) and x.id in names and isinstance(x.ctx, ast.Load):
                            xn = _cfg_node_of_expr(g, x)
                            if xn is not None and xn not in dep_nodes and not any(
                                    isinstance(c, ast.Call) and text(c.func) == "print" for c in ancestors(x)):
                                leak = True
                    if not leak:
                        continue
            if isinstance(a, (ast.Break, ast.Continue)):
                continue
            bad.append(a)
        run.ob("R-16.1", f"{fn.key}::level-dependent-region", not bad,
               "statements that run only for some debug levels do more than print or abort: "
               + "; ".join(f"line {getattr(b, 'lineno', '?')}: {text(b, 50)}" for b in bad[:3]),
               bad[0] if bad else fn.node, dependent_nodes=len(dependent), markers=sorted(markers))
    run.require(n_reads >= 4, f"only {n_reads} reads of the debug level found (floor 4)")
    # the level is stored once, as an int, and never written again
    writes = []
    for fn in prog.fns:
        for n in walk_fn(fn.node):
            tg = n.targets if isinstance(n, ast.Assign) else [n.target] if isinstance(n, (ast.AugAssign, ast.AnnAssign)) else []
            for t in tg:
                if isinstance(t, ast.Attribute) and t.attr == "debug":
                    writes.append((fn, n))
    run.ob("R-16.1", "context.py::Context::debug-written-once", len(writes) == 1 and writes[0][0].key == "context.py::Context.__init__",
           "the debug level is (re)written outside Context.__init__: " + ", ".join(f.key for f, _ in writes), None)


def enclosing_test_or_stmt(n):
    for a in ancestors(n):
        if isinstance(a, (ast.If, ast.While)) and _inside(n, a.test):
            return a.test
        if isinstance(a, ast.stmt):
            return a
    return n


def rule_R(run, prog):
    run.rule("R-16.2", "TAINT -R: args.R reaches only Context's added_value, there only the membership test for "
             "'CheckDefine' stored in preproc.skip_define; skip_define is read only by CheckPreprocessorDefine.run, after "
             "the `define` test, as an early return in front of code that only emits that class's #define-value codes", floor=4)
    main = prog.fn("__main__.py::main")
    r_reads = [n for n in walk_fn(main.node) if isinstance(n, ast.Attribute) and text(n) == "args.R"]
    ok = len(r_reads) == 1
    if ok:
        p = parent(r_reads[0])
        ok = isinstance(p, ast.Call) and text(p.func) == "Context" and (
            (len(p.args) >= 4 and p.args[3] is r_reads[0]) or any(k.arg == "added_value" and k.value is r_reads[0] for k in p.keywords))
    run.ob("R-16.2", f"{main.key}::args.R", ok, "args.R is used for something other than Context(..., added_value)",
           r_reads[0] if r_reads else main.node)
    # the option is list-valued (nargs / append): Context tests `"CheckDefine" in added_value`, which is exact word
    # membership on a list but a substring test on a plain string
    defs = [n for n in walk_fn(main.node) if isinstance(n, ast.Call) and isinstance(n.func, ast.Attribute)
            and n.func.attr == "add_argument" and n.args and isinstance(n.args[0], ast.Constant) and n.args[0].value == "-R"]
    listy = False
    if len(defs) == 1:
        kw = {k.arg: k.value for k in defs[0].keywords}
        na = kw.get("nargs")
        act = kw.get("action")
        listy = (isinstance(na, ast.Constant) and (na.value in ("+", "*") or (isinstance(na.value, int) and na.value >= 1))) or \
                (isinstance(act, ast.Constant) and act.value in ("append", "extend"))
    run.ob("R-16.2", f"{main.key}::R-is-a-word-list", len(defs) == 1 and listy,
           "-R is not declared list-valued (nargs / action=append) while Context tests `'CheckDefine' in added_value`: on a plain "
           "string that is a substring test, so an unknown word such as CheckDefines switches the #define checks off",
           defs[0] if defs else main.node)
    ci = prog.fn("context.py::Context.__init__")
    uses = [n for n in walk_fn(ci.node) if isinstance(n, ast.Name) and n.id == "added_value" and isinstance(n.ctx, ast.Load)]
    ok = len(uses) == 1
    if ok:
        st = uses[0]
        while not isinstance(st, ast.stmt):
            st = parent(st)
        ok = isinstance(st, ast.Assign) and text(st.targets[0]) == "self.preproc.skip_define" and \
            isinstance(st.value, ast.Compare) and isinstance(st.value.ops[0], ast.In) and text(st.value.left) == "'CheckDefine'"
    run.ob("R-16.2", f"{ci.key}::added_value", ok,
           "added_value is used for more than the 'CheckDefine' membership test stored in preproc.skip_define",
           uses[0] if uses else ci.node)
    readers = []
    for fn in prog.fns:
        for n in walk_fn(fn.node):
            if isinstance(n, ast.Attribute) and n.attr == "skip_define" and isinstance(n.ctx, ast.Load):
                readers.append((fn, n))
    cd = prog.method("CheckPreprocessorDefine", "run")
    ok = len(readers) >= 1 and all(f is cd for f, _ in readers)
    run.ob("R-16.2", "context.py::PreProcessors::skip_define-readers", ok,
           "preproc.skip_define is read outside CheckPreprocessorDefine.run: " + ", ".join(f.key for f, _ in readers if f is not cd),
           next((n for f, n in readers if f is not cd), None))
    if cd is not None and readers:
        g = cfg_of(cd)
        rd = [n for f, n in readers if f is cd][0]
        iff = next((a for a in ancestors(rd) if isinstance(a, ast.If) and _inside(rd, a.test)), None)
        early = iff is not None and len(iff.body) == 1 and isinstance(iff.body[0], ast.Return) and not iff.orelse
        define_tests = [g.nid(n.test) for n in walk_fn(cd.node) if isinstance(n, ast.If) and "'define'" in text(n.test)]
        dom = early and define_tests and any(t is not None and g.dominates(t, g.nid(iff.test), follow_exc=False) for t in define_tests)
        # after the test: no stores to attributes (shared state), only emissions of the class's codes
        stores = []
        if iff is not None:
            after = False
            for s in cd.node.body:
                if s is iff:
                    after = True
                    continue
                if after:
                    for x in ast.walk(s):
                        if isinstance(x, (ast.Assign, ast.AugAssign)):
                            tg = x.targets if isinstance(x, ast.Assign) else [x.target]
                            if any(isinstance(t, (ast.Attribute, ast.Subscript)) for t in tg):
                                stores.append(x)
        codes = set()
        for e in emission_sites(prog):
            if e.fn is cd and e.code_expr is not None:
                codes |= value_set(prog, cd, e.code_expr) or {"?"}
        ok = bool(dom) and not stores and codes <= {"MACRO_NAME_CAPITAL", "MACRO_FUNC_FORBIDDEN", "PREPROC_CONSTANT"}
        run.ob("R-16.2", f"{cd.key}::skip_define-effect", ok,
               "-R CheckDefine does more (or less) than suppressing the #define-value diagnostics: "
               f"early return after the define test: {bool(dom)}, stores after it: {[text(s, 40) for s in stores[:2]]}, codes: {sorted(codes)}",
               iff if iff is not None else cd.node)


def rule_presentation_options(run, prog):
    run.rule("R-16.3", "presentation options: every args.<option> read in main is consumed in its allowed place (file "
             "selection, formatter choice, use_colors, debug, -R); none reaches Lexer / Registry; use_colors only colours "
             "the text field", floor=6)
    main = prog.fn("__main__.py::main")
    allowed = {
        "file": "selection", "cfile": "selection", "hfile": "selection", "filename": "selection", "use_gitignore": "selection",
        "debug": "debug", "R": "R", "format": "format", "no_colors": "colors", "only_filename": "unused", "version": "unused",
    }
    for n in walk_fn(main.node):
        if isinstance(n, ast.Attribute) and isinstance(n.value, ast.Name) and n.value.id == "args" and isinstance(n.ctx, ast.Load):
            opt = n.attr
            key = f"{main.key}::option[{opt}]"
            role = allowed.get(opt)
            calls = [a for a in ancestors(n) if isinstance(a, ast.Call)]
            into = [text(c.func) for c in calls]
            if role is None or role == "unused":
                # a new / so far unused option: fine as long as it stays out of the analysis pipeline
                st = n
                while not isinstance(st, ast.stmt):
                    st = parent(st)
                leaks = any(f in ("Lexer", "Context", "registry.run", "File", "Registry") for f in into)
                # stored into a local that later reaches the pipeline?
                if isinstance(st, ast.Assign) and len(st.targets) == 1 and isinstance(st.targets[0], ast.Name):
                    nm = st.targets[0].id
                    for x in walk_fn(main.node):
                        if isinstance(x, ast.Name) and x.id == nm and isinstance(x.ctx, ast.Load) and any(
                                isinstance(c, ast.Call) and text(c.func) in ("Lexer", "Context", "registry.run", "File", "Registry")
                                for c in ancestors(x)):
                            leaks = True
                run.ob("R-16.3", key, not leaks, f"option args.{opt} reaches the analysis pipeline (Lexer / Context / registry / File)", n)
            elif role == "format":
                ok = not any(f in ("Lexer", "Context", "registry.run", "File") for f in into)
                run.ob("R-16.3", key, ok, "args.format reaches the analysis pipeline", n)
            elif role == "colors":
                ok = any(isinstance(c, ast.Call) and text(c.func) == "format" and any(k.arg == "use_colors" and _inside(n, k.value) for k in c.keywords)
                         for c in calls)
                run.ob("R-16.3", key, ok, "args.no_colors is used for something other than the formatter's use_colors", n)
            elif role == "debug":
                st = n
                while not isinstance(st, ast.stmt):
                    st = parent(st)
                ok = isinstance(st, ast.Assign) and text(st.targets[0]) == "debug"
                run.ob("R-16.3", key, ok, "args.debug is used for something other than the debug level passed to Context", n)
            elif role == "R":
                run.ob("R-16.3", key, True, "see R-16.2", n)
            elif role == "selection":
                ok = not any(f in ("Lexer", "Context", "registry.run") for f in into)
                run.ob("R-16.3", key, ok, f"args.{opt} reaches the analysis pipeline", n)
            else:
                run.ob("R-16.3", key, True, "not pipeline-relevant", n)
    # the `debug` local goes to Context only
    duses = [n for n in walk_fn(main.node) if isinstance(n, ast.Name) and n.id == "debug" and isinstance(n.ctx, ast.Load)]
    ok = len(duses) >= 1 and all(isinstance(parent(u), ast.Call) and text(parent(u).func) == "Context" for u in duses)
    run.ob("R-16.3", f"{main.key}::debug-local", ok, "main uses the debug level for something other than Context(...)",
           duses[0] if duses else main.node)
    # use_colors
    uc = []
    for fn in prog.fns:
        for n in walk_fn(fn.node):
            if (isinstance(n, ast.Attribute) and n.attr == "use_colors" and isinstance(n.ctx, ast.Load)) or \
                    (isinstance(n, ast.Constant) and n.value == "use_colors"):
                uc.append((fn, n))
    ok = bool(uc) and all(f.cls is not None and f.cls.name == "HumanizedErrorsFormatter" and f.name in ("use_colors", "_colorize_error_text")
                          or f.key == "__main__.py::main" for f, _ in uc)
    run.ob("R-16.3", "errors.py::HumanizedErrorsFormatter::use_colors", ok,
           "use_colors is consulted outside the colouring helper: " + ", ".join(f.key for f, _ in uc), None)
    ce = prog.method("HumanizedErrorsFormatter", "_colorize_error_text")
    hs = prog.method("HumanizedErrorsFormatter", "__str__")
    calls = [n for n in walk_fn(hs.node) if isinstance(n, ast.Call) and text(n.func) == "self._colorize_error_text"]
    ok = len(calls) == 1 and isinstance(parent(calls[0]), ast.Assign)
    if ok:
        var = parent(calls[0]).targets[0].id
        us = [n for n in walk_fn(hs.node) if isinstance(n, ast.Name) and n.id == var and isinstance(n.ctx, ast.Load)]
        ok = len(us) == 1 and isinstance(parent(us[0]), ast.FormattedValue)
    rets = [n for n in walk_fn(ce.node) if isinstance(n, ast.Return)]
    ok = ok and all("error.text" in text(r.value) for r in rets)
    run.ob("R-16.3", f"{ce.key}::only-colours-text", ok,
           "the colouring helper changes more than the escape codes around error.text", ce.node)


def rule_views(run, prog):
    run.rule("R-16.4", "formatters are views: no formatter method stores to anything but self, adds diagnostics, or mutates "
             "a File / Error / Highlight", floor=2)
    for c in [prog.cls("_formatter")] + prog.subclasses("_formatter"):
        bad = []
        for m in c.methods.values():
            for n in walk_fn(m.node):
                if isinstance(n, (ast.Assign, ast.AugAssign)):
                    tg = n.targets if isinstance(n, ast.Assign) else [n.target]
                    for t in tg:
                        if isinstance(t, (ast.Attribute, ast.Subscript)):
                            base = t
                            while isinstance(base, (ast.Attribute, ast.Subscript)):
                                base = base.value
                            if not (isinstance(base, ast.Name) and base.id in ("self", "cls")) and not (
                                    isinstance(base, ast.Name) and any(isinstance(x, ast.Assign) and any(
                                        isinstance(tt, ast.Name) and tt.id == base.id for tt in x.targets) for x in walk_fn(m.node))):
                                bad.append(n)
                if isinstance(n, ast.Call) and isinstance(n.func, ast.Attribute) and n.func.attr in (
                        "add", "append", "add_highlight", "remove", "clear", "pop", "sort", "insert", "extend") and (
                        "errors" in text(n.func.value) or "highlights" in text(n.func.value) or text(n.func.value) in ("error", "file", "self.files")):
                    bad.append(n)
        run.ob("R-16.4", f"{c.key}::view", not bad,
               "a formatter modifies what it reports: " + "; ".join(text(b, 50) for b in bad[:3]), bad[0] if bad else c.node)


def rule_pipeline(run, prog):
    run.rule("R-16.5", "single pipeline for inline content: main has exactly one call each of Lexer(...), Context(...), "
             "registry.run(...), all in the common per-file loop; both input branches only build File objects; File derives "
             "basename / name / type from the path alone and File.source returns the given text unchanged", floor=4)
    main = prog.fn("__main__.py::main")
    loops = [n for n in main.node.body if isinstance(n, ast.For) and any(
        isinstance(c, ast.Call) and text(c.func).endswith("registry.run") for c in ast.walk(n))]
    run.require(len(loops) == 1, "anchor vanished: per-file loop of main")
    for f in ("Lexer", "Context", "registry.run"):
        calls = [n for n in walk_fn(main.node) if isinstance(n, ast.Call) and text(n.func) == f]
        ok = len(calls) == 1 and _inside(calls[0], loops[0])
        conditional = ok and any(isinstance(a, (ast.If, ast.IfExp)) for a in ancestors(calls[0]) if _inside(a, loops[0]) and a is not loops[0])
        args_ok = ok and not any(isinstance(x, ast.Attribute) and text(x).startswith("args.") and x.attr in ("cfile", "hfile", "filename")
                                 for x in ast.walk(calls[0])) and not any(isinstance(x, ast.IfExp) for x in ast.walk(calls[0]))
        run.ob("R-16.5", f"{main.key}::single[{f}]", ok and not conditional and args_ok,
               f"{f}(...) is not called exactly once, unconditionally, with the same arguments for inline and file content",
               calls[0] if calls else main.node, calls=len(calls))
    fi = prog.method("File", "__init__")
    src = prog.method("File", "source")
    stores = {text(t): text(n.value) for n in walk_fn(fi.node) if isinstance(n, ast.Assign) for t in n.targets}
    ok = stores.get("self.path") == "path" and stores.get("self._source") == "source" and stores.get("self.basename") == "os.path.basename(path)" \
        and stores.get("(self.name, self.type)") == "os.path.splitext(self.basename)"
    run.ob("R-16.5", f"{fi.key}::derivation", ok, f"File.__init__ derives its fields otherwise: {stores}", fi.node)
    rets = [n for n in walk_fn(src.node) if isinstance(n, ast.Return)]
    reads = [n for n in walk_fn(src.node) if isinstance(n, ast.Call) and isinstance(n.func, ast.Attribute) and n.func.attr == "read"]
    guard = [n for n in walk_fn(src.node) if isinstance(n, ast.If) and text(n.test) == "self._source is None"]
    ok = len(rets) == 1 and text(rets[0].value) == "self._source" and len(reads) == 1 and len(guard) == 1 and _inside(reads[0], guard[0]) \
        and not any(isinstance(x, ast.Call) and isinstance(x.func, ast.Attribute) and x.func.attr in ("strip", "replace", "expandtabs", "rstrip", "lstrip")
                    for x in walk_fn(src.node))
    run.ob("R-16.5", f"{src.key}::unchanged-text", ok, "File.source does not return the given text / the file content unchanged", src.node)


def check(run, prog):
    rule_debug(run, prog)
    rule_R(run, prog)
    rule_presentation_options(run, prog)
    rule_views(run, prog)
    rule_pipeline(run, prog)
    from .c08 import rule_prints
    rule_prints(run, prog)        # R-16.6 = R-8.6
