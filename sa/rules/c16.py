"""C16 — options change the presentation, never the findings.  DESIGN.md §4.16."""
from __future__ import annotations

import ast
from typing import Dict, List, Optional, Set

from ..calls import callgraph
from ..cfg import cfg_of
from ..facts import emission_sites, value_set
from ..model import AnalysisError, Undecided, Fn, ancestors, parent, text, walk_fn
from .c05 import _cfg_node_of_expr

DEBUG = {"attr": "debug"}          # name of the Context attribute that holds the -d level (found by discover_flags)


class _DebugAttrs:
    """`context.<attr>`, `self.<attr>`, ... for the current name of the level attribute"""

    def __contains__(self, t):
        a = DEBUG["attr"]
        return t in (f"context.{a}", f"self.{a}", f"self.context.{a}", f"ctx.{a}")


DEBUG_ATTRS = _DebugAttrs()


def _debug_reads(fn: Fn) -> List[ast.AST]:
    out = []
    for n in walk_fn(fn.node):
        if isinstance(n, ast.Attribute) and n.attr == DEBUG["attr"] and isinstance(n.ctx, ast.Load) and text(n.value) != "args":
            out.append(n)
    return out


_PURE_NODES = (ast.Compare, ast.BoolOp, ast.UnaryOp, ast.Constant, ast.And, ast.Or, ast.Not, ast.Eq, ast.NotEq, ast.Lt, ast.LtE,
               ast.Gt, ast.GtE, ast.Is, ast.IsNot, ast.Load, ast.USub, ast.BinOp, ast.Add, ast.Sub, ast.IfExp, ast.In, ast.NotIn,
               ast.Tuple, ast.List, ast.Set, ast.Expression)


def debug_aliases(fn: Fn) -> Dict[str, ast.expr]:
    """Single-assignment locals whose value is a pure function of the debug level (`lvl = context.debug`,
    `quiet = context.debug < 2`, `verbose = not quiet`): name -> defining expression."""
    from ..fold import local_env
    env = local_env(fn)
    out: Dict[str, ast.expr] = {}
    changed = True
    while changed:
        changed = False
        for k, e in env.items():
            if k in out:
                continue
            if _value_when_debug(e, 0, out, need_const=False) is not _IMPURE:
                out[k] = e
                changed = True
    return out


_IMPURE = object()


def _value_when_debug(test, level: int, aliases: Optional[Dict[str, ast.expr]] = None, need_const=True):
    """Value of a pure debug expression for a given level (None / _IMPURE if it is not a pure function of the level).
    With need_const (tests) the result is a truth value or None."""
    aliases = aliases or {}

    class Sub(ast.NodeTransformer):
        ok = True
        seen_level = False

        def visit_Attribute(self, node):
            if text(node) in DEBUG_ATTRS:
                self.seen_level = True
                return ast.copy_location(ast.Constant(level), node)
            self.ok = False
            return node

        def visit_Name(self, node):
            if node.id in aliases and isinstance(node.ctx, ast.Load):
                self.seen_level = True
                return self.visit(ast.parse(ast.unparse(aliases[node.id]), mode="eval").body)
            if node.id in ("True", "False", "None"):
                return node
            self.ok = False
            return node

        def visit_Call(self, node):
            if isinstance(node.func, ast.Name) and node.func.id in ("int", "bool") and len(node.args) == 1 and not node.keywords:
                return self.visit(node.args[0]) if node.func.id == "int" else ast.UnaryOp(op=ast.Not(), operand=ast.UnaryOp(op=ast.Not(), operand=self.visit(node.args[0])))
            self.ok = False
            return node

    sub = Sub()
    e = sub.visit(ast.parse(ast.unparse(test), mode="eval").body)
    bad = _IMPURE if not need_const else None
    if not sub.ok or not sub.seen_level:
        return bad
    if not all(isinstance(n, _PURE_NODES) for n in ast.walk(e)):
        return bad
    try:
        v = eval(compile(ast.fix_missing_locations(ast.Expression(e)), "<debug-test>", "eval"), {"__builtins__": {}})
    except Exception:
        return bad
    return bool(v) if need_const else v


def _is_presentation_stmt(st, marker_names: Set[str]) -> bool:
    """print / dprint / pass / raise / maintenance of a marker variable that only feeds such statements."""
    if isinstance(st, ast.Pass):
        return True
    if isinstance(st, ast.Raise):
        return True
    if isinstance(st, ast.Expr) and isinstance(st.value, ast.Call):
        f = text(st.value.func)
        if f == "print" or f.endswith(".dprint") or f.endswith("print"):
            return True
        if isinstance(st.value.func, ast.Attribute) and isinstance(st.value.func.value, ast.Name) \
                and st.value.func.value.id in marker_names and st.value.func.attr in ("append", "clear", "extend"):
            return True
    if isinstance(st, ast.Expr) and isinstance(st.value, ast.Constant):
        return True
    if isinstance(st, ast.Assign) and all(isinstance(t, ast.Name) and t.id in marker_names for t in st.targets):
        return True
    if isinstance(st, ast.Return) and st.value is None:
        return True
    return False


def _marker_names(fn: Fn) -> Set[str]:
    """Local names that only feed presentation: every read is the receiver of append / clear / extend, sits inside a
    raise / print argument, is the test of an `if` controlling only presentation statements, or is copied into another
    such name (`pending = unrecognized`, or the `x = x` an inlined `return x` leaves behind).  Greatest fixpoint."""
    defs: Dict[str, List[ast.AST]] = {}
    for n in walk_fn(fn.node):
        if isinstance(n, ast.Assign) and len(n.targets) == 1 and isinstance(n.targets[0], ast.Name):
            defs.setdefault(n.targets[0].id, []).append(n.value)
        elif isinstance(n, (ast.AugAssign, ast.AnnAssign, ast.For, ast.comprehension, ast.NamedExpr, ast.withitem)):
            tg = getattr(n, "target", None) or getattr(n, "optional_vars", None)
            for x in ast.walk(tg) if tg is not None else []:
                if isinstance(x, ast.Name):
                    defs.setdefault(x.id, []).append(None)
    cands = {k for k, vs in defs.items() if k not in fn.params and all(
        v is not None and (isinstance(v, (ast.List, ast.Tuple, ast.Constant, ast.Name)) or
                           (isinstance(v, ast.Call) and text(v.func) in ("list", "tuple") and not v.args)) for v in vs)}
    # names that are pure functions of the debug level (aliases) only feed level tests: their upkeep is presentation too
    fixed = set(debug_aliases(fn))
    cands |= fixed
    changed = True
    while changed:
        changed = False
        for name in sorted(cands - fixed):
            ok = all(isinstance(v, ast.Name) and v.id in cands or not isinstance(v, ast.Name) for v in defs[name])
            for n in walk_fn(fn.node):
                if not ok:
                    break
                if isinstance(n, ast.Name) and n.id == name and isinstance(n.ctx, ast.Load):
                    p = parent(n)
                    if isinstance(p, ast.Attribute) and p.attr in ("append", "clear", "extend"):
                        continue
                    if any(isinstance(a, ast.Raise) or (isinstance(a, ast.Call) and text(a.func) == "print") for a in ancestors(n)):
                        continue
                    if isinstance(p, ast.Assign) and p.value is n and all(isinstance(t, ast.Name) and t.id in cands for t in p.targets):
                        continue
                    iff = next((a for a in ancestors(n) if isinstance(a, ast.If) and _inside(n, a.test)), None)
                    if iff is None or not all(_presentation_block(s_, cands) for s_ in iff.body + iff.orelse):
                        ok = False
            if not ok:
                cands.discard(name)
                changed = True
    return cands


def _presentation_block(st, markers) -> bool:
    if _is_presentation_stmt(st, markers):
        return True
    if isinstance(st, ast.If):
        pure = _value_when_debug(st.test, 0) is not None or all(
            isinstance(x, (ast.Name, ast.Compare, ast.List, ast.Load, ast.NotEq, ast.Eq, ast.Constant, ast.UnaryOp, ast.Not))
            and (not isinstance(x, ast.Name) or x.id in markers) for x in ast.walk(st.test))
        return pure and all(_presentation_block(s, markers) for s in st.body + st.orelse)
    return False


def _inside(node, container) -> bool:
    x = node
    while x is not None:
        if x is container:
            return True
        x = parent(x)
    return False


def rule_debug(run, prog):
    run.rule("R-16.1", "TAINT debug: every read of the debug level is a pure test on the level or a print argument; the CFG "
             "nodes whose reachability depends on the level (reachable for level 0 xor for level 1/2) are presentation / "
             "fatality statements only (print, dprint, pass, raise, upkeep of a marker variable that only feeds those)", floor=5)
    n_reads = 0
    for fn in prog.fns:
        if fn.mod.rel == "__main__.py":
            continue
        reads = _debug_reads(fn)
        if not reads:
            continue
        g = cfg_of(fn)
        markers = _marker_names(fn)
        aliases = debug_aliases(fn)
        # reads of an alias of the level count as reads of the level
        reads = reads + [n for n in walk_fn(fn.node) if isinstance(n, ast.Name) and n.id in aliases and isinstance(n.ctx, ast.Load)]
        # 1. each read is in a pure test, a print, or the constructor's own store
        for r in reads:
            n_reads += 1
            key = f"{fn.key}::debug-read[{text(enclosing_test_or_stmt(r), 40)}]"
            st = r
            while not isinstance(st, ast.stmt):
                st = parent(st)
            test = next((a.test for a in ancestors(r) if isinstance(a, (ast.If, ast.While, ast.IfExp)) and _inside(r, a.test)), None)
            if test is not None:
                pure = _value_when_debug(test, 0, aliases) is not None
                if not pure:
                    # mixed test: everything it controls must be presentation only
                    iff = next(a for a in ancestors(r) if isinstance(a, (ast.If, ast.While, ast.IfExp)) and _inside(r, a.test))
                    ok = isinstance(iff, ast.If) and all(_presentation_block(s, markers) for s in iff.body + iff.orelse)
                    run.ob("R-16.1", key, ok,
                           "the debug level is combined with other conditions in a test that controls more than printing / "
                           "fatality: findings may differ between -d levels", r)
                else:
                    iff = next(a for a in ancestors(r) if isinstance(a, (ast.If, ast.While, ast.IfExp)) and _inside(r, a.test))
                    if isinstance(iff, ast.IfExp) and {_value_when_debug(test, lv, aliases) for lv in (0, 1, 2)} != {True} \
                            and {_value_when_debug(test, lv, aliases) for lv in (0, 1, 2)} != {False}:
                        # a conditional expression chosen by the level has no statements of its own for the region analysis
                        # below: its value must be something printed, otherwise the level selects data or a way of calling
                        shown = any(isinstance(a, ast.Call) and (text(a.func) == "print" or text(a.func).endswith("dprint"))
                                    for a in ancestors(iff))
                        run.ob("R-16.1", key, shown,
                               f"the debug level selects the value of `{text(iff, 70)}`, which is not an argument of print / dprint: the "
                               f"analysis itself (a value, or the way a rule is called -- e.g. one more stack frame under a recursion "
                               f"limit) depends on -d", r)
                    else:
                        run.ob("R-16.1", key, True, "pure level test", r)
                continue
            in_print = any(isinstance(a, ast.Call) and (text(a.func) == "print" or text(a.func).endswith("dprint")) for a in ancestors(r))
            if isinstance(st, ast.Assign) and len(st.targets) == 1 and isinstance(st.targets[0], ast.Name) and st.targets[0].id in aliases:
                in_print = True        # the definition of an alias; its uses are checked as reads
            run.ob("R-16.1", key, in_print,
                   f"the debug level flows into `{text(st, 60)}`: it is used as data, not only to decide about printing", r)
        # 2. level-dependent regions
        def edges_for(levels):
            blocked = {}
            for node in g.nodes:
                if node.kind == "test":
                    vals = {_value_when_debug(node.ast, l, aliases) for l in levels}
                    if None in vals:
                        continue
                    if vals == {True}:
                        blocked[node.id] = "F"
                    elif vals == {False}:
                        blocked[node.id] = "T"
            return blocked

        b0 = edges_for([0])
        b12 = edges_for([1, 2])
        r0 = g.reachable(g.entry, follow_exc=False, edge_filter=lambda n, m, lab: not (n in b0 and lab == b0[n]))
        r12 = set()
        for lv in (1, 2):
            bl = edges_for([lv])
            r12 |= g.reachable(g.entry, follow_exc=False, edge_filter=lambda n, m, lab, bl=bl: not (n in bl and lab == bl[n]))
        dependent = (r0 ^ r12)
        bad = []
        dep_nodes = {nid for nid in dependent}
        for nid in sorted(dependent):
            node = g.nodes[nid]
            a = node.ast
            if node.kind != "stmt" or a is None:
                continue                # tests / loop heads / handlers: control flow alone changes nothing
            if _is_presentation_stmt(a, markers):
                continue
            if isinstance(a, (ast.Assign, ast.AugAssign)):
                tg = a.targets if isinstance(a, ast.Assign) else [a.target]
                names = [t.id for t in tg if isinstance(t, ast.Name)]
                if len(names) == len(tg):
                    # a local written only here: harmless if it is never read outside the level-dependent region
                    leak = False
                    for x in walk_fn(fn.node):
                        if isinstance(x, ast.Name) and x.id in names and isinstance(x.ctx, ast.Load):
                            xn = _cfg_node_of_expr(g, x)
                            if xn is not None and xn not in dep_nodes and not any(
                                    isinstance(c, ast.Call) and text(c.func) == "print" for c in ancestors(x)):
                                leak = True
                    if not leak:
                        continue
            if isinstance(a, (ast.Break, ast.Continue)):
                continue
            bad.append(a)
        # ... and nothing in such a region calls a function of the package that changes state (a scope accessor that also
        # accumulates line counts, a rule helper that records an identifier): printing must look, not touch
        imp = _impure_functions(prog)
        cg_ = callgraph(prog)
        for c in cg_.calls_of.get(fn.key, []):
            cn = _cfg_node_of_expr(g, c.node) if isinstance(c.node, ast.AST) else None
            if cn is None or cn not in dep_nodes:
                continue
            hit = [t.key for t in c.targets if t.key in imp]
            if hit and all(t.key in imp for t in c.targets):
                bad.append(c.node)
        run.ob("R-16.1", f"{fn.key}::level-dependent-region", not bad,
               "statements that run only for some debug levels do more than print or abort: "
               + "; ".join(f"line {getattr(b, 'lineno', '?')}: {text(b, 50)}" for b in bad[:3]),
               bad[0] if bad else fn.node, dependent_nodes=len(dependent), markers=sorted(markers))
    run.require(n_reads >= 4, f"only {n_reads} reads of the debug level found (floor 4)")
    # the level is stored once, as an int, and never written again
    writes = []
    for fn in prog.fns:
        for n in walk_fn(fn.node):
            tg = n.targets if isinstance(n, ast.Assign) else [n.target] if isinstance(n, (ast.AugAssign, ast.AnnAssign)) else []
            for t in tg:
                if isinstance(t, ast.Attribute) and t.attr == DEBUG["attr"] and text(t.value) != "args":
                    writes.append((fn, n))
    run.ob("R-16.1", "context.py::Context::debug-written-once", len(writes) == 1 and writes[0][0].key == "context.py::Context.__init__",
           "the debug level is (re)written outside Context.__init__: " + ", ".join(f.key for f, _ in writes), None)


_IMPURE = {}


def _impure_functions(prog):
    """Keys of the package's functions that change object state: an attribute store / augmented store / in-place mutator on an
    attribute path, a diagnostic emission, or a call of such a function (transitively)."""
    got = _IMPURE.get(id(prog))
    if got is not None:
        return got
    cg_ = callgraph(prog)
    direct = set()
    for fn in prog.fns:
        if fn.name in ("__init__", "__post_init__", "__new__"):
            continue
        for n in walk_fn(fn.node):
            tg = n.targets if isinstance(n, ast.Assign) else [n.target] if isinstance(n, (ast.AugAssign, ast.AnnAssign)) else []
            if any(isinstance(x, ast.Attribute) or (isinstance(x, ast.Subscript) and isinstance(x.value, ast.Attribute))
                   for t in tg for x in (t.elts if isinstance(t, (ast.Tuple, ast.List)) else [t])):
                direct.add(fn.key)
            if isinstance(n, ast.Call) and isinstance(n.func, ast.Attribute):
                if n.func.attr in ("append", "extend", "remove", "pop", "clear", "insert", "sort", "add", "update", "discard") \
                        and isinstance(n.func.value, ast.Attribute):
                    direct.add(fn.key)
                if n.func.attr in ("new_error", "new_warning"):
                    direct.add(fn.key)
    imp = set(direct)
    changed = True
    while changed:
        changed = False
        for fn in prog.fns:
            if fn.key in imp:
                continue
            for c in cg_.calls_of.get(fn.key, []):
                if c.targets and any(t.key in imp for t in c.targets):
                    imp.add(fn.key)
                    changed = True
                    break
    _IMPURE[id(prog)] = imp
    return imp


def enclosing_test_or_stmt(n):
    for a in ancestors(n):
        if isinstance(a, (ast.If, ast.While)) and _inside(n, a.test):
            return a.test
        if isinstance(a, ast.stmt):
            return a
    return n


# ---------------------------------------------------------------------------------------------------------------
# The rules below are decided on abstract runs of __main__ (sa/mainmodel.py): the analyser's interpreter executes main
# in a stub world and records every File / Lexer / Context / registry.run call.  "Options change the presentation, never
# the findings" becomes: for a fixed selection of files, toggling an option leaves that record unchanged, except for the
# one value the option is allowed to set (debug level, added_value).

TREE = {
    "a.c": "int a; @E\n\t@N \n", "b.h": "#define X 1\n", "zz.c": "\ufeffint\tx; @E  \n\u00fc last line without newline  @N",
    "sub": {"c.c": "@N\n"},
}
BASE_ARGS = ["a.c", "b.h", "sub"]


R_FLAGS: Set[str] = {"preproc.skip_define"}      # attributes of the Context that -R is allowed to set (recomputed by rule_R)


def _level(snap):
    v = (snap.get("attrs") or {}).get(DEBUG["attr"])
    try:
        return int(v)
    except (TypeError, ValueError):
        return v


def discover_flags(prog):
    """Find, on abstract runs, the Context attribute that -d sets and the one(s) that -R CheckDefine sets
    (they are found by their effect, not by their name: attributes may be renamed)."""
    runs = _Runs(prog)
    base = runs.run(BASE_ARGS)
    if base.crash is not None or not base.events("run"):
        raise AnalysisError(f"the base run of __main__ does not reach the analysis ({base.crash})")
    a0 = base.events("run")[0][3].get("attrs") or {}
    d2 = runs.run(BASE_ARGS, extra=[("-d", []), ("-d", [])])
    if d2.crash is None and d2.events("run"):
        a2 = d2.events("run")[0][3].get("attrs") or {}
        lv = [k for k in set(a0) | set(a2) if a0.get(k) != a2.get(k)]
        if len(lv) == 1 and "." not in lv[0] and (a0.get(lv[0]), a2.get(lv[0])) == ("0", "2"):
            DEBUG["attr"] = lv[0]
    r1 = runs.run(BASE_ARGS, extra=[("-R", ["CheckDefine"])])
    if r1.crash is None and r1.events("run"):
        a1 = r1.events("run")[0][3].get("attrs") or {}
        flags = {k for k in set(a0) | set(a1) if a0.get(k) != a1.get(k)}
        if flags:
            R_FLAGS.clear()
            R_FLAGS.update(flags)


def _r_flag(o):
    """Value of the Context attribute(s) that -R sets, per analysed file."""
    return [[(e[3].get("attrs") or {}).get(k) for k in sorted(R_FLAGS)] for e in o.events("run")]


def _pipeline_record(o, keep_debug=True, keep_skip=True):
    """What the analysis sees: per file (basename, text handed to the lexer, debug level, skip_define, Context ctor shape)."""
    rec = []
    lexed = {id(e[1]): e[2] for e in o.events("lexed")}
    ctor = {id(e[1]): (e[2], e[3]) for e in o.events("Context")}
    for e in o.events("run"):
        f, ctx, snap = e[1], e[2], e[3]
        toks = snap.get("tokens")
        cargs, ckw = ctor.get(id(ctx), ([], {}))
        added = repr(cargs[3]) if len(cargs) > 3 else repr(ckw.get("added_value"))
        extra_args = (len(cargs), sorted(k for k in ckw if k not in ("file", "tokens", "debug", "added_value")))
        attrs = dict(snap.get("attrs") or {})
        if not keep_debug:
            attrs.pop(DEBUG["attr"], None)
        if not keep_skip:
            for k in list(attrs):
                if k in R_FLAGS:
                    attrs.pop(k)
        rec.append((f.__dict__.get("basename"), f.__dict__.get("name"), f.__dict__.get("type"), lexed.get(id(f)),
                    _level(snap) if keep_debug else None, sorted(attrs.items()),
                    added if keep_skip else None, extra_args,
                    len(toks) if isinstance(toks, list) else repr(toks)))
    counts = (len(o.events("Lexer")), len(o.events("Context")), len(o.events("run")))
    return rec, counts


def _findings(o, fmt):
    from ..mainmodel import parse_human, parse_json
    import posixpath
    if fmt == "json":
        files, stray, _ = parse_json(o.stdout)
    else:
        files, stray = parse_human(o.stdout)
    return [(posixpath.basename(n or ""), st, sorted(d)) for n, st, d in files]


class _Runs:
    def __init__(self, prog):
        self.prog = prog
        self.n = 0

    def run(self, args, extra=(), tree=None):
        from ..mainmodel import run_main
        cli = ([("<positional>", list(args))] if args else []) + list(extra)
        o = run_main(self.prog, tree or TREE, cli)
        self.n += 1
        if o.unsupported:
            raise Undecided(f"__main__ is outside the evaluable subset: {o.unsupported} (command line {cli})")
        return o


def _sample_values(decl):
    """Command-line occurrences to try for a declared option: list of lists of (flag, raw values)."""
    flag = decl.flags[-1] if not decl.positional else "<positional>"
    a = decl.action
    if a in ("store_true", "store_false", "store_const", "==BooleanOptionalAction=="):
        return [[(flag, [])]]
    if a == "count":
        return [[(flag, [])], [(flag, []), (flag, [])]]
    if a in ("version", "help"):
        return []
    n = decl.nargs
    words = ["CheckDefine", "zzz"]
    if decl.choices is not None:
        return [[(flag, [str(c)])] for c in list(decl.choices)]
    if n in (None, "?"):
        return [[(flag, [w])] for w in words]
    if isinstance(n, int):
        return [[(flag, [w] * n)] for w in words]
    return [[(flag, [w])] for w in words] + [[(flag, words)]]


def rule_R(run, prog):
    run.rule("R-16.2", "-R on abstract runs and by interpretation of Context.__init__: the words given with -R reach only "
             "Context's added_value; there they decide nothing but preproc.skip_define, which is true exactly when the word "
             "CheckDefine was given (not for CheckDefines / xCheckDefine / Check); skip_define is read only by "
             "CheckPreprocessorDefine.run, after the `define` test, as an early return in front of code that only emits that "
             "class's #define-value codes", floor=4)
    main = prog.fn("__main__.py::main")
    runs = _Runs(prog)
    base = runs.run(BASE_ARGS)
    # which attribute of the Context does -R CheckDefine set?  (found, not assumed: it may be renamed)
    with_r = runs.run(BASE_ARGS, extra=[("-R", ["CheckDefine"])])
    run.require(base.crash is None and with_r.crash is None and base.events("run") and with_r.events("run"),
                f"the base runs of __main__ do not reach the analysis ({base.crash or with_r.crash})")
    a0, a1 = base.events("run")[0][3].get("attrs") or {}, with_r.events("run")[0][3].get("attrs") or {}
    flags = {k for k in set(a0) | set(a1) if a0.get(k) != a1.get(k)}
    R_FLAGS.clear()
    R_FLAGS.update(flags or {"preproc.skip_define"})
    b_rec = _pipeline_record(base, keep_skip=False)
    bad = None
    word = None
    if len(flags) != 1 or (a0.get(next(iter(flags))), a1.get(next(iter(flags)))) != ("False", "True"):
        word = f"-R CheckDefine changes the Context attributes {sorted(flags)} ({[(a0.get(k), a1.get(k)) for k in sorted(flags)]}); expected one flag going from False to True"
    for words, want in ((["CheckDefine"], True), (["CheckDefines"], False), (["xCheckDefine"], False), (["Check"], False),
                        (["checkdefine"], False), (["CheckForbiddenSourceHeader"], False)):
        o = runs.run(BASE_ARGS, extra=[("-R", words)])
        if o.crash is not None or o.status != base.status:
            bad = bad or f"-R {words[0]}: the run ends differently ({o.crash or o.status})"
            continue
        if _pipeline_record(o, keep_skip=False) != b_rec or _findings(o, None) != _findings(base, None):
            bad = bad or f"-R {words[0]} changes what the analysis is given besides added_value"
        sk = _r_flag(o)
        if any(x != [str(want)] for x in sk) or not sk:
            word = word or f"-R {words[0]} gives {sorted(R_FLAGS)} = {sk[:1]} (expected {want})"
    if any(x != ["False"] for x in _r_flag(base)):
        word = word or f"without -R {sorted(R_FLAGS)} is set"
    run.ob("R-16.2", f"{main.key}::args.R", bad is None, f"args.R is used for something other than Context(..., added_value): {bad}", main.node)
    run.ob("R-16.2", f"{main.key}::R-is-a-word-list", word is None,
           "-R is not handled as a list of words: `'CheckDefine' in added_value` on a plain string is a substring test, so an "
           f"unknown word such as CheckDefines switches the #define checks off ({word})", main.node)
    # Context.__init__ by interpretation
    ci = prog.fn("context.py::Context.__init__")
    from .c04 import FormatterBench
    from ..minieval import Unsupported
    from ..xeval import Raised
    bad = None
    try:
        snaps = []
        for av in (None, [], ["CheckDefine"], ["x"], ["y", "CheckDefine"], ["CheckDefines"], ("CheckDefine",)):
            b = FormatterBench(prog)
            f = b.ev.construct("File", ["t.c", "int a;\n"], {})
            try:
                ctx = b.ev.construct("Context", [f, [], 1] + ([av] if av is not None else []), {})
            except Raised as r:
                bad = bad or f"Context(..., added_value={av!r}) raises {r.value!r}"
                continue
            from ..mainmodel import flatten_object
            flat = flatten_object(b.ev, ctx)
            sk = [flat.get(k) for k in sorted(R_FLAGS)]
            want = "CheckDefine" in (av or [])
            if sk != [str(want)]:
                bad = bad or f"added_value={av!r} gives {sorted(R_FLAGS)}={sk!r}"
            snaps.append({k: v for k, v in flat.items() if k not in R_FLAGS})
        if any(x != snaps[0] for x in snaps):
            bad = bad or "another attribute of the Context depends on added_value"
    except Unsupported as e:
        raise Undecided(f"Context.__init__ is outside the evaluable subset: {e}")
    run.ob("R-16.2", f"{ci.key}::added_value", bad is None,
           f"added_value is used for more than the 'CheckDefine' membership test stored in preproc.skip_define: {bad}", ci.node)
    readers = []
    flag_attr = sorted(R_FLAGS)[0].split(".")[-1]
    for fn in prog.fns:
        for n in walk_fn(fn.node):
            if isinstance(n, ast.Attribute) and n.attr == flag_attr and isinstance(n.ctx, ast.Load):
                readers.append((fn, n))
    cd = prog.method("CheckPreprocessorDefine", "run")
    ok = len(readers) >= 1 and all(f is cd for f, _ in readers)
    run.ob("R-16.2", "context.py::PreProcessors::skip_define-readers", ok,
           "preproc.skip_define is read outside CheckPreprocessorDefine.run: " + ", ".join(f.key for f, _ in readers if f is not cd),
           next((n for f, n in readers if f is not cd), None))
    if cd is not None and any(f is cd for f, _ in readers):
        g = cfg_of(cd)
        rd = [n for f, n in readers if f is cd][0]
        tests = [nd for nd in g.nodes if nd.kind == "test" and any(x is rd for x in ast.walk(nd.ast))]
        tnode = tests[0] if tests else None
        # the outcome "skip" of the test leaves the function without emitting; it is reached only after the `define` test
        define_tests = [nd.id for nd in g.nodes if nd.kind == "test" and "'define'" in text(nd.ast)]
        dom = tnode is not None and bool(define_tests) and any(g.dominates(t, tnode.id, follow_exc=False) for t in define_tests)
        emits = {_cfg_node_of_expr(g, e.node) for e in emission_sites(prog) if e.fn is cd}
        stores = []
        skip_ok = False
        if tnode is not None:
            pol = _skip_polarity(tnode.ast, rd)
            lab = "T" if pol else "F"
            first = [m for m, l in g.succ[tnode.id] if l == lab]
            reach = set()
            for m in first:
                reach |= g.reachable(m, follow_exc=False)
            skip_ok = pol is not None and not (reach & emits) and all(
                g.nodes[x].kind != "stmt" or isinstance(g.nodes[x].ast, (ast.Return, ast.Pass, ast.Break, ast.Continue)) or
                getattr(g.nodes[x].ast, "_sa_inline_exit", False) or _is_flag_assign(g.nodes[x].ast) for x in reach)
            other = [m for m, l in g.succ[tnode.id] if l != lab and l != "exc"]
            after = set()
            for m in other:
                after |= g.reachable(m, follow_exc=False)
            for x in after:
                a = g.nodes[x].ast
                if g.nodes[x].kind == "stmt" and isinstance(a, (ast.Assign, ast.AugAssign)):
                    tg = a.targets if isinstance(a, ast.Assign) else [a.target]
                    if any(isinstance(t, (ast.Attribute, ast.Subscript)) for t in tg):
                        stores.append(a)
        codes = set()
        for e in emission_sites(prog):
            if e.fn is cd and e.code_expr is not None:
                codes |= value_set(prog, cd, e.code_expr) or {"?"}
        ok = bool(dom) and skip_ok and not stores and codes <= {"MACRO_NAME_CAPITAL", "MACRO_FUNC_FORBIDDEN", "PREPROC_CONSTANT"}
        run.ob("R-16.2", f"{cd.key}::skip_define-effect", ok,
               "-R CheckDefine does more (or less) than suppressing the #define-value diagnostics: "
               f"reached only after the define test: {bool(dom)}, the skipping outcome leaves without emitting: {skip_ok}, "
               f"stores after it: {[text(s_, 40) for s_ in stores[:2]]}, codes: {sorted(codes)}",
               tnode.ast if tnode is not None else cd.node)


def _is_flag_assign(a) -> bool:
    return isinstance(a, ast.Assign) and all(isinstance(t, ast.Name) for t in a.targets) and isinstance(a.value, (ast.Constant, ast.Name, ast.Tuple))


def _skip_polarity(test, read):
    """True: the test is true when skip_define is set; False: false when set; None: not a plain (possibly negated) read."""
    if test is read:
        return True
    if isinstance(test, ast.UnaryOp) and isinstance(test.op, ast.Not):
        v = _skip_polarity(test.operand, read)
        return None if v is None else not v
    if isinstance(test, ast.Compare) and len(test.ops) == 1 and test.left is read and isinstance(test.comparators[0], ast.Constant):
        c = test.comparators[0].value
        if isinstance(test.ops[0], (ast.Is, ast.Eq)) and c in (True, False):
            return bool(c)
        if isinstance(test.ops[0], (ast.IsNot, ast.NotEq)) and c in (True, False):
            return not bool(c)
    return None


def rule_presentation_options(run, prog):
    run.rule("R-16.3", "presentation options, on abstract runs of __main__: for every option the parser declares, giving it "
             "leaves the record of File / Lexer / Context / registry.run calls of a fixed selection unchanged (selection "
             "options may change which files are selected, -d only the debug level handed to Context - the same for inline "
             "content -, -R only added_value), and the verdicts and diagnostics shown are the same in both formats, with and "
             "without colours; colours only add `ESC[<colour>m` ... `ESC[0m` around the text of diagnostics that have a colour", floor=6)
    main = prog.fn("__main__.py::main")
    runs = _Runs(prog)
    base = runs.run(BASE_ARGS)
    run.require(base.crash is None and len(base.events("run")) >= 3, f"the base run of __main__ does not analyse its files ({base.crash})")
    b_rec = _pipeline_record(base)
    b_find = _findings(base, None)
    selection = {"file", "cfile", "hfile", "filename", "use_gitignore"}
    seen = set()
    for d in base.decls:
        if d.dest in seen:
            continue
        seen.add(d.dest)
        key = f"{main.key}::option[{d.dest}]"
        flagset = set(d.flags)
        role = ("selection" if (d.positional or flagset & {"--cfile", "--hfile", "--filename", "--use-gitignore"}) else
                "debug" if flagset & {"-d", "--debug"} else "R" if "-R" in flagset else
                "format" if flagset & {"-f", "--format"} else "colors" if "--no-colors" in flagset else "other")
        if d.action in ("version", "help"):
            o = runs.run(BASE_ARGS, extra=[(d.flags[0], [])])
            run.ob("R-16.3", key, o.crash is None and not o.events("Lexer"),
                   f"option {d.flags[0]} starts an analysis", main.node)
            continue
        bad = None
        # every option is tried on the plain command line and next to `-R CheckDefine -d` (an option may only do harm
        # in combination with the values that do reach the analysis)
        for ctx_opts in ([], [("-R", ["CheckDefine"]), ("-d", [])]):
            if role in ("R", "debug") and ctx_opts:
                continue
            ref_run = base if not ctx_opts else runs.run(BASE_ARGS, extra=ctx_opts)
            for occ in _sample_values(d):
                if d.positional or role == "selection":
                    continue
                o = runs.run(BASE_ARGS, extra=ctx_opts + occ)
                given = " ".join(f"{f} {' '.join(v)}".strip() for f, v in ctx_opts + occ)
                if o.crash is not None:
                    bad = bad or f"`{given}`: the run crashes ({o.crash})"
                    continue
                rec = _pipeline_record(o, keep_debug=(role != "debug"), keep_skip=(role != "R"))
                ref = _pipeline_record(ref_run, keep_debug=(role != "debug"), keep_skip=(role != "R"))
                if rec != ref:
                    bad = bad or f"`{given}` changes what the analysis pipeline is given (Lexer / Context / registry / File)"
                if role == "debug":
                    lv = len(occ)
                    got = [_level(e[3]) for e in o.events("run")]
                    if any(x != lv for x in got):
                        bad = bad or f"`{given}`: Context gets the debug level {got[:1]} instead of {lv}"
                if role in ("format", "colors", "debug", "R"):
                    fmt = occ[0][1][0] if role == "format" else None
                    if fmt in (None, "json", "humanized") and _findings(o, fmt) != b_find:
                        bad = bad or f"`{given}` changes the verdicts / diagnostics shown"
                    if o.status != base.status:
                        bad = bad or f"`{given}` changes the exit status"
        if role == "selection":
            bad = _selection_option(runs, d, base)
        run.ob("R-16.3", key, bad is None,
               f"option {'/'.join(d.flags)} ({role}) reaches the analysis pipeline or changes the findings: {bad}", main.node)
    # the debug level for inline content as well
    bad = None
    for extra in ([("--cfile", ["int a; @E\n"])], [("--hfile", ["@N\n"]), ("--filename", ["k.h"])]):
        for lv in (0, 1, 2):
            o = runs.run([], extra=extra + [("-d", [])] * lv)
            got = [_level(e[3]) for e in o.events("run")]
            if o.crash is not None or got != [lv]:
                bad = bad or f"{extra[0][0]} with {lv} x -d: Context debug levels {got} ({o.crash})"
    for lv in (0, 1, 2):
        o = runs.run(BASE_ARGS, extra=[("-d", [])] * lv)
        got = [_level(e[3]) for e in o.events("run")]
        if o.crash is not None or any(x != lv for x in got) or len(got) != len(b_rec[0]):
            bad = bad or f"{lv} x -d: Context debug levels {got}"
    run.ob("R-16.3", f"{main.key}::debug-local", bad is None,
           f"main uses the debug level for something other than Context(...): {bad}", main.node)
    # colours
    import re
    from ..mainmodel import World
    ansi = re.compile(r"\x1b\[[0-9;]*m")
    tree = dict(TREE, **{"col.c": "@E @E @N @E @N\n"})
    args = ["col.c", "a.c", "b.h"]
    col = runs.run(args, tree=tree)
    plain = runs.run(args, extra=[("--no-colors", [])], tree=tree)
    jc = runs.run(args, extra=[("-f", ["json"])], tree=tree)
    jp = runs.run(args, extra=[("-f", ["json"]), ("--no-colors", [])], tree=tree)
    bad = None
    if ansi.search(plain.stdout):
        bad = "--no-colors output still contains escape sequences"
    elif ansi.sub("", col.stdout) != plain.stdout:
        bad = "the coloured report differs from the plain one by more than escape sequences"
    elif jc.stdout != jp.stdout or ansi.search(jc.stdout):
        bad = "the JSON report depends on --no-colors"
    elif not ansi.search(col.stdout):
        bad = "the default report has no colour at all (use_colors is not consulted)"
    hf = prog.method("HumanizedErrorsFormatter", "__str__")
    run.ob("R-16.3", "errors.py::HumanizedErrorsFormatter::use_colors", bad is None,
           f"use_colors changes more than the colouring of the human report: {bad}", hf.node if hf else None)
    # exact shape of the colouring
    w = World(prog)
    cm = prog.mod("colors.py")
    bad = None
    exp_lines = []
    for ln in plain.stdout.split("\n"):
        m = re.match(r"^(?P<head>(?:Error|Notice): (?P<code>\S+)\s+\(line:\s*-?\d+, col:\s*-?\d+\):\t)(?P<text>.*)$", ln)
        if m:
            try:
                c = w.ev.call_value(w.ev.resolve_global("error_color", cm), [m.group("code")], {})
            except Exception as e:          # noqa: BLE001
                raise Undecided(f"colors.error_color is outside the evaluable subset: {e}")
            exp_lines.append(m.group("head") + (f"\x1b[{c}m{m.group('text')}\x1b[0m" if c else m.group("text")))
        else:
            exp_lines.append(ln)
    if "\n".join(exp_lines) != col.stdout and bad is None:
        bad = "colours are not exactly ESC[<colour>m <text> ESC[0m around the text of the diagnostics that have a colour"
    ce = prog.method("HumanizedErrorsFormatter", "_colorize_error_text") or hf
    run.ob("R-16.3", f"errors.py::HumanizedErrorsFormatter._colorize_error_text::only-colours-text", bad is None,
           f"the colouring helper changes more than the escape codes around error.text: {bad}", ce.node if ce else None, evaluations=runs.n)


def _selection_option(runs, d, base):
    """Selection options decide which files are analysed; what each analysed file's pipeline gets must not change."""
    flag = d.flags[-1] if not d.positional else None
    flagset = set(d.flags)
    if d.positional:
        o = runs.run(["a.c"])
        o2 = runs.run(["sub", "a.c"])
        ra = [r for r in _pipeline_record(o2)[0] if r[0] == "a.c"]
        return None if o.crash is None and _pipeline_record(o)[0] == ra else "the pipeline of a file depends on the other arguments"
    if "--use-gitignore" in flagset:
        o = runs.run(BASE_ARGS, extra=[(flag, [])])
        if o.crash is not None:
            return f"the run crashes ({o.crash})"
        return None if _pipeline_record(o) == _pipeline_record(base) else "with nothing ignored the pipeline record changes"
    if flagset & {"--cfile", "--hfile"}:
        text_ = TREE["zz.c"]
        nm = "zz.c" if "--cfile" in flagset else "zz.h"
        tree = dict(TREE, **{nm: text_})
        o_file = runs.run([nm], tree=tree)
        o_inl = runs.run([], extra=[(flag, [text_]), ("--filename", [nm])], tree=tree)
        if o_inl.crash is not None:
            return f"the inline run crashes ({o_inl.crash})"
        if _pipeline_record(o_inl) != _pipeline_record(o_file):
            return f"inline content is not handed to the pipeline like the same content in a file named {nm}"
        if _findings(o_inl, None) != _findings(o_file, None) or o_inl.status != o_file.status:
            return "inline content gets other verdicts / diagnostics than the same content in a file"
        o_def = runs.run([], extra=[(flag, [text_])], tree=tree)
        want = "file.c" if "--cfile" in flagset else "file.h"
        if [r[0] for r in _pipeline_record(o_def)[0]] != [want]:
            return f"inline content without --filename is not analysed as {want}"
        return None
    if "--filename" in flagset:
        o = runs.run(BASE_ARGS, extra=[(flag, ["other.c"])])
        return None if o.crash is None and _pipeline_record(o) == _pipeline_record(base) else "--filename alone changes the analysis of named files"
    return None


def rule_views(run, prog):
    run.rule("R-16.4", "formatters are views, by interpretation: rendering a formatter (twice, with and without colours, also "
             "on a file holding a diagnostic without highlight) leaves every File / Error / Highlight exactly as it was and "
             "gives the same text both times", floor=2)
    from .c04 import FormatterBench
    from ..minieval import Unsupported
    from ..xeval import Raised
    for c in prog.subclasses("_formatter"):
        bad = None
        try:
            for bare in (False, True):
                b = FormatterBench(prog)
                diags = [b.error("TOO_MANY_LINES", level="Error", positions=((3, 1), (3, 4))), b.error("SPC_INSTEAD_TAB", level="Notice", positions=((1, 2),))]
                if bare:
                    diags.append(b.error("INVALID_HEADER", positions=()))
                files = [b.real_file("d/x.c", diags), b.real_file("y.h", [])]

                def state():
                    # iteration may sort the container: the diagnostics are compared as a multiset
                    out = []
                    for f in files:
                        errs = f.__dict__.get("errors")
                        inner = errs.__dict__.get("_inner") if isinstance(errs, type(f)) else None
                        if not isinstance(inner, list):
                            inner = list(b.ev.iterate(errs))
                        out.append((b.ev.py_repr(f.__dict__.get("path")), sorted(b.ev.py_repr(e) for e in inner),
                                    sorted(k for k in f.__dict__ if not k.startswith("_"))))
                    return out

                before = state()
                outs = []
                for colors in (True, False, True):
                    try:
                        outs.append(b.render(c.name, files, use_colors=colors))
                    except Raised as r:
                        outs.append(f"raises {type(r.value).__name__}")
                    now = state()
                    if now != before:
                        bad = bad or ("rendering changes the reported objects" + (" (file with a diagnostic that has no highlight)" if bare else ""))
                if outs[0] != outs[2]:
                    bad = bad or "rendering twice gives two different texts"
        except Unsupported as e:
            raise Undecided(f"formatter {c.name} is outside the evaluable subset: {e}")
        run.ob("R-16.4", f"{c.key}::view", bad is None, f"a formatter modifies what it reports: {bad}", c.node)


def rule_pipeline(run, prog):
    run.rule("R-16.5", "single pipeline, on abstract runs of __main__: every selected file - named, found in a directory or "
             "given inline - goes through exactly one Lexer(...), one Context(...) built from that file and its tokens, and one "
             "registry.run(...), in that order; File derives basename / name / type from the path alone and File.source hands "
             "the given text, or the content of the file, to the lexer unchanged (tabs, trailing blanks, non-ASCII letters, a leading U+FEFF, no final newline)", floor=4)
    main = prog.fn("__main__.py::main")
    runs = _Runs(prog)
    text_ = TREE["zz.c"]
    scen = [("files", BASE_ARGS + ["zz.c"], []), ("inline-c", [], [("--cfile", [text_])]), ("inline-h", [], [("--hfile", [text_]), ("--filename", ["q.h"])]),
            ("cwd", [], [])]
    results = {}
    for nm, args, extra in scen:
        o = runs.run(args, extra=extra)
        results[nm] = o
    for f, kind in (("Lexer", "Lexer"), ("Context", "Context"), ("registry.run", "run")):
        bad = None
        for nm, o in results.items():
            if o.crash is not None:
                bad = bad or f"{nm}: the run crashes ({o.crash})"
                continue
            files = [e[1] for e in o.events("File")]
            sel = [e[1] for e in o.events("run")]
            seq = [(e[0], id(e[1]) if e[0] != "Context" else id(e[1].__dict__.get("file"))) for e in o.trace if e[0] in ("Lexer", "Context", "run")]
            per = {}
            for k, fid in seq:
                per.setdefault(fid, []).append(k)
            n_expected = {"files": 4, "inline-c": 1, "inline-h": 1, "cwd": 4}[nm]
            if len(per) != n_expected:
                bad = bad or f"{nm}: {len(per)} files go through the pipeline, expected {n_expected}"
            for fid, ks in per.items():
                if ks.count(kind) != 1:
                    bad = bad or f"{nm}: {f}(...) is called {ks.count(kind)} times for one file"
                elif ks != ["Lexer", "Context", "run"]:
                    bad = bad or f"{nm}: the pipeline of a file is {ks}"
            for e in o.events("Context"):
                ctx = e[1]
                toks = ctx.__dict__.get("tokens")
                if not (isinstance(toks, list) and len(toks) == 1):
                    bad = bad or f"{nm}: Context does not get the token list of the file's lexer"
        run.ob("R-16.5", f"{main.key}::single[{f}]", bad is None,
               f"{f}(...) is not called exactly once per file, unconditionally, with the same arguments for inline and file content: {bad}",
               main.node, calls=sum(len(o.events(kind)) for o in results.values()))
    # the file is analysed under the name it was selected by: a symbolic link `api.h -> api_v2.h` is the header api.h (its guard
    # is API_H), exactly as the same text given with --hfile --filename api.h would be
    import posixpath as _pp
    link_tree = {"inc": {"api_v2.h": TREE["zz.c"], "api.h": ("->", "api_v2.h")}, "main.c": TREE["zz.c"]}
    bad = None
    for args, want in ((["inc/api.h"], ["api.h"]), (["inc"], ["api.h", "api_v2.h"]), (["main.c", "inc/api.h"], ["main.c", "api.h"])):
        o = runs.run(args, tree=link_tree)
        if o.crash is not None:
            bad = bad or f"arguments {args}: the run crashes ({o.crash})"
            continue
        got = [str(e[1].__dict__.get("basename")) for e in o.events("run")]
        if sorted(got) != sorted(want):
            bad = bad or f"arguments {args} (inc/api.h is a link to api_v2.h): analysed under the names {got}, selected as {want}"
    run.ob("R-16.5", f"{main.key}::named-as-selected", bad is None,
           f"a file is not analysed under the name it was selected by: {bad}: its diagnostics (include guard) differ from those of "
           f"the same content given inline under that name", main.node)
    from .c04 import FormatterBench
    from ..minieval import Unsupported
    from ..xeval import Raised
    import posixpath
    fi = prog.method("File", "__init__")
    src = prog.method("File", "source")
    run.require(fi is not None and src is not None, "anchor vanished: File.__init__ / File.source")
    bad = None
    try:
        for p in ("a.c", "d/e.h", "x.y.c", "noext", "/abs/sp ace.h", ".hidden", "Dir/Mixed.Case.H", "x.c/"):
            shapes = []
            for source in (None, "int a;\n", ""):
                b = FormatterBench(prog)
                f = b.ev.construct("File", [p] + ([source] if source is not None else []), {})
                shapes.append((b.ev.getattr(f, "path"), b.ev.getattr(f, "basename"), b.ev.getattr(f, "name"), b.ev.getattr(f, "type")))
            bn = posixpath.basename(p)
            want = (p, bn) + posixpath.splitext(bn)
            if any(s_ != want for s_ in shapes):
                bad = bad or f"File({p!r}[, source]) has (path, basename, name, type) = {shapes}, expected {want}"
    except Raised as r:
        bad = f"File(...) raises {r.value!r}"
    except Unsupported as e:
        raise Undecided(f"File.__init__ is outside the evaluable subset: {e}")
    run.ob("R-16.5", f"{fi.key}::derivation", bad is None, f"File.__init__ derives its fields otherwise: {bad}", fi.node)
    bad = None
    # (no CR: reading a file translates line ends, which the pinned tree does as well)
    texts = ["int\ta;\n", "x \t \n", "no newline at the end", "", "\t\u00fc\t\n\n\n", "  lead", "\ufeffint a;\n", "\n\n  \n", "a\x0cb\x0b\n"]
    for i, t in enumerate(texts):
        tree = {"t.c": t}
        o1 = runs.run(["t.c"], tree=tree)
        o2 = runs.run([], extra=[("--cfile", [t])] if t else [("--hfile", ["x"]), ("--filename", ["k.h"])], tree=tree)
        got1 = [e[2] for e in o1.events("lexed")]
        if o1.crash is not None or got1 != [t]:
            bad = bad or f"a file containing {t!r} reaches the lexer as {got1} ({o1.crash})"
        if t:
            got2 = [e[2] for e in o2.events("lexed")]
            if o2.crash is not None or got2 != [t]:
                bad = bad or f"inline content {t!r} reaches the lexer as {got2} ({o2.crash})"
    run.ob("R-16.5", f"{src.key}::unchanged-text", bad is None,
           f"File.source does not return the given text / the file content unchanged: {bad}", src.node)


def check(run, prog):
    discover_flags(prog)
    rule_debug(run, prog)
    rule_R(run, prog)
    rule_presentation_options(run, prog)
    rule_views(run, prog)
    rule_pipeline(run, prog)
    from .c08 import rule_prints
    rule_prints(run, prog)        # R-16.6 = R-8.6
    from .c05_file_read import rule_lossless_read
    rule_lossless_read(run, prog, "R-16.7")
