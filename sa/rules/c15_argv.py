"""R-15.6 (property C15): every path written on the command line reaches the work list.

The abstract runs of __main__ (R-15.1 .. R-15.5) hand the analysed `main` a parsed command line; how the words of argv become
that parse is argparse's business, and one parser method makes the difference: `parse_args()` refuses words it cannot place,
`parse_known_args()` returns them in a second list.  With a `nargs="*"` positional, argparse places only the *first* run of
positionals there: in `norminette a.c --no-colors b.c` the word `b.c` ends up among the leftovers.  A main that parses with
`parse_known_args` (or `parse_known_intermixed_args`) and does not refuse a non-empty leftover list silently drops named files."""
from __future__ import annotations

import ast

from ..model import parent, text, walk_fn


def rule_argv_complete(run, prog, rid="R-15.6"):
    run.rule(rid, "every path word of the command line is placed or refused: __main__ parses argv with parse_args() / "
             "parse_intermixed_args(); a parse_known_args() whose leftover list is not refused (error / exit when non-empty) lets paths "
             "written after an option disappear", floor=1)
    n = 0
    for fn in prog.fns:
        if fn.mod.rel != "__main__.py":
            continue
        for c in walk_fn(fn.node):
            if not (isinstance(c, ast.Call) and isinstance(c.func, ast.Attribute) and c.func.attr.startswith("parse_") and
                    c.func.attr.endswith("args")):
                continue
            n += 1
            ok, why = True, ""
            if "known" in c.func.attr:
                # accepted only when the second result is tested and the non-empty outcome ends the run
                p = parent(c)
                left = None
                if isinstance(p, ast.Assign) and isinstance(p.targets[0], (ast.Tuple, ast.List)) and len(p.targets[0].elts) == 2 \
                        and isinstance(p.targets[0].elts[1], ast.Name):
                    left = p.targets[0].elts[1].id
                refused = False
                if left:
                    for t in walk_fn(fn.node):
                        if isinstance(t, ast.If) and text(t.test) in (left, f"len({left})", f"len({left}) > 0", f"{left} != []") and t.body:
                            last = t.body[-1]
                            if isinstance(last, ast.Raise) or (isinstance(last, ast.Expr) and isinstance(last.value, ast.Call) and
                                                               text(last.value.func) in ("parser.error", "sys.exit", "exit", "parser.exit")):
                                refused = True
                ok = refused
                why = (f"`{text(c, 50)}` keeps the words argparse could not place in a second list that is not refused: with a `nargs='*'` "
                       f"positional, paths written after an option land there (norminette a.c --no-colors b.c never checks b.c, a missing "
                       f"path there does not abort)")
            run.ob(rid, f"{fn.key}::argv[{c.func.attr}]", ok, why, c)
    run.require(n >= 1, "anchor vanished: no parse_*args() call in __main__")
