"""R-9.7 (properties C03 / C08 / C09): rules cut token text into lines exactly where the lexer does.

The lexer ends a line at '\\n' only (Lexer.pop: `if char == '\\n'`); a block comment is one token whose text keeps its
line feeds.  A rule that measures or positions the lines of such a token must split on '\\n' alone: `str.splitlines()`
also cuts at \\r, \\v, \\f, \\x1c-\\x1e, \\x85, U+2028 and U+2029, so a comment line holding one of those is measured in
pieces (an over-long line goes unreported) and every later line of the comment is numbered too high."""
from __future__ import annotations

import ast

from ..fold import fold_in_fn
from ..model import text, walk_fn


def rule_line_split(run, prog, rid="R-9.7"):
    run.rule(rid, "sibling agreement with the lexer's notion of a line: token text / source text is cut into lines only by "
             "split('\\n') (never splitlines(), never another separator set) outside the lexer", floor=1)
    n = 0
    for fn in prog.fns:
        if fn.mod.rel in ("__main__.py", "lexer/lexer.py"):
            continue                        # the lexer itself reads characters; main cuts no token text
        for c in walk_fn(fn.node):
            if not (isinstance(c, ast.Call) and isinstance(c.func, ast.Attribute)):
                continue
            recv = text(c.func.value)
            # token text, or a helper's string parameter (a helper that cuts lines for the rules, e.g. in lexer/tokens.py)
            about_text = ".value" in recv or "source" in recv or "header" in recv \
                or (isinstance(c.func.value, ast.Name) and c.func.value.id in fn.params)
            if c.func.attr == "splitlines" and about_text:
                n += 1
                run.ob(rid, f"{fn.key}::line-split[{text(c, 50)}]", False,
                       f"`{text(c, 60)}` cuts the text at every Unicode line boundary (\\r \\v \\f \\x1c-\\x1e \\x85 U+2028 U+2029), the lexer "
                       f"only at \\n: lines are measured in pieces and numbered too high", c)
            elif c.func.attr in ("split", "rsplit") and about_text and c.args:
                sep = fold_in_fn(c.args[0], fn, default=None)
                if isinstance(sep, str) and "\n" in sep:
                    n += 1
                    run.ob(rid, f"{fn.key}::line-split[{text(c, 50)}]", sep == "\n",
                           f"`{text(c, 60)}` separates lines with {sep!r}, the lexer with '\\n'", c)
    if n == 0:
        run.note(f"{rid}: no rule cuts token text into lines in this tree")
