"""C11 — C literals are classified as C defines them (partial: tables, emitters,
one token per literal, regex hygiene).  DESIGN.md §4.11."""
from __future__ import annotations

import ast
import itertools
import re._constants as sre_c        # type: ignore
import re._parser as sre_parse       # type: ignore
from typing import Set

from ..calls import lexer_parsers
from ..facts import emission_sites, live_function_keys, trivially_dead, value_set
from ..fold import RegexConst, Unknown, fold_in_fn, fold_name
from ..model import AnalysisError, ancestors, text, walk_fn
from .c05 import _regex_may_match


def _cases(*units):
    """All concatenations where each unit is written all-lower or all-upper."""
    out = set()
    for combo in itertools.product(*[(u.lower(), u.upper()) for u in units]):
        out.add("".join(combo))
    return out


def reference_int_suffixes() -> Set[str]:
    ref = {""}
    for u in ("u", "l", "ll", "z", "wb", "i64"):
        ref |= _cases(u)
    for a in ("l", "ll", "z", "wb"):
        ref |= _cases("u", a) | _cases(a, "u")
    ref |= _cases("u", "i64")
    return ref


REF_FLOAT = {"", "f", "F", "l", "L", "d", "D"}
REF_PREFIX = {"L", "u", "U", "u8"}
REF_ESC = set("abfnrtv\\'\"?")

FAMILIES = [
    ("digit not allowed in a binary constant", "INVALID_BIN_INT", "parse_integer_literal"),
    ("digit not allowed in an octal constant", "INVALID_OCT_INT", "parse_integer_literal"),
    ("digit not allowed in a hexadecimal constant", "INVALID_HEX_INT", "parse_integer_literal"),
    ("unknown integer suffix", "INVALID_SUFFIX", "parse_integer_literal"),
    ("sign glued after an e-ending integer", "MAXIMAL_MUNCH", "parse_integer_literal"),
    ("unknown float suffix", "BAD_FLOAT_SUFFIX", "parse_float_literal"),
    ("exponent without digits", "BAD_EXPONENT", "parse_float_literal"),
    ("several dots", "MULTIPLE_DOTS", "parse_float_literal"),
    ("several x in a hexadecimal float", "MULTIPLE_X", "parse_float_literal"),
    ("empty character constant", "EMPTY_CHAR", "parse_char_literal"),
    ("several characters in a character constant", "CHAR_AS_STRING", "parse_char_literal"),
    ("character constant unterminated at end of line", "UNEXPECTED_EOL_CHR", "parse_char_literal"),
    ("character constant unterminated at end of file", "UNEXPECTED_EOF_CHR", "parse_char_literal"),
    ("unterminated string", "UNEXPECTED_EOF_STR", "parse_string_literal"),
    ("unterminated block comment", "UNEXPECTED_EOF_MC", "parse_multi_line_comment"),
    ("\\x without hexadecimal digits", "NO_HEX_DIGITS", "pop"),
    ("unknown escape sequence", "UNKNOWN_ESCAPE", "pop"),
]


def rule_digitless_exponent(run, prog):
    """R-11.5: wherever a float pattern's Exponent group can capture an exponent marker without any digit, the
    sub-parser's BAD_EXPONENT emission must be reachable for that pattern type."""
    from ..regexlang import Rep, UNIVERSE, UnsupportedRegex, from_template, group_nfa, intersection_witness
    run.rule("R-11.5", "LANG + guard: for each float pattern whose Exponent group can capture a digit-less exponent (language "
             "intersection with the digit-free strings is not empty), the guard of the BAD_EXPONENT emission does not exclude "
             "that pattern's type", floor=3)
    lm = prog.mod("lexer/lexer.py")
    pf = prog.method("Lexer", "parse_float_literal")
    # type labels:  if match := PATTERN.match(src): type = "<label>"
    label_of = {}
    for n in walk_fn(pf.node):
        if isinstance(n, ast.If) and isinstance(n.test, ast.NamedExpr) and isinstance(n.test.value, ast.Call) \
                and isinstance(n.test.value.func, ast.Attribute) and n.test.value.func.attr == "match":
            pat = text(n.test.value.func.value)
            for st in n.body:
                if isinstance(st, ast.Assign) and text(st.targets[0]) == "type" and isinstance(st.value, ast.Constant):
                    label_of[pat] = st.value.value
    run.require(len(label_of) >= 3, "anchor vanished: the pattern-type dispatch of parse_float_literal")
    # guard of the BAD_EXPONENT emission
    em = [n for n in walk_fn(pf.node) if isinstance(n, ast.Call) and text(n.func) == "Error.from_name" and n.args
          and isinstance(n.args[0], ast.Constant) and n.args[0].value == "BAD_EXPONENT"]
    run.require(len(em) >= 1, "anchor vanished: BAD_EXPONENT emission in parse_float_literal")
    guards = [a for a in ancestors(em[0]) if isinstance(a, ast.If)]
    allowed_types = None      # None = every type
    if guards:
        from ..facts import conjuncts
        for c in conjuncts(guards[0].test):
            if isinstance(c, ast.Compare) and len(c.ops) == 1 and text(c.left) == "type":
                v = fold_in_fn(c.comparators[0], pf, default=None)
                if isinstance(c.ops[0], ast.Eq) and isinstance(v, str):
                    allowed_types = {v}
                elif isinstance(c.ops[0], ast.In) and isinstance(v, (tuple, list)):
                    allowed_types = set(v)
    nodigit = frozenset(c for c in UNIVERSE if not c.isdigit())
    for pat, label in sorted(label_of.items()):
        try:
            rc = fold_name(pat, lm)
            g = group_nfa(rc.pattern, rc.flags, "Exponent")
        except (Unknown, UnsupportedRegex) as e:
            raise AnalysisError(f"{pat}: cannot analyse the Exponent group: {e}")
        w, st = intersection_witness(g, from_template([Rep(nodigit, 1, None)]))
        covered = allowed_types is None or label in allowed_types
        run.ob("R-11.5", f"{pf.key}::digitless-exponent[{label}]", w is None or covered,
               f"the Exponent group of {pat} can capture {w!r} (an exponent without digits) but BAD_EXPONENT is only emitted "
               f"for type(s) {sorted(allowed_types) if allowed_types else 'all'}: such a constant gets no diagnostic",
               guards[0].test if guards else em[0], witness=w, product_states=st["states"])


def check(run, prog):
    rule_digitless_exponent(run, prog)
    lm = prog.mod("lexer/lexer.py")

    def table(name):
        try:
            return fold_name(name, lm)
        except Unknown as e:
            raise AnalysisError(f"lexer table {name} does not fold: {e}")

    # ---- R-11.1 ---------------------------------------------------------------------------------
    run.rule("R-11.1", "TABLE: the folded suffix / prefix / escape / digit tables of the lexer contain the reference sets of "
             "C11 6.4.4 and the listed extensions (0b, u/l/ll/z/wb/i64, f/l/d, L/u/U/u8, simple escapes)", floor=9)
    ints = set(table("integer_suffixes"))
    miss = sorted(reference_int_suffixes() - ints)
    run.ob("R-11.1", "lexer/lexer.py::integer_suffixes", not miss,
           f"valid integer suffix(es) {miss} are missing: such constants get INVALID_SUFFIX", lm.assigns["integer_suffixes"][0],
           size=len(ints))
    fl = set(table("float_suffixes"))
    miss = sorted(REF_FLOAT - fl)
    run.ob("R-11.1", "lexer/lexer.py::float_suffixes", not miss, f"valid float suffix(es) {miss} are missing",
           lm.assigns["float_suffixes"][0])
    qp = set(table("quote_prefixes"))
    miss = sorted(REF_PREFIX - qp)
    run.ob("R-11.1", "lexer/lexer.py::quote_prefixes", not miss, f"character/string prefix(es) {miss} are missing",
           lm.assigns["quote_prefixes"][0])
    od, hd = table("octal_digits"), table("hexadecimal_digits")
    run.ob("R-11.1", "lexer/lexer.py::octal_digits", isinstance(od, str) and set(od) == set("01234567"),
           f"octal_digits is {od!r}", lm.assigns["octal_digits"][0])
    run.ob("R-11.1", "lexer/lexer.py::hexadecimal_digits", isinstance(hd, str) and set(hd) == set("0123456789abcdefABCDEF"),
           f"hexadecimal_digits is {hd!r}", lm.assigns["hexadecimal_digits"][0])
    pop = prog.method("Lexer", "pop")
    esc = None
    has_x = has_oct = False
    for n in walk_fn(pop.node):
        if isinstance(n, ast.If) and any(isinstance(a, ast.If) and text(a.test) == "use_escape" for a in ancestors(n)) or \
                (isinstance(n, ast.If) and text(n.test) == "use_escape"):
            for t in ast.walk(n.test):
                pass
        if isinstance(n, ast.Compare) and len(n.ops) == 1 and isinstance(n.ops[0], ast.In) and text(n.left) == "temp" \
                and any(isinstance(a, ast.If) and text(a.test) == "use_escape" for a in ancestors(n)):
            v = fold_in_fn(n.comparators[0], pop, default=None)
            if isinstance(v, str) and "n" in v and "t" in v:
                esc = (v, n)
            if isinstance(v, str) and set(v) == set("01234567"):
                has_oct = True
        if isinstance(n, ast.Compare) and text(n) in ("temp == 'x'", "'x' == temp"):
            has_x = True
    run.require(esc is not None, "anchor vanished: the simple-escape literal tested in Lexer.pop(use_escape=True)")
    miss = sorted(REF_ESC - set(esc[0]))
    run.ob("R-11.1", "lexer/lexer.py::Lexer.pop::simple-escapes", not miss,
           f"simple escape(s) {miss} are not recognised: valid character/string constants get UNKNOWN_ESCAPE", esc[1],
           literal=esc[0])
    run.ob("R-11.1", "lexer/lexer.py::Lexer.pop::hex-and-octal-escapes", has_x and has_oct,
           "the \\x or the octal escape branch of Lexer.pop is gone", pop.node)
    pil = prog.method("Lexer", "parse_integer_literal")
    buckets = {}
    for n in walk_fn(pil.node):
        if isinstance(n, ast.Call) and isinstance(n.func, ast.Name) and n.func.id == "_check_bad_prefix" and len(n.args) == 2:
            name = fold_in_fn(n.args[0], pil, default=None)
            bucket = fold_in_fn(n.args[1], pil, default=None)
            guard = [a for a in ancestors(n) if isinstance(a, ast.If)]
            buckets[name] = (bucket, text(guard[0].test) if guard else "", n)
    want = {"BIN": (set("01"), {"0b", "0B"}), "OCT": (set("01234567"), {"0"}), "HEX": (set("0123456789abcdefABCDEF"), {"0x", "0X"})}
    for name, (digits, prefixes) in want.items():
        b = buckets.get(name)
        ok = b is not None and isinstance(b[0], str) and set(b[0]) == digits and all(repr(p) in b[1] for p in prefixes)
        run.ob("R-11.1", f"{pil.key}::digits[{name}]", ok,
               f"the digit set checked for {name} constants is {b[0] if b else None!r} under `{b[1] if b else ''}`; expected "
               f"{''.join(sorted(digits))} under prefixes {sorted(prefixes)}", b[2] if b else pil.node)

    # ---- R-11.2 ---------------------------------------------------------------------------------
    run.rule("R-11.2", "EMIT: every malformed-literal family has a live emission site of its code in the sub-parser that "
             "recognises the family", floor=17)
    live = live_function_keys(prog)
    by_fn = {}
    for e in emission_sites(prog):
        if e.fn.mod.rel != "lexer/lexer.py" or e.code_expr is None:
            continue
        f = e.fn
        while f.outer is not None:
            f = f.outer
        if e.fn.key not in live or trivially_dead(e.node):
            continue
        vs = value_set(prog, e.fn, e.code_expr) or set()
        for v in vs:
            by_fn.setdefault((f.name, v), []).append(e)
        # an emission inside a helper whose code is a parameter belongs to the callers, per call site
        if isinstance(e.code_expr, ast.Name) and e.code_expr.id in e.fn.params:
            from ..calls import callgraph
            idx = e.fn.params.index(e.code_expr.id) - (1 if e.fn.cls is not None and e.fn.params and e.fn.params[0] in ("self", "cls") else 0)
            for c in callgraph(prog).sites.get(e.fn.key, []):
                if not isinstance(c.node, ast.Call) or trivially_dead(c.node):
                    continue
                arg = c.node.args[idx] if idx < len(c.node.args) else next((k.value for k in c.node.keywords if k.arg == e.code_expr.id), None)
                if arg is None:
                    continue
                cf = c.caller
                while cf.outer is not None:
                    cf = cf.outer
                for v in (value_set(prog, c.caller, arg) or set()):
                    by_fn.setdefault((cf.name, v), []).append(e)
    for fam, code, fname in FAMILIES:
        sites = by_fn.get((fname, code), [])
        run.ob("R-11.2", f"lexer/lexer.py::Lexer.{fname}::emit[{code}]", bool(sites),
               f"no live site emits {code} ({fam}) in Lexer.{fname}", sites[0].node if sites else None)

    # ---- R-11.3 ---------------------------------------------------------------------------------
    run.rule("R-11.3", "one token per literal: each literal sub-parser has exactly one return of a Token for the recognised "
             "case; float precedes integer precedes identifier, char/string precede identifier in Lexer.parsers", floor=5)
    order = [f.name for f in lexer_parsers(prog)]

    def before(a, b):
        return a in order and b in order and order.index(a) < order.index(b)

    ok = before("parse_float_literal", "parse_integer_literal") and before("parse_integer_literal", "parse_identifier") \
        and before("parse_char_literal", "parse_identifier") and before("parse_string_literal", "parse_identifier") \
        and before("parse_float_literal", "parse_operator") and before("parse_line_comment", "parse_operator") \
        and before("parse_multi_line_comment", "parse_operator")
    run.ob("R-11.3", "lexer/lexer.py::Lexer.parsers::order", ok,
           f"sub-parser order {order} lets a shorter lexeme win (e.g. 1.5 -> CONSTANT DOT CONSTANT, u8\"x\" -> IDENTIFIER STRING, "
           f"// -> DIV DIV)", prog.cls("Lexer").attr_nodes.get("parsers"))
    for fname, kind in (("parse_char_literal", "CHAR_CONST"), ("parse_string_literal", "STRING"),
                        ("parse_integer_literal", "CONSTANT"), ("parse_float_literal", "CONSTANT")):
        fn = prog.method("Lexer", fname)
        toks = [n for n in walk_fn(fn.node) if isinstance(n, ast.Call) and isinstance(n.func, ast.Name) and n.func.id == "Token"]
        kinds = {fold_in_fn(t.args[0], fn, default=None) for t in toks}
        run.ob("R-11.3", f"{fn.key}::single-token", len(toks) == 1 and kinds == {kind},
               f"{fname} builds {len(toks)} tokens of kinds {kinds}: a literal must become exactly one {kind} token", fn.node)

    # ---- R-11.4 ---------------------------------------------------------------------------------
    run.rule("R-11.4", "regex hygiene: each numeric pattern is anchored at the start and no part of it can match a "
             "backslash, a quote or white space (one token spans the constant; head-verified pops of R-5.2)", floor=4)
    for name in ("INT_LITERAL_PATTERN", "FLOAT_EXPONENT_LITERAL_PATTERN", "FLOAT_FRACTIONAL_LITERAL_PATTERN",
                 "FLOAT_HEXADECIMAL_LITERAL_PATTERN"):
        try:
            rc = fold_name(name, lm)
        except Unknown as e:
            raise AnalysisError(f"{name} does not fold: {e}")
        run.require(isinstance(rc, RegexConst), f"{name} is not a compiled pattern")
        tree = sre_parse.parse(rc.pattern, rc.flags)
        anchored = len(tree) > 0 and tree[0][0] is sre_c.AT and tree[0][1] is sre_c.AT_BEGINNING
        bad = [repr(ch) for ch in "\\'\" \t\n" if _regex_may_match(rc.pattern, rc.flags, ch)]
        run.ob("R-11.4", f"lexer/lexer.py::{name}", anchored and not bad,
               f"{name}: " + ("not anchored at ^; " if not anchored else "") + (f"can match {bad}" if bad else ""),
               lm.assigns[name][0])
    # the patterns are applied with match() on the rest of the source
    for fname in ("parse_integer_literal", "parse_float_literal"):
        fn = prog.method("Lexer", fname)
        numeric = ("INT_LITERAL_PATTERN", "FLOAT_EXPONENT_LITERAL_PATTERN", "FLOAT_FRACTIONAL_LITERAL_PATTERN",
                   "FLOAT_HEXADECIMAL_LITERAL_PATTERN")
        uses = [n for n in walk_fn(fn.node) if isinstance(n, ast.Call) and isinstance(n.func, ast.Attribute)
                and n.func.attr in ("match", "search", "fullmatch") and text(n.func.value) in numeric]
        run.ob("R-11.4", f"{fn.key}::match-at-position", bool(uses) and all(u.func.attr == "match" for u in uses),
               "a numeric pattern is not applied with match() at the current position", uses[0] if uses else fn.node)
