"""C11 — C literals are classified as C defines them (partial: tables, emitters,
one token per literal, regex hygiene).  DESIGN.md §4.11."""
from __future__ import annotations

import ast
import itertools
import re._constants as sre_c        # type: ignore
import re._parser as sre_parse       # type: ignore
from typing import Set

from ..calls import lexer_parsers
from ..facts import conjuncts, emission_sites, live_function_keys, trivially_dead, value_set
from ..fold import RegexConst, Unknown, fold, fold_in_fn, fold_name
from ..lexsim import LexerSim
from ..minieval import Unsupported
from ..model import AnalysisError, Undecided, ancestors, text, walk_fn
from .c05 import _regex_may_match


def _cases(*units):
    """All concatenations where each unit is written all-lower or all-upper."""
    out = set()
    for combo in itertools.product(*[(u.lower(), u.upper()) for u in units]):
        out.add("".join(combo))
    return out


def reference_int_suffixes() -> Set[str]:
    ref = {""}
    for u in ("u", "l", "ll", "z", "wb", "i64"):
        ref |= _cases(u)
    for a in ("l", "ll", "z", "wb"):
        ref |= _cases("u", a) | _cases(a, "u")
    ref |= _cases("u", "i64")
    return ref


REF_FLOAT = {"", "f", "F", "l", "L", "d", "D"}
REF_PREFIX = {"L", "u", "U", "u8"}
REF_ESC = set("abfnrtv\\'\"?")

FAMILIES = [
    ("digit not allowed in a binary constant", "INVALID_BIN_INT", "parse_integer_literal"),
    ("digit not allowed in an octal constant", "INVALID_OCT_INT", "parse_integer_literal"),
    ("digit not allowed in a hexadecimal constant", "INVALID_HEX_INT", "parse_integer_literal"),
    ("unknown integer suffix", "INVALID_SUFFIX", "parse_integer_literal"),
    ("sign glued after an e-ending integer", "MAXIMAL_MUNCH", "parse_integer_literal"),
    ("unknown float suffix", "BAD_FLOAT_SUFFIX", "parse_float_literal"),
    ("exponent without digits", "BAD_EXPONENT", "parse_float_literal"),
    ("several dots", "MULTIPLE_DOTS", "parse_float_literal"),
    ("several x in a hexadecimal float", "MULTIPLE_X", "parse_float_literal"),
    ("empty character constant", "EMPTY_CHAR", "parse_char_literal"),
    ("several characters in a character constant", "CHAR_AS_STRING", "parse_char_literal"),
    ("character constant unterminated at end of line", "UNEXPECTED_EOL_CHR", "parse_char_literal"),
    ("character constant unterminated at end of file", "UNEXPECTED_EOF_CHR", "parse_char_literal"),
    ("unterminated string", "UNEXPECTED_EOF_STR", "parse_string_literal"),
    ("unterminated block comment", "UNEXPECTED_EOF_MC", "parse_multi_line_comment"),
    ("\\x without hexadecimal digits", "NO_HEX_DIGITS", "pop"),
    ("unknown escape sequence", "UNKNOWN_ESCAPE", "pop"),
]


_RE_APPLY = ("match", "search", "fullmatch")


def _target_names(t):
    if isinstance(t, ast.Name):
        return [t.id]
    if isinstance(t, (ast.Tuple, ast.List)):
        return [n for e in t.elts for n in _target_names(e)]
    return []


def _bind_target(t, v, env) -> bool:
    if isinstance(t, ast.Name):
        env[t.id] = v
        return True
    if isinstance(t, (ast.Tuple, ast.List)) and isinstance(v, (tuple, list)) and len(v) == len(t.elts):
        return all(_bind_target(a, b, env) for a, b in zip(t.elts, v))
    return False


class PatternUse:
    """One (pattern, discriminating constants) alternative of a regex application site."""

    def __init__(self, call, method, rc, env, name):
        self.call, self.method, self.rc, self.env, self.name = call, method, rc, env, name


def pattern_uses(fn):
    """The compiled patterns a function applies to its input, however they are selected: a constant named at the site
    (``P.match(src)``, also under an if/elif chain that sets discriminating constants), or the loop variable of a loop
    over a folded table of patterns (tuple of pairs, dict items, plain tuple ...).  Returns (uses, unresolved sites)."""
    mod = fn.mod
    re_aliases = {a for a, (src, orig) in mod.imports.items() if src == "re" and orig is None}
    uses, unresolved = [], []
    for n in walk_fn(fn.node):
        if not (isinstance(n, ast.Call) and isinstance(n.func, ast.Attribute) and n.func.attr in _RE_APPLY):
            continue
        recv = n.func.value
        if isinstance(recv, ast.Name) and recv.id in re_aliases:
            continue                                      # re.match(pattern, text): not applied to the source
        a0 = n.args[0] if n.args else None
        if (isinstance(a0, ast.Subscript) and isinstance(a0.slice, ast.Constant) and isinstance(a0.slice.value, (str, int))) \
                or (isinstance(a0, ast.Call) and isinstance(a0.func, ast.Attribute) and a0.func.attr == "group"):
            continue                                      # applied to a group of an earlier match, not to the source
        names = {x.id for x in ast.walk(recv) if isinstance(x, ast.Name)}
        loop = next((a for a in ancestors(n) if isinstance(a, (ast.For, ast.comprehension)) and names & set(_target_names(a.target))), None)
        if loop is None:
            for a in ancestors(n):            # generator expressions: the comprehension is a child, not an ancestor
                if isinstance(a, (ast.GeneratorExp, ast.ListComp, ast.SetComp)):
                    for g in a.generators:
                        if names & set(_target_names(g.target)):
                            loop = g
        if loop is None:
            rc = fold_in_fn(recv, fn, default=None)
            if not isinstance(rc, RegexConst):
                unresolved.append(n)
                continue
            env = {}
            holder = next((a for a in ancestors(n) if isinstance(a, ast.If) and any(x is n for x in ast.walk(a.test))), None)
            if holder is not None:
                for st in holder.body:
                    if isinstance(st, ast.Assign) and len(st.targets) == 1 and isinstance(st.targets[0], ast.Name) \
                            and isinstance(st.value, ast.Constant):
                        env[st.targets[0].id] = st.value.value
            uses.append(PatternUse(n, n.func.attr, rc, env, text(recv, 60)))
            continue
        it = fold_in_fn(loop.iter, fn, default=None)
        if isinstance(it, dict):
            it = list(it)
        if not isinstance(it, (tuple, list)) or not it:
            unresolved.append(n)
            continue
        for elem in it:
            env = {}
            if not _bind_target(loop.target, elem, env):
                unresolved.append(n)
                break
            try:
                rc = fold(recv, mod, dict(env))
            except (Unknown, RecursionError):
                rc = None
            if not isinstance(rc, RegexConst):
                unresolved.append(n)
                break
            consts = {k: v for k, v in env.items() if isinstance(v, (str, int, bool))}
            uses.append(PatternUse(n, n.func.attr, rc, consts, _pattern_name(mod, rc) or text(recv, 60)))
    return uses, unresolved


def _pattern_name(mod, rc) -> str:
    from ..model import program
    prog = program()
    for nm in sorted(mod.assigns):
        try:
            v = fold_name(nm, mod, prog)
        except (Unknown, RecursionError):
            continue
        if isinstance(v, RegexConst) and v.pattern == rc.pattern and v.flags == rc.flags:
            return nm
    return ""


def _guard_restrictions(fn, node, names):
    """Restrictions `name == const` / `name in consts` that hold where *node* executes (tests of the enclosing ifs whose
    true branch contains it; negated tests of the earlier arms of the same if/elif chain are ignored: they only widen)."""
    out = {}
    cur = node
    for a in ancestors(node):
        if isinstance(a, ast.If) and (any(cur is s for s in a.body) or any(cur is x for x in ast.walk(a.test))):
            for c in conjuncts(a.test):
                if any(cur is x for x in ast.walk(c)):
                    continue
                if isinstance(c, ast.Compare) and len(c.ops) == 1 and isinstance(c.left, ast.Name) and c.left.id in names:
                    v = fold_in_fn(c.comparators[0], fn, default=None)
                    if isinstance(c.ops[0], ast.Eq) and isinstance(v, (str, int)):
                        out.setdefault(c.left.id, []).append({v})
                    elif isinstance(c.ops[0], ast.In) and isinstance(v, (tuple, list, set, frozenset)):
                        out.setdefault(c.left.id, []).append(set(v))
        if isinstance(a, (ast.FunctionDef, ast.AsyncFunctionDef)):
            break
        cur = a
    return {k: set.intersection(*v) for k, v in out.items()}


def rule_digitless_exponent(run, prog):
    """R-11.5: wherever a float pattern's Exponent group can capture an exponent marker without any digit, the
    sub-parser's BAD_EXPONENT emission must be reachable for that pattern type."""
    from ..regexlang import Rep, UNIVERSE, UnsupportedRegex, from_template, group_nfa, intersection_witness
    run.rule("R-11.5", "LANG + guard: for each float pattern whose Exponent group can capture a digit-less exponent (language "
             "intersection with the digit-free strings is not empty), the guard of the BAD_EXPONENT emission does not exclude "
             "that pattern's type", floor=3)
    pf = prog.method("Lexer", "parse_float_literal")
    run.require(pf is not None, "anchor vanished: Lexer.parse_float_literal")
    uses, unresolved = pattern_uses(pf)
    uses = [u for u in uses if "Exponent" in u.rc.pattern]
    run.require(len(uses) >= 3 and not unresolved,
                "cannot enumerate the patterns parse_float_literal applies (" + "; ".join(text(u, 50) for u in unresolved[:2])
                + f"; {len(uses)} resolved)")
    # guard of the BAD_EXPONENT emission
    em = [n for n in walk_fn(pf.node) if isinstance(n, ast.Call) and text(n.func) == "Error.from_name" and n.args
          and isinstance(n.args[0], ast.Constant) and n.args[0].value == "BAD_EXPONENT"]
    run.require(len(em) >= 1, "anchor vanished: BAD_EXPONENT emission in parse_float_literal")
    disc = set()
    for u in uses:
        disc |= set(u.env)
    restr = _guard_restrictions(pf, em[0], disc)
    guards = [a for a in ancestors(em[0]) if isinstance(a, ast.If)]
    nodigit = frozenset(c for c in UNIVERSE if not c.isdigit())
    seen = set()
    for u in sorted(uses, key=lambda u: str(u.env.get("type", u.name))):
        label = u.env.get("type", u.name)
        if (label, u.rc.pattern) in seen:
            continue
        seen.add((label, u.rc.pattern))
        try:
            g = group_nfa(u.rc.pattern, u.rc.flags, "Exponent")
        except UnsupportedRegex as e:
            raise AnalysisError(f"{u.name}: cannot analyse the Exponent group: {e}")
        w, st = intersection_witness(g, from_template([Rep(nodigit, 1, None)]))
        excluded = sorted(k for k, allowed in restr.items() if k in u.env and u.env[k] not in allowed)
        run.ob("R-11.5", f"{pf.key}::digitless-exponent[{label}]", w is None or not excluded,
               f"the Exponent group of {u.name} can capture {w!r} (an exponent without digits) but BAD_EXPONENT is only emitted "
               f"for " + ", ".join(f"{k} in {sorted(restr[k])}" for k in excluded) + ": such a constant gets no diagnostic",
               guards[0].test if guards else em[0], witness=w, product_states=st["states"])


# ------------------------------------------------------------------------------------- escapes (abstract execution)
def _pop_escape(prog, source):
    """Lexer.pop(use_escape=True), interpreted by the analyser on a stub source; (text, consumed, diagnostics)."""
    sim = LexerSim(prog, source)
    out = sim.call("pop", use_escape=True)
    if out.kind != "ok":
        return None, sim.pos, sim.error_names() + [f"raise {out.exc}"]
    return out.value, sim.pos, sim.error_names()


def _const_node(fn, pred):
    for n in walk_fn(fn.node):
        if isinstance(n, ast.Constant) and isinstance(n.value, str) and pred(n.value):
            return n
    return fn.node


def rule_escapes(run, prog):
    pop = prog.method("Lexer", "pop")
    run.require(pop is not None and "use_escape" in pop.params, "anchor vanished: Lexer.pop(use_escape=...)")
    probe = [chr(c) for c in range(32, 127) if chr(c) not in "x01234567"]
    recognised, odd = [], []
    try:
        for ch in probe:
            val, used, errs = _pop_escape(prog, "\\" + ch + "'\n")
            if val == "\\" + ch and used == 2 and not errs:
                recognised.append(ch)
            elif ch in REF_ESC:
                odd.append((ch, val, errs))
        hexv = _pop_escape(prog, "\\x41'\n")
        octv = _pop_escape(prog, "\\101'\n")
    except Unsupported as e:
        raise Undecided(f"Lexer.pop(use_escape=True) is outside the evaluable subset: {e}")
    miss = sorted(REF_ESC - set(recognised))
    node = _const_node(pop, lambda v: len(v) >= 6 and {"n", "t", "r"} <= set(v))
    run.ob("R-11.1", "lexer/lexer.py::Lexer.pop::simple-escapes", not miss,
           f"simple escape(s) {miss} are not recognised: valid character/string constants get UNKNOWN_ESCAPE "
           f"({'; '.join(f'{c!r} -> {v!r} {e}' for c, v, e in odd[:3])})", node, literal="".join(recognised))
    has_x = hexv[0] is not None and hexv[0].startswith("\\x4") and not hexv[2]
    has_oct = octv[0] is not None and octv[0].startswith("\\1") and not octv[2]
    run.ob("R-11.1", "lexer/lexer.py::Lexer.pop::hex-and-octal-escapes", has_x and has_oct,
           f"the \\x or the octal escape branch of Lexer.pop is gone (\\x41 -> {hexv[0]!r} {hexv[2]}, \\101 -> {octv[0]!r} {octv[2]})",
           pop.node)

    run.rule("R-11.6", "escape digit capacity: interpreting Lexer.pop(use_escape=True) on a backslash followed by n = 1..6 "
             "digits, the octal branch takes at least min(n, 3) digits and the \\x branch at least min(n, 2): a valid "
             "three-digit octal / two-digit hexadecimal escape is one character", floor=2)
    for kind, lead, digit, need in (("octal", "", "7", 3), ("hexadecimal", "x", "a", 2)):
        short = None
        taken = []
        try:
            for n in range(1, 7):
                val, used, errs = _pop_escape(prog, "\\" + lead + digit * n + "'\n")
                k = -1 if val is None else len(val) - 1 - len(lead)
                taken.append(k)
                if (k < min(n, need) or errs) and short is None:
                    short = (n, k, val, errs)
        except Unsupported as e:
            run.note(f"R-11.6 undecided for the {kind} escape: Lexer.pop is outside the evaluable subset ({e})")
            run.ob("R-11.6", f"{pop.key}::escape-digits[{kind}]", True, f"undecided: {e}", pop.node, undecided=True)
            continue
        run.ob("R-11.6", f"{pop.key}::escape-digits[{kind}]", short is None,
               (f"of {short[0]} {kind} digits after the backslash only {short[1]} are taken into the escape ({short[2]!r} "
                f"{short[3]}): a valid {need}-digit {kind} escape is split, the rest is read as ordinary characters "
                f"(CHAR_AS_STRING in a character constant)") if short else "ok",
               _const_node(pop, lambda v: False), digits_taken=taken)


def rule_digit_buckets(run, prog):
    """digits[BIN/OCT/HEX] of R-11.1: which digits parse_integer_literal flags per base, by abstract execution."""
    pil = prog.method("Lexer", "parse_integer_literal")
    run.require(pil is not None, "anchor vanished: Lexer.parse_integer_literal")
    want = {"BIN": ("01", ("0b", "0B")), "OCT": ("01234567", ("0",)), "HEX": ("0123456789abcdefABCDEF", ("0x", "0X"))}
    for name, (digits, prefixes) in want.items():
        candidates = "0123456789abcdefABCDEF" if name == "HEX" else "0123456789"
        bad = []
        try:
            for pre in prefixes:
                for d in candidates:
                    src = pre + "1" + d + " \n"
                    sim = LexerSim(prog, src)
                    out = sim.call("parse_integer_literal")
                    errs = sim.error_names()
                    flagged = f"INVALID_{name}_INT" in errs
                    spans = out.kind == "ok" and out.value is not None and getattr(out.value, "value", None) == pre + "1" + d
                    others = [e for e in errs if e != f"INVALID_{name}_INT"]
                    if flagged != (d not in digits) or not spans or others:
                        bad.append((src.strip(), "flagged" if flagged else "accepted", repr(out), others))
        except Unsupported as e:
            raise Undecided(f"Lexer.parse_integer_literal is outside the evaluable subset: {e}")
        run.ob("R-11.1", f"{pil.key}::digits[{name}]", not bad,
               f"the digit set checked for {name} constants is wrong: " + "; ".join(f"{s} is {w} ({o} {e})" for s, w, o, e in bad[:4])
               + f"; expected exactly the digits {digits} under prefixes {list(prefixes)}",
               _const_node(pil, lambda v, name=name: v == name or v == f"INVALID_{name}_INT"), probes=len(prefixes) * len(candidates))


def check(run, prog):
    rule_digitless_exponent(run, prog)
    lm = prog.mod("lexer/lexer.py")

    def table(name):
        try:
            return fold_name(name, lm)
        except Unknown as e:
            raise AnalysisError(f"lexer table {name} does not fold: {e}")

    # ---- R-11.1 ---------------------------------------------------------------------------------
    run.rule("R-11.1", "TABLE: the folded suffix / prefix / digit tables of the lexer (resolved through imports) contain the "
             "reference sets of C11 6.4.4 and the listed extensions (0b, u/l/ll/z/wb/i64, f/l/d, L/u/U/u8); the simple escapes "
             "Lexer.pop(use_escape=True) accepts and the digits parse_integer_literal flags per base are decided by "
             "interpreting those methods on one representative per escape letter / (prefix, digit) pair", floor=9)

    def where(name):
        return prog.global_def(lm, name)

    def table_or_none(name):
        """The folded table when the lexer still has it under that name (imports followed); None otherwise -- the
        obligation is then decided by interpretation alone."""
        if prog.global_home(lm, name) is None:
            run.note(f"R-11.1: no module-level name {name} is visible in lexer/lexer.py; decided by interpretation only")
            return None
        return table(name)

    def rejected(method, lexemes, kind):
        """Lexemes the sub-parser, interpreted on `<lexeme><blank>`, does not turn into one clean token of *kind*."""
        out = []
        try:
            for lx_ in lexemes:
                sim = LexerSim(prog, lx_ + " \n")
                res = sim.call(method)
                tok = res.value if res.kind == "ok" else None
                if not (tok is not None and getattr(tok, "type", None) == kind and getattr(tok, "value", None) == lx_
                        and not sim.error_names() and sim.pos == len(lx_)):
                    out.append((lx_, repr(res), sim.error_names()))
        except Unsupported as e:
            raise Undecided(f"Lexer.{method} is outside the evaluable subset: {e}")
        return out

    def show(rej):
        return "; ".join(f"{l_!r} -> {r_} {e_}" for l_, r_, e_ in rej[:3])

    ref_int = reference_int_suffixes()
    ints = table_or_none("integer_suffixes")
    miss = sorted(ref_int - set(ints)) if ints is not None else []
    rej = rejected("parse_integer_literal", ["1" + x for x in sorted(ref_int)] + ["0x1f" + x for x in ("u", "LL", "i64")], "CONSTANT")
    run.ob("R-11.1", "lexer/lexer.py::integer_suffixes", not miss and not rej,
           f"valid integer suffix(es) {miss} are missing: such constants get INVALID_SUFFIX ({show(rej)})", where("integer_suffixes"),
           size=len(ints) if ints is not None else None, interpreted=len(ref_int) + 3)
    fl = table_or_none("float_suffixes")
    miss = sorted(REF_FLOAT - set(fl)) if fl is not None else []
    rej = rejected("parse_float_literal", [c_ + x for x in sorted(REF_FLOAT) for c_ in ("1.5", "1e3", ".5")], "CONSTANT")
    run.ob("R-11.1", "lexer/lexer.py::float_suffixes", not miss and not rej,
           f"valid float suffix(es) {miss} are missing ({show(rej)})", where("float_suffixes"))
    qp = table_or_none("quote_prefixes")
    miss = sorted(REF_PREFIX - set(qp)) if qp is not None else []
    rej = rejected("parse_char_literal", [x + "'a'" for x in sorted(REF_PREFIX | {""})], "CHAR_CONST") + \
        rejected("parse_string_literal", [x + '"a"' for x in sorted(REF_PREFIX | {""})], "STRING")
    run.ob("R-11.1", "lexer/lexer.py::quote_prefixes", not miss and not rej,
           f"character/string prefix(es) {miss} are missing ({show(rej)})", where("quote_prefixes"))
    od, hd = table_or_none("octal_digits"), table_or_none("hexadecimal_digits")
    rej = rejected("parse_char_literal", ["'\\" + d + "'" for d in "01234567"], "CHAR_CONST")
    run.ob("R-11.1", "lexer/lexer.py::octal_digits", (od is None or (isinstance(od, str) and set(od) == set("01234567"))) and not rej,
           f"octal_digits is {od!r} ({show(rej)})", where("octal_digits"))
    rej = rejected("parse_char_literal", ["'\\x" + d + "'" for d in "0123456789abcdefABCDEF"], "CHAR_CONST")
    run.ob("R-11.1", "lexer/lexer.py::hexadecimal_digits",
           (hd is None or (isinstance(hd, str) and set(hd) == set("0123456789abcdefABCDEF"))) and not rej,
           f"hexadecimal_digits is {hd!r} ({show(rej)})", where("hexadecimal_digits"))
    rule_escapes(run, prog)
    rule_digit_buckets(run, prog)

    # ---- R-11.2 ---------------------------------------------------------------------------------
    run.rule("R-11.2", "EMIT: every malformed-literal family has a live emission site of its code in the sub-parser that "
             "recognises the family", floor=17)
    live = live_function_keys(prog)
    by_fn = {}
    for e in emission_sites(prog):
        if e.fn.mod.rel != "lexer/lexer.py" or e.code_expr is None:
            continue
        f = e.fn
        while f.outer is not None:
            f = f.outer
        if e.fn.key not in live or trivially_dead(e.node):
            continue
        vs = value_set(prog, e.fn, e.code_expr) or set()
        for v in vs:
            by_fn.setdefault((f.name, v), []).append(e)
        # an emission inside a helper whose code is a parameter belongs to the callers, per call site
        if isinstance(e.code_expr, ast.Name) and e.code_expr.id in e.fn.params:
            from ..calls import callgraph
            idx = e.fn.params.index(e.code_expr.id) - (1 if e.fn.cls is not None and e.fn.params and e.fn.params[0] in ("self", "cls") else 0)
            for c in callgraph(prog).sites.get(e.fn.key, []):
                if not isinstance(c.node, ast.Call) or trivially_dead(c.node):
                    continue
                arg = c.node.args[idx] if idx < len(c.node.args) else next((k.value for k in c.node.keywords if k.arg == e.code_expr.id), None)
                if arg is None:
                    continue
                cf = c.caller
                while cf.outer is not None:
                    cf = cf.outer
                for v in (value_set(prog, c.caller, arg) or set()):
                    by_fn.setdefault((cf.name, v), []).append(e)
    for fam, code, fname in FAMILIES:
        sites = by_fn.get((fname, code), [])
        run.ob("R-11.2", f"lexer/lexer.py::Lexer.{fname}::emit[{code}]", bool(sites),
               f"no live site emits {code} ({fam}) in Lexer.{fname}", sites[0].node if sites else None)

    # ---- R-11.3 ---------------------------------------------------------------------------------
    run.rule("R-11.3", "one token per literal: each literal sub-parser builds tokens of its own kind only (one per call); "
             "float precedes integer precedes identifier, char/string precede identifier in Lexer.parsers", floor=5)
    order = [f.name for f in lexer_parsers(prog)]

    def before(a, b):
        return a in order and b in order and order.index(a) < order.index(b)

    ok = before("parse_float_literal", "parse_integer_literal") and before("parse_integer_literal", "parse_identifier") \
        and before("parse_char_literal", "parse_identifier") and before("parse_string_literal", "parse_identifier") \
        and before("parse_float_literal", "parse_operator") and before("parse_line_comment", "parse_operator") \
        and before("parse_multi_line_comment", "parse_operator")
    run.ob("R-11.3", "lexer/lexer.py::Lexer.parsers::order", ok,
           f"sub-parser order {order} lets a shorter lexeme win (e.g. 1.5 -> CONSTANT DOT CONSTANT, u8\"x\" -> IDENTIFIER STRING, "
           f"// -> DIV DIV)", prog.cls("Lexer").attr_nodes.get("parsers"))
    for fname, kind in (("parse_char_literal", "CHAR_CONST"), ("parse_string_literal", "STRING"),
                        ("parse_integer_literal", "CONSTANT"), ("parse_float_literal", "CONSTANT")):
        fn = prog.method("Lexer", fname)
        toks = [n for n in walk_fn(fn.node) if isinstance(n, ast.Call) and isinstance(n.func, ast.Name) and n.func.id == "Token"]
        kinds = {fold_in_fn(t.args[0], fn, default=None) for t in toks}
        run.ob("R-11.3", f"{fn.key}::single-token", len(toks) >= 1 and kinds == {kind},
               f"{fname} builds {len(toks)} token(s) of kinds {kinds}: a literal must become exactly one {kind} token", fn.node)

    # ---- R-11.4 ---------------------------------------------------------------------------------
    run.rule("R-11.4", "regex hygiene: each numeric pattern is anchored at the start and no part of it can match a "
             "backslash, a quote or white space (one token spans the constant; head-verified pops of R-5.2); every pattern "
             "the numeric sub-parsers apply to the source (named at the site, or taken from a folded table) is applied "
             "with match() and is one of those", floor=4)

    def hygiene(rc):
        tree = sre_parse.parse(rc.pattern, rc.flags)
        anchored = len(tree) > 0 and tree[0][0] is sre_c.AT and tree[0][1] is sre_c.AT_BEGINNING
        bad = [repr(ch) for ch in "\\'\" \t\n" if _regex_may_match(rc.pattern, rc.flags, ch)]
        # ... nor any other character that cannot be part of a C preprocessing number (digits, letters, _ . + -):
        # a class such as [\w+-.] silently becomes the range '+'..'.' and lets the constant swallow a following comma
        try:
            from .c05_regex import nfa_of
            from ..regexlang import OTHER
            nfa = nfa_of(rc.pattern, rc.flags)
            alphabet = set()
            for tl in nfa.trans:
                for chars, _ in tl:
                    alphabet |= set(chars)
            # triaged: the class `[.[\da-fA-F]]+` that _float_pattern builds for the hexadecimal form reads as the class
            # `[.[0-9a-fA-F]` followed by `]+`; it sits in the third exponent alternative, which is only tried when no digit
            # follows the p, i.e. on malformed constants (which get BAD_EXPONENT anyway) -- valid constants never reach it
            triaged = {"[", "]"} if "[.[" in rc.pattern else set()
            extra = sorted(c for c in alphabet if not (c.isalnum() or c in "_.+-" or c == OTHER) and repr(c) not in bad
                           and c not in triaged)
            bad += [repr(c) for c in extra]
        except Exception as e:        # unsupported construct: the narrower test above stands
            run.note(f"R-11.4: alphabet of a numeric pattern not computed ({e})")
        return anchored, bad

    checked = set()
    for name in ("INT_LITERAL_PATTERN", "FLOAT_EXPONENT_LITERAL_PATTERN", "FLOAT_FRACTIONAL_LITERAL_PATTERN",
                 "FLOAT_HEXADECIMAL_LITERAL_PATTERN"):
        try:
            rc = fold_name(name, lm)
        except Unknown as e:
            raise AnalysisError(f"{name} does not fold: {e}")
        run.require(isinstance(rc, RegexConst), f"{name} is not a compiled pattern")
        anchored, bad = hygiene(rc)
        checked.add((rc.pattern, rc.flags))
        run.ob("R-11.4", f"lexer/lexer.py::{name}", anchored and not bad,
               f"{name}: " + ("not anchored at ^; " if not anchored else "") + (f"can match {bad}" if bad else ""),
               prog.global_def(lm, name))
    # the patterns are applied with match() on the rest of the source
    for fname in ("parse_integer_literal", "parse_float_literal"):
        fn = prog.method("Lexer", fname)
        run.require(fn is not None, f"anchor vanished: Lexer.{fname}")
        uses, unresolved = pattern_uses(fn)
        why = []
        if not uses:
            why.append("no pattern application found")
        if unresolved:
            why.append("cannot resolve the pattern of " + text(unresolved[0], 50))
        for u in uses:
            if u.method != "match":
                why.append(f"{u.name} is applied with {u.method}()")
            if (u.rc.pattern, u.rc.flags) not in checked:
                anchored, bad = hygiene(u.rc)
                checked.add((u.rc.pattern, u.rc.flags))
                if not anchored or bad:
                    why.append(f"{u.name} (not one of the four numeric patterns) " + ("is not anchored at ^ " if not anchored else "")
                               + (f"can match {bad}" if bad else ""))
        run.ob("R-11.4", f"{fn.key}::match-at-position", not why,
               "a numeric pattern is not applied with match() at the current position: " + "; ".join(why[:3]),
               uses[0].call if uses else fn.node, patterns=sorted({u.name for u in uses}))
    from .c11_termination import rule_literal_termination
    rule_literal_termination(run, prog)      # R-11.7
    from .c11_termination import rule_long_constants
    rule_long_constants(run, prog)           # R-11.8
    from .c11_termination import rule_literal_context
    rule_literal_context(run, prog)          # R-11.9
    from .c11_numeric import rule_numeric_families
    rule_numeric_families(run, prog)         # R-11.10
