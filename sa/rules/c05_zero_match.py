"""R-5.12 (property C05, "no hang"): a primary that can report a match of zero tokens is never reached on such a statement.

Registry.run pops the number of tokens the matching primary reports; a match of 0 tokens leaves the token list unchanged and
the main loop spins forever.  Some primaries can return (True, 0) on statements that begin with an end of line (they scan
"until NEWLINE" from position 0); that is harmless only as long as a primary of higher priority claims every such statement
first.  Decided by interpreting the primaries' run() (sa/stubrun.py) on every statement of <= 2 tokens over a small
alphabet of token kinds, laid out at column 1 and at column 5, in file and in function scope."""
from __future__ import annotations

import ast
import itertools
from typing import List

from ..facts import registry_model
from ..minieval import Unsupported
from ..model import Undecided, text, walk_fn
from ..stubrun import RUNTIME_ERRORS, StubContext, line_tokens, run_rule

KINDS = ["NEWLINE", "SPACE", "TAB", "SEMI_COLON", ("IDENTIFIER", "a"), ("CONSTANT", "1"), "LBRACE", "RBRACE", "HASH",
         ("COMMENT", "//x"), "COMMA", "ASSIGN"]


def _statements():
    out = []
    for n in (1, 2):
        for combo in itertools.product(KINDS, repeat=n):
            for col in (1, 5):
                out.append((combo, col))
    return out


def _may_return_true_zero(fn) -> bool:
    """Cheap filter: some return of the form `True, <something that is not a positive constant or a sum with one>`."""
    for n in walk_fn(fn.node):
        if isinstance(n, ast.Return) and isinstance(n.value, ast.Tuple) and len(n.value.elts) == 2 \
                and text(n.value.elts[0]) == "True":
            second = n.value.elts[1]
            if isinstance(second, ast.Constant) and isinstance(second.value, int) and second.value > 0:
                continue
            return True
    return False


def _run(prog, cname, combo, col, scope):
    toks = line_tokens(list(combo) + ["NEWLINE"], 1, col)
    sc = StubContext(prog, toks, history=("IsEmptyLine",), scope=scope)
    try:
        r = run_rule(prog, cname, sc)
    except RUNTIME_ERRORS:
        return None
    if isinstance(r, (tuple, list)) and len(r) == 2:
        return r[0], r[1]
    return None


def rule_zero_matches(run, prog):
    run.rule("R-5.12", "a primary whose run() can report a match of zero tokens (interpreted on every statement of <= 2 tokens "
             "over 12 token kinds, at two columns, in file and function scope) is shadowed on each such statement by a "
             "primary of higher priority that claims >= 1 token: otherwise Registry.run pops nothing and never terminates",
             floor=1)
    rm = registry_model(prog)
    prims = sorted(rm.primaries, key=lambda c: -(rm.priority.get(c.name) or 0)) if hasattr(rm, "priority") else list(rm.primaries)
    order = [c.name for c in prims]
    stmts = _statements()
    n_ob = 0
    for c in prims:
        m = prog.method(c.name, "run")
        if m is None or not _may_return_true_zero(m):
            continue
        zero = []
        try:
            for scope in ("GlobalScope", "Function"):
                if not rm.primary_can_run(c.name):
                    continue
                sc_filter = rm.scope.get(c.name)
                if sc_filter and scope not in sc_filter:
                    continue
                for combo, col in stmts:
                    r = _run(prog, c.name, combo, col, scope)
                    if r is not None and r[0] is True and r[1] == 0:
                        zero.append((combo, col, scope))
        except Unsupported as e:
            # this primary alone stays undecided (recorded and printed); the others are still decided
            run.undecided.append({"rule_function": f"rule_zero_matches[{c.name}]",
                                  "reason": f"{c.name}.run is outside the evaluable subset: {e}"})
            continue
        n_ob += 1
        unshadowed = None
        higher = order[:order.index(c.name)]
        for combo, col, scope in zero:
            covered = False
            for q in higher:
                sf = rm.scope.get(q)
                if sf and scope not in sf:
                    continue
                try:
                    r = _run(prog, q, combo, col, scope)
                except Unsupported:
                    continue
                if r is not None and r[0] is True and isinstance(r[1], int) and r[1] >= 1:
                    covered = True
                    break
            if not covered:
                unshadowed = (combo, col, scope)
                break
        kinds = lambda combo: " ".join(k if isinstance(k, str) else k[0] for k in combo)       # noqa: E731
        run.ob("R-5.12", f"{m.key}::zero-length-match", unshadowed is None,
               (f"on the statement `{kinds(unshadowed[0])} NEWLINE` starting in column {unshadowed[1]} ({unshadowed[2]}) {c.name} "
                f"reports a match of 0 tokens and no primary of higher priority claims the statement: Registry.run pops nothing "
                f"and loops forever") if unshadowed else "", m.node, zero_length_statements=len(zero))
    if n_ob == 0:
        run.note("R-5.12: no primary can report a match of zero tokens on the statements tried")
