"""R-11.10 (property C11): numeric constants are classified as C defines them -- decided on the behaviour.

Lexer.get_next_token is interpreted (sa/lexsim.py, DESIGN §3.4b) on every spelling mantissa x exponent x suffix of a small
grammar-shaped domain (decimal / octal / hexadecimal integers, decimal fractions with either side empty, hexadecimal fractions;
no exponent, e / E / p / P exponents with and without sign and digits; no suffix, f, L, u, ul and an unknown letter).  An
independent recogniser of C11 6.4.4.1 / 6.4.4.2 says which spellings are constants: those must come back as one CONSTANT
spanning the spelling with no lexical diagnostic; every other spelling of the domain is a malformed constant (a pp-number
that is no constant) and must not be accepted silently as one CONSTANT."""
from __future__ import annotations

import re

from ..lexsim import LexerSim
from ..minieval import Unsupported
from ..model import Undecided

MANTISSAS = ["0", "7", "12", "017", "1.5", ".5", "5.", "0x1f", "0XA", "0x1.8", "0xa.", "0x.8"]
EXPONENTS = ["", "e5", "E+5", "e-12", "p5", "P+3", "p-1", "e", "p", "E+", "p-"]
SUFFIXES = ["", "f", "L", "u", "ul", "q"]

_DEC_FLOAT = re.compile(r"(?:(?:\d+\.\d*|\.\d+)(?:[eE][+-]?\d+)?|\d+[eE][+-]?\d+)[fFlL]?\Z")
_HEX_FLOAT = re.compile(r"0[xX](?:[0-9a-fA-F]+\.?[0-9a-fA-F]*|\.[0-9a-fA-F]+)[pP][+-]?\d+[fFlL]?\Z")
_INT = re.compile(r"(?:[1-9]\d*|0[0-7]*|0[xX][0-9a-fA-F]+)(?:[uU](?:ll?|LL?)?|(?:ll?|LL?)[uU]?)?\Z")


def is_c_constant(s: str) -> bool:
    return bool(_DEC_FLOAT.match(s) or _HEX_FLOAT.match(s) or _INT.match(s))


def rule_numeric_families(run, prog, rid="R-11.10"):
    run.rule(rid, "numeric constants, decided on the behaviour: get_next_token, interpreted on every mantissa x exponent x suffix of a "
             f"grammar-shaped domain ({len(MANTISSAS)} x {len(EXPONENTS)} x {len(SUFFIXES)} spellings), returns one silent CONSTANT "
             "spanning the spelling exactly when an independent recogniser of C11 6.4.4 accepts it; a spelling it rejects is never "
             "one CONSTANT without a lexical diagnostic", floor=1)
    fn = prog.method("Lexer", "get_next_token")
    run.require(fn is not None, "anchor vanished: Lexer.get_next_token")
    from .c05_regex import ambiguous_lexer_pattern
    amb = ambiguous_lexer_pattern(prog)
    if amb is not None:
        raise Undecided(f"the lexer pattern {amb} is exponentially ambiguous (reported by R-5.10 under C05)")
    bad_valid, bad_invalid, n = None, None, 0
    try:
        for m in MANTISSAS:
            for e in EXPONENTS:
                if m.lower().startswith("0x") and e[:1] in ("e", "E"):
                    continue                      # `e` is a hexadecimal digit: another constant, or the `0x1e+5` pp-number
                for sfx in SUFFIXES:
                    if m.lower().startswith("0x") and not e and sfx == "f":
                        continue                  # `f` is a hexadecimal digit
                    if m.lower().startswith("0x") and "." in m and not e:
                        continue                  # a hexadecimal fraction without exponent: not one of the property's families
                    s = m + e + sfx
                    n += 1
                    sim = LexerSim(prog, s + ";")
                    out = sim.call("get_next_token")
                    tok = out.value if out.kind == "ok" else None
                    one = tok is not None and getattr(tok, "type", None) == "CONSTANT" and sim.pos == len(s)
                    errs = sim.error_names()
                    if is_c_constant(s):
                        if (not one or errs) and bad_valid is None:
                            bad_valid = (s, out, sim.pos, errs)
                    elif one and not errs and out.kind == "ok" and bad_invalid is None:
                        bad_invalid = (s,)
    except Unsupported as e:
        raise Undecided(f"Lexer.get_next_token is outside the evaluable subset: {e}")
    run.ob(rid, f"{fn.key}::valid-constants", bad_valid is None,
           (f"the constant {bad_valid[0]!r} (valid by C11 6.4.4) gives {bad_valid[1]!r}, cursor at {bad_valid[2]}, diagnostics "
            f"{bad_valid[3]}: expected one silent CONSTANT spanning it") if bad_valid else "", fn.node, evaluations=n)
    run.ob(rid, f"{fn.key}::malformed-constants", bad_invalid is None,
           (f"{bad_invalid[0]!r} is no constant of C11 6.4.4 (it is a malformed one: wrong exponent letter for its base, exponent "
            f"without digits, suffix of the other family or unknown) but comes back as one CONSTANT without any lexical "
            f"diagnostic") if bad_invalid else "", fn.node, evaluations=n)
    # ... whatever constants came before in the same file: each of a small set of constants, valid and malformed, alone and behind
    # each other one (a memo of "this suffix is fine" shared between the integer and the float family shows here)
    members = ["1.0f", "1f", "10u", "1.0u", "42", "1.5", "7ll", "0x1.8p3ll", "3d", "1.5d"]
    bad_ctx, n2 = None, 0
    try:
        def second_of(src, k):
            sim = LexerSim(prog, src)
            seen, count = [], 0
            for _ in range(8):
                before = len(sim.error_names())
                out = sim.call("get_next_token")
                if out.kind != "ok" or out.value is None:
                    break
                if getattr(out.value, "type", None) == "CONSTANT":
                    count += 1
                    if count == k:
                        return (out.value.value, tuple(sim.error_names()[before:]))
            return None
        for b in members:
            alone = second_of(b + ";", 1)
            for a in members:
                n2 += 1
                after = second_of(a + " " + b + ";", 2)
                if after != alone and bad_ctx is None:
                    bad_ctx = (a, b, alone, after)
    except Unsupported as e:
        raise Undecided(f"Lexer.get_next_token is outside the evaluable subset: {e}")
    run.ob(rid, f"{fn.key}::independent-of-earlier-constants", bad_ctx is None,
           (f"{bad_ctx[1]!r} alone gives (text, diagnostics) = {bad_ctx[2]}, behind {bad_ctx[0]!r} in the same file it gives {bad_ctx[3]}: the "
            f"classification of a constant depends on the constants before it") if bad_ctx else "", fn.node, evaluations=n2)
