"""R-6.8 (properties C06 / C17): what a memoised function hands out is shared by every later caller.

functools.lru_cache / cache / cached_property (and a hand-written memo dictionary, which R-6.1 sees as a module-level mutable)
keep the returned object for the rest of the process.  If that object is a list / dict / set and some user changes it in
place, the next file -- or the next token with the same text -- gets the changed object: the diagnostics stop being a function
of the file.  Rule: for every memoised function whose result may be a mutable container, no use site (through properties and
wrappers that pass the result on unchanged, through local aliases bound without copy) mutates it in place or hands it to a
repository function that mutates that parameter."""
from __future__ import annotations

import ast
from typing import Dict, List, Optional, Set

from ..calls import callgraph
from ..model import Fn, text, walk_fn
from .c06 import MUTATORS, mutated_params

MEMO_DECORATORS = ("lru_cache", "cache", "cached_property")
_IMMUTABLE_CALLS = {"str", "int", "float", "bool", "tuple", "frozenset", "len", "repr", "bytes", "sum", "min", "max", "any", "all",
                    "abs", "ord", "chr", "hash"}
_STR_METHODS = {"join", "strip", "lstrip", "rstrip", "lower", "upper", "replace", "format", "expandtabs", "title", "capitalize",
                "casefold", "center", "ljust", "rjust", "zfill", "removeprefix", "removesuffix", "startswith", "endswith", "isupper",
                "islower", "isdigit", "isalpha", "isalnum", "find", "rfind", "index", "count", "partition", "rpartition", "encode",
                "decode", "get"}
_MUTABLE_METHODS = {"split", "rsplit", "splitlines", "copy", "findall", "keys", "values", "items", "groups", "groupdict", "readlines"}


def _memo_kind(fn: Fn) -> Optional[str]:
    for d in fn.node.decorator_list:
        f = d.func if isinstance(d, ast.Call) else d
        nm = text(f).split(".")[-1]
        if nm in MEMO_DECORATORS:
            return nm
    return None


def may_be_mutable(e, local_defs: Dict[str, List[ast.AST]], depth=0) -> bool:
    """Can expression *e* evaluate to a list / dict / set (or something unknown that might be one)?"""
    if e is None or depth > 4:
        return e is not None
    if isinstance(e, ast.Constant) or isinstance(e, (ast.JoinedStr, ast.Compare, ast.Lambda)):
        return False
    if isinstance(e, ast.Tuple):
        return any(may_be_mutable(x, local_defs, depth + 1) for x in e.elts)
    if isinstance(e, (ast.List, ast.Dict, ast.Set, ast.ListComp, ast.DictComp, ast.SetComp)):
        return True
    if isinstance(e, ast.BoolOp):
        return any(may_be_mutable(v, local_defs, depth + 1) for v in e.values)
    if isinstance(e, ast.IfExp):
        return may_be_mutable(e.body, local_defs, depth + 1) or may_be_mutable(e.orelse, local_defs, depth + 1)
    if isinstance(e, ast.UnaryOp):
        return False
    if isinstance(e, ast.BinOp):
        return may_be_mutable(e.left, local_defs, depth + 1) or may_be_mutable(e.right, local_defs, depth + 1)
    if isinstance(e, ast.Call):
        if isinstance(e.func, ast.Name):
            return e.func.id not in _IMMUTABLE_CALLS
        if isinstance(e.func, ast.Attribute):
            if e.func.attr in _STR_METHODS and e.func.attr != "get":
                return False
            return True
        return True
    if isinstance(e, ast.Name):
        defs = local_defs.get(e.id)
        if not defs:
            return True
        return any(may_be_mutable(d, local_defs, depth + 1) for d in defs)
    if isinstance(e, ast.Subscript):
        return True
    return True


def _local_defs(fn: Fn) -> Dict[str, List[ast.AST]]:
    out: Dict[str, List[ast.AST]] = {}
    for n in walk_fn(fn.node):
        if isinstance(n, ast.Assign) and len(n.targets) == 1 and isinstance(n.targets[0], ast.Name):
            out.setdefault(n.targets[0].id, []).append(n.value)
        elif isinstance(n, (ast.AugAssign, ast.AnnAssign)) and isinstance(n.target, ast.Name):
            out.setdefault(n.target.id, []).append(ast.List(elts=[], ctx=ast.Load()))        # unknown: treat as mutable
        elif isinstance(n, (ast.For, ast.comprehension)):
            for x in ast.walk(n.target):
                if isinstance(x, ast.Name):
                    out.setdefault(x.id, []).append(ast.List(elts=[], ctx=ast.Load()))
    return out


def _returns(fn: Fn) -> List[ast.AST]:
    return [n.value for n in walk_fn(fn.node) if isinstance(n, ast.Return) and n.value is not None]


def mutation_sites(prog, fn: Fn, is_source) -> List[tuple]:
    """(node, what) for every in-place change, in *fn*, of an object obtained from an expression for which is_source(expr) holds
    (directly or through a local alias bound without copy)."""
    cg = callgraph(prog)
    alias: Set[str] = set()
    changed = True
    while changed:
        changed = False
        for n in walk_fn(fn.node):
            if isinstance(n, ast.Assign) and len(n.targets) == 1 and isinstance(n.targets[0], ast.Name) and n.targets[0].id not in alias:
                v = n.value
                cands = v.values if isinstance(v, ast.BoolOp) else [v.body, v.orelse] if isinstance(v, ast.IfExp) else [v]
                if any(is_source(c) or (isinstance(c, ast.Name) and c.id in alias) for c in cands):
                    alias.add(n.targets[0].id)
                    changed = True
            elif isinstance(n, ast.NamedExpr) and n.target.id not in alias and is_source(n.value):
                alias.add(n.target.id)
                changed = True

    def shared(e) -> bool:
        return is_source(e) or (isinstance(e, ast.Name) and e.id in alias)

    out = []
    for n in walk_fn(fn.node):
        if isinstance(n, ast.Call) and isinstance(n.func, ast.Attribute) and n.func.attr in MUTATORS and shared(n.func.value):
            out.append((n, f".{n.func.attr}() in place"))
        elif isinstance(n, ast.AugAssign):
            t = n.target
            if isinstance(t, ast.Name) and t.id in alias and not isinstance(n.value, ast.Constant):
                out.append((n, "augmented assignment on an alias (in place for a list)"))
            elif isinstance(t, ast.Subscript) and shared(t.value):
                out.append((n, "item update"))
        elif isinstance(n, (ast.Assign, ast.Delete)):
            for t in n.targets:
                if isinstance(t, ast.Subscript) and shared(t.value):
                    out.append((n, "item assignment / deletion"))
        if isinstance(n, ast.Call):
            args = [a for a in list(n.args) + [k.value for k in n.keywords] if shared(a)]
            if args:
                for c in cg.calls_of.get(fn.key, []):
                    if c.node is not n:
                        continue
                    for t in c.targets:
                        mp = mutated_params(prog, t)
                        if not mp:
                            continue
                        params = t.params
                        off = 1 if (t.cls is not None and params and params[0] in ("self", "cls")) else 0
                        for i, a in enumerate(n.args):
                            if any(a is x for x in args) and i + off < len(params) and params[i + off] in mp:
                                out.append((n, f"passed to {t.key}, which mutates parameter {params[i + off]}"))
                        for k in n.keywords:
                            if any(k.value is x for x in args) and k.arg in mp:
                                out.append((n, f"passed to {t.key}, which mutates parameter {k.arg}"))
    return out


def rule_memoised_results(run, prog, rid="R-6.8"):
    run.rule(rid, "the result of a memoised function (functools.lru_cache / cache / cached_property) that may be a list / dict / "
             "set is never changed in place by a user -- directly, through a property or wrapper that passes it on unchanged, "
             "through a local alias, or by a callee that mutates that parameter: it is the same object for every later file", floor=0)
    # positive self-test of the two detectors (the expected count on the repository is zero)
    probe = ast.parse("def f(t):\n    return t.split('\\n')\ndef g(t):\n    return tuple(t.split('\\n'))\ndef h(t):\n    x = [t]\n    return x\n")
    got = [may_be_mutable(st.body[-1].value, {"x": [ast.List(elts=[], ctx=ast.Load())]}) for st in probe.body]
    run.require(got == [True, False, True], "self-test of the mutable-result detector failed")
    memo: Dict[str, Fn] = {}
    for fn in prog.fns:
        k = _memo_kind(fn)
        if k and any(may_be_mutable(r, _local_defs(fn)) for r in _returns(fn)):
            memo[fn.key] = fn
    if not memo:
        run.note(f"{rid}: no memoised function returns a mutable container in this tree")
        return
    cg = callgraph(prog)
    # carriers: functions / properties that return the result of a memoised function unchanged (to a fixed point)
    carriers: Dict[str, Fn] = dict(memo)
    origin: Dict[str, str] = {k: k for k in memo}
    changed = True
    while changed:
        changed = False
        for fn in prog.fns:
            if fn.key in carriers:
                continue
            for r in _returns(fn):
                tgt = None
                if isinstance(r, ast.Call):
                    for c in cg.calls_of.get(fn.key, []):
                        if c.node is r and any(t.key in carriers for t in c.targets):
                            tgt = next(t.key for t in c.targets if t.key in carriers)
                elif isinstance(r, ast.Attribute):
                    for k2, f2 in list(carriers.items()):
                        if f2.name == r.attr and any("property" in d for d in f2.decorators):
                            tgt = k2
                if tgt:
                    carriers[fn.key] = fn
                    origin[fn.key] = origin[tgt]
                    changed = True
                    break
    prop_names = {f.name: k for k, f in carriers.items() if any("property" in d for d in f.decorators)}
    func_keys = set(carriers)
    hits: Dict[str, List[str]] = {k: [] for k in memo}
    first_node: Dict[str, ast.AST] = {}
    for fn in prog.fns:
        def is_source(e, fn=fn):
            if isinstance(e, ast.Call):
                for c in cg.calls_of.get(fn.key, []):
                    if c.node is e and any(t.key in func_keys for t in c.targets):
                        return True
            if isinstance(e, ast.Attribute) and isinstance(e.ctx, ast.Load) and e.attr in prop_names:
                return True
            return False
        src_key = None
        for n, what in mutation_sites(prog, fn, is_source):
            # which memoised function?  (one is enough for the report: the first carrier this function mentions)
            for x in walk_fn(fn.node):
                if isinstance(x, ast.Attribute) and x.attr in prop_names:
                    src_key = origin[prop_names[x.attr]]
                    break
                if isinstance(x, ast.Call):
                    for c in cg.calls_of.get(fn.key, []):
                        if c.node is x and any(t.key in func_keys for t in c.targets):
                            src_key = origin[next(t.key for t in c.targets if t.key in func_keys)]
                            break
                if src_key:
                    break
            if src_key:
                hits[src_key].append(f"{fn.key}:{getattr(n, 'lineno', '?')} ({what})")
                first_node.setdefault(src_key, n)
    for k, fn in sorted(memo.items()):
        run.ob(rid, f"{k}::memoised-result", not hits[k],
               f"{fn.qual} is memoised and returns a mutable container ({text(_returns(fn)[0], 40)}) that is changed in place at "
               + "; ".join(hits[k][:3]) + ": the changed object is what every later call with the same argument gets -- in the "
               "same file, in a second run, or in the next file of the process", first_node.get(k, fn.node))
