"""C17 — comment text and string contents are opaque.  DESIGN.md §4.17.
Also hosts the machinery shared with C18: the enumeration of token-text reads
with their kinds (guards + precondition table) and roles."""
from __future__ import annotations

import ast
from typing import Dict, List, Optional, Set, Tuple

from ..calls import callgraph, lexer_parsers
from ..facts import trivially_dead, registry_model
from ..fold import fold_in_fn, try_fold
from ..model import AnalysisError, Fn, ancestors, loc, parent, text, walk_fn
from ..taint import _container_kinds, classify, guard_kinds, token_expr_of, token_text_reads

OPAQUE = {"COMMENT", "MULT_COMMENT", "STRING", "CHAR_CONST"}
OPAQUE_STARTS = ["//", "/*", '"', "'"] + [p + q for p in ("L", "l", "u", "U", "u8") for q in ('"', "'")]


def may_match_opaque_text(c: str, prefix_only=False) -> bool:
    """Could the text of a comment / string / character token equal *c* (or start with it)?"""
    if c == "":
        return True
    for s in OPAQUE_STARTS:
        if s.startswith(c) or c.startswith(s):
            return True
    return False


# ------------------------------------------------------------------------------ precondition table
def _pc_macro_from_token(prog) -> Optional[Set[str]]:
    cg = callgraph(prog)
    fn = prog.method("Macro", "from_token")
    sites = [c for c in cg.sites.get(fn.key, []) if isinstance(c.node, ast.Call)]
    if len(sites) != 1 or sites[0].caller.key != "rules/is_preprocessor_statement.py::IsPreprocessorStatement.check_define":
        return None
    caller = sites[0].caller
    arg = sites[0].node.args[0] if sites[0].node.args else None
    if not isinstance(arg, ast.Name):
        return None
    return guard_kinds(prog, caller, arg, sites[0].node)


def _pc_vars_name(prog) -> Optional[Set[str]]:
    kinds: Set[str] = set()
    n = 0
    for fn in prog.fns:
        for x in walk_fn(fn.node):
            if isinstance(x, ast.Call) and isinstance(x.func, ast.Attribute) and x.func.attr == "append" \
                    and text(x.func.value).endswith("vars_name") and x.args:
                n += 1
                a = x.args[0]
                if isinstance(a, ast.Subscript) and isinstance(a.value, ast.Name):
                    k = _container_kinds(prog, fn, a.value.id)
                else:
                    k = guard_kinds(prog, fn, a, x)
                if k is None:
                    return None
                kinds |= k
    return kinds if n else None


def _raise_unless_kind(prog, fn: Fn, index_name: str) -> Optional[Set[str]]:
    """fn begins (first statements) with  `if not context.check_token(<index>, K): raise CParsingError`  -> K."""
    for st in fn.node.body[:3]:
        if isinstance(st, ast.If) and st.body and isinstance(st.body[0], ast.Raise) and "CParsingError" in text(st.body[0]):
            t = st.test
            if isinstance(t, ast.UnaryOp) and isinstance(t.op, ast.Not) and isinstance(t.operand, ast.Call) \
                    and text(t.operand.func) == "context.check_token" and text(t.operand.args[0]) == index_name:
                v = fold_in_fn(t.operand.args[1], fn, default=None)
                if isinstance(v, str):
                    return {v}
                if isinstance(v, (tuple, list)) and all(isinstance(x, str) for x in v):
                    return set(v)
    return None


def _pc_after_define(prog) -> Optional[Set[str]]:
    from ..exceptions import _same_navigation
    fn = prog.method("IsPreprocessorStatement", "check_define")
    if fn is None or not _same_navigation("CheckPreprocessorDefine", 3):
        return None            # the check no longer walks the directive the way the primary validated it
    return _raise_unless_kind(prog, fn, "index")


def _pc_after_ifndef(prog) -> Optional[Set[str]]:
    ji = prog.method("IsPreprocessorStatement", "_just_identifier")
    ci = prog.method("IsPreprocessorStatement", "check_ifndef")
    if ji is None or ci is None:
        return None
    if not any(isinstance(n, ast.Return) and isinstance(n.value, ast.Call) and text(n.value.func) == "self._just_identifier"
               for n in walk_fn(ci.node)):
        return None
    from ..exceptions import _same_navigation
    if not _same_navigation("CheckPreprocessorProtection", 3):
        return None
    return _raise_unless_kind(prog, ji, "index")


def _pc_fname(prog, key) -> Optional[Set[str]]:
    """Every `<scope>.fnames.append(...)` of the function is reached only when the local that remembers the function-name
    candidate -- a local whose non-None values are all `(context.peek_token(k), k)` pairs -- has been found not None."""
    from .c03 import dominating_atoms
    fn = prog.fn(key)
    cand = set()
    for n in walk_fn(fn.node):
        if isinstance(n, ast.Assign) and len(n.targets) == 1 and isinstance(n.targets[0], ast.Name):
            v = n.value
            if isinstance(v, ast.Tuple) and len(v.elts) == 2 and isinstance(v.elts[0], ast.Call) and text(v.elts[0].func).endswith("peek_token"):
                cand.add(n.targets[0].id)
    for n in walk_fn(fn.node):          # a candidate assigned anything else (but None) does not count
        if isinstance(n, ast.Assign) and len(n.targets) == 1 and isinstance(n.targets[0], ast.Name) and n.targets[0].id in cand:
            v = n.value
            pair = isinstance(v, ast.Tuple) and len(v.elts) == 2 and isinstance(v.elts[0], ast.Call) and text(v.elts[0].func).endswith("peek_token")
            if not pair and not (isinstance(v, ast.Constant) and v.value is None):
                cand.discard(n.targets[0].id)
    appends = [n for n in walk_fn(fn.node) if isinstance(n, ast.Call) and isinstance(n.func, ast.Attribute) and n.func.attr == "append"
               and isinstance(n.func.value, ast.Attribute) and n.func.value.attr == "fnames"]
    if not appends or not cand:
        return None
    for a in appends:
        ok = False
        for atom, negated, _ in dominating_atoms(fn, a):
            if not negated and isinstance(atom, ast.Compare) and len(atom.ops) == 1 and isinstance(atom.ops[0], ast.IsNot) \
                    and isinstance(atom.left, ast.Name) and atom.left.id in cand and text(atom.comparators[0]) == "None":
                ok = True
            if negated and isinstance(atom, ast.Compare) and len(atom.ops) == 1 and isinstance(atom.ops[0], ast.Is) \
                    and isinstance(atom.left, ast.Name) and atom.left.id in cand and text(atom.comparators[0]) == "None":
                ok = True
        if not ok:
            return None
    return {"IDENTIFIER"}


def _path_or_copy(v) -> bool:
    from ..dataflow import is_path
    if is_path(v) or (isinstance(v, ast.Subscript) and isinstance(v.slice, ast.Slice) and is_path(v.value)):
        return True
    return isinstance(v, ast.Call) and isinstance(v.func, ast.Name) and v.func.id in ("list", "tuple", "sorted", "reversed") \
        and len(v.args) == 1 and not v.keywords and _path_or_copy(v.args[0])


def _sel_param(r) -> bool:
    e = token_expr_of(r.node)
    return isinstance(e, ast.Name) and e.id in r.fn.params


def _sel_loop_over(attr):
    def sel(r) -> bool:
        e = token_expr_of(r.node)
        if not isinstance(e, ast.Name):
            return False
        for n in walk_fn(r.fn.node):
            if isinstance(n, (ast.For, ast.comprehension)) and any(isinstance(x, ast.Name) and x.id == e.id for x in ast.walk(n.target)):
                # the iterated value, seen through local aliases and copies (`pending = list(scope.vars_name)`)
                from ..dataflow import expand_aliases
                it = expand_aliases(r.fn, n.iter, accept=_path_or_copy)
                if attr in text(it, 300):
                    return True
        return False
    return sel


def _sel_role(*wanted, detail_endswith=None):
    def sel(r) -> bool:
        for role, detail, _ in r.roles:
            if role in wanted and (detail_endswith is None or any(str(detail).endswith(x) for x in detail_endswith)):
                return True
        return False
    return sel


# (function, which read of it, why its token kind is known, validator).  The read is picked by what is done with the text
# (not by its spelling or rank), so that renaming the index variable or adding an alias does not lose the entry.
PRECONDITIONS = [
    ("context.py::Macro.from_token", _sel_param,
     "the only caller is IsPreprocessorStatement.check_define, which raises unless the token is an IDENTIFIER",
     _pc_macro_from_token),
    ("rules/check_identifier_name.py::CheckIdentifierName.run", _sel_loop_over("vars_name"),
     "elements of scope.vars_name are appended only from lists of tokens recorded under an IDENTIFIER guard",
     _pc_vars_name),
    ("rules/check_preprocessor_define.py::CheckPreprocessorDefine.run", _sel_role("CLASS"),
     "IsPreprocessorStatement.check_define raises unless the token after `define` is an IDENTIFIER", _pc_after_define),
    ("rules/check_preprocessor_protection.py::CheckPreprocessorProtection.run", _sel_role("VARCOMPARE"),
     "IsPreprocessorStatement._just_identifier (used by check_ifndef) raises unless the argument is an IDENTIFIER",
     _pc_after_ifndef),
    ("rules/is_func_declaration.py::IsFuncDeclaration.check_func_format", _sel_role("STORE", "IDCOMPARE", detail_endswith=("fnames",)),
     "the function-name position: reached only when an identifier followed by an argument list was recorded",
     lambda prog: _pc_fname(prog, "rules/is_func_declaration.py::IsFuncDeclaration.check_func_format")),
    ("rules/is_func_prototype.py::IsFuncPrototype.check_func_format", _sel_role("STORE", "IDCOMPARE", detail_endswith=("fnames",)),
     "the function-name position: reached only when an identifier followed by an argument list was recorded",
     lambda prog: _pc_fname(prog, "rules/is_func_prototype.py::IsFuncPrototype.check_func_format")),
]


def _token_ctor(prog, fn, call) -> bool:
    """Is *call* a construction of the lexer's Token class (also through an import alias)?"""
    f = call.func
    if not isinstance(f, ast.Name):
        return False
    if f.id == "Token":
        return True
    home = prog.global_home(fn.mod, f.id) if hasattr(prog, "global_home") else None
    if home is None and f.id in fn.mod.imports:
        return fn.mod.imports[f.id][1] == "Token"
    return home is not None and home[1] == "Token"


def _single_token_of_kind(prog, fn: Fn, kind: str) -> Optional[str]:
    """None when every call of *fn* yields at most one token, of kind *kind*; else what is wrong."""
    from ..cfg import cfg_of
    from ..dataflow import cfg_node_of, reaching_definitions
    toks = [n for n in walk_fn(fn.node) if isinstance(n, ast.Call) and _token_ctor(prog, fn, n)]
    if not toks:
        return "builds no Token at all"
    kinds = set()
    for t in toks:
        k = t.args[0] if t.args else next((kw.value for kw in t.keywords if kw.arg == "type"), None)
        kinds.add(fold_in_fn(k, fn, default=None) if k is not None else None)
    if kinds != {kind}:
        return f"builds token(s) of kind(s) {sorted(str(k) for k in kinds)}"
    holders = {}                                     # local name -> Token calls assigned to it
    for t in toks:
        p = parent(t)
        if isinstance(p, ast.Return):
            continue
        if isinstance(p, ast.Assign) and p.value is t and len(p.targets) == 1 and isinstance(p.targets[0], ast.Name):
            holders.setdefault(p.targets[0].id, []).append(t)
            continue
        return f"a Token is built at line {t.lineno} and not returned as it is (`{text(p, 60)}`)"
    for name in holders:
        for u in walk_fn(fn.node):
            if isinstance(u, ast.Name) and u.id == name and isinstance(u.ctx, ast.Load):
                p = parent(u)
                if isinstance(p, ast.Return) and p.value is u:
                    continue
                if isinstance(p, (ast.If, ast.While, ast.IfExp)) and p.test is u:
                    continue
                if isinstance(p, ast.UnaryOp) and isinstance(p.op, ast.Not):
                    continue
                if isinstance(p, ast.Compare) and len(p.ops) == 1 and isinstance(p.ops[0], (ast.Is, ast.IsNot)) \
                        and isinstance(p.comparators[0], ast.Constant) and p.comparators[0].value is None:
                    continue
                return f"the token held in `{name}` is used for something else than being returned (`{text(p, 60)}`, line {u.lineno})"
    g = cfg_of(fn)
    rd = reaching_definitions(g, fn.params)
    for r in walk_fn(fn.node):
        if not isinstance(r, ast.Return) or r.value is None:
            continue
        v = r.value
        if isinstance(v, ast.Constant) and v.value is None:
            continue
        if isinstance(v, ast.Call) and any(v is t for t in toks):
            continue
        if isinstance(v, ast.Name):
            at = cfg_node_of(g, r)
            ok = at is not None
            for d in (rd.get(at, {}).get(v.id, set()) if ok else ()):
                a = g.nodes[d].ast if d >= 0 else None
                val = a.value if isinstance(a, ast.Assign) and len(a.targets) == 1 and isinstance(a.targets[0], ast.Name) else None
                if not (val is not None and (any(val is t for t in toks) or (isinstance(val, ast.Constant) and val.value is None))):
                    ok = False
            if ok and rd.get(at, {}).get(v.id):
                continue
        return f"`{text(r, 60)}` (line {r.lineno}) returns something other than one freshly built {kind} token or None"
    return None


class Read:
    def __init__(self, fn, node, how, key):
        self.fn, self.node, self.how, self.key = fn, node, how, key
        self.kinds: Optional[Set[str]] = None
        self.kind_source = "unknown"
        self.roles = []


def all_reads(prog) -> List[Read]:
    out: List[Read] = []
    counts: Dict[str, int] = {}
    raw = sorted(token_text_reads(prog), key=lambda t: (t[0].key, t[1].lineno, t[1].col_offset))
    for fn, node, how in raw:
        base = f"{fn.key}::read[{text(node, 60)}]"
        counts[base] = counts.get(base, 0) + 1
        key = base if counts[base] == 1 else f"{base}#{counts[base]}"
        r = Read(fn, node, how, key)
        if trivially_dead(node):
            r.kind_source = "dead"
            r.kinds = set()
            out.append(r)
            continue
        if how in ("length", "unsafe_length"):
            r.roles = [("WIDTH", None, node)]
        else:
            r.roles = classify(fn, node)
        k = guard_kinds(prog, fn, token_expr_of(node), node)
        if k is not None:
            r.kinds, r.kind_source = k, "guard"
        else:
            for fkey, select, reason, validate in PRECONDITIONS:
                if fn.key != fkey or not select(r):
                    continue
                try:
                    k = validate(prog)
                except Exception:
                    k = None
                if k is not None:
                    r.kinds, r.kind_source = k, "precondition: " + reason
                else:
                    r.kind_source = "precondition no longer validates: " + reason
                break
        if not r.roles and not isinstance(parent(node), ast.Expr):
            r.roles = [("UNCLASSIFIED", "no consumer of the text could be classified", node)]
        out.append(r)
    return out


def check(run, prog):
    reads = all_reads(prog)
    run.require(len(reads) >= 32, f"only {len(reads)} token-text reads found in rules/ and context.py (floor 32)")

    run.rule("R-17.1", "every read of a token's text in rules/ and context.py whose token may be a comment / string / "
             "character constant (kinds from check_token / .type guards valid on every CFG path, the slot, or the "
             "re-validated precondition table) has only the roles WIDTH, MESSAGE, TRUTH or an inert comparison (literal / "
             "prefix that no comment, string or character text can match); exceptions the property itself makes: HEADER in "
             "CheckHeader, PATH on the STRING argument of #include", floor=32)
    for r in reads:
        if r.kind_source == "dead":
            run.note(f"{r.key}: dead code, skipped")
            continue
        may_opaque = r.kinds is None or bool(r.kinds & OPAQUE)
        bad = []
        for role, detail, at in r.roles:
            if role in ("WIDTH", "MESSAGE", "TRUTH"):
                continue
            if role in ("LITERAL", "PREFIX") and detail is not None and not any(may_match_opaque_text(c) for c in detail):
                continue                                    # inert: constant false for opaque kinds
            if not may_opaque:
                continue
            if role == "HEADER" and r.fn.mod.rel == "rules/check_header.py" and r.kinds is not None and r.kinds <= {"MULT_COMMENT", "COMMENT"}:
                continue
            if role in ("PATH", "LITERAL") and r.fn.mod.rel == "rules/check_preprocessor_include.py" and r.kinds == {"STRING"}:
                continue
            bad.append(f"{role}({detail if not isinstance(detail, list) else detail[:4]})")
        run.ob("R-17.1", r.key, not bad,
               f"the text of a token that may be a comment/string/char literal (kinds: "
               f"{'unknown - ' + r.kind_source if r.kinds is None else sorted(r.kinds & OPAQUE)}) is used as {', '.join(bad)}: "
               f"diagnostics would depend on what the comment or literal says", r.node,
               kinds=("unknown" if r.kinds is None else sorted(r.kinds)[:8]), kind_source=r.kind_source,
               roles=[f"{ro}:{d if not isinstance(d, list) else d[:4]}" for ro, d, _ in r.roles])

    run.rule("R-17.3", "single tokens and no re-lexing: in each comment / literal sub-parser every Token built has the "
             "sub-parser's kind and is handed straight back by `return` (directly, or through a local that is only returned / "
             "tested), and every `return` yields such a Token or None -- so one call produces at most one token and the text "
             "stays inside it; outside the lexer nothing constructs a Lexer, and `re` is used only by CheckHeader; token kinds "
             "are never derived from text", floor=5)
    for fname, kind in (("parse_string_literal", "STRING"), ("parse_char_literal", "CHAR_CONST"),
                        ("parse_line_comment", "COMMENT"), ("parse_multi_line_comment", "MULT_COMMENT")):
        fn = prog.method("Lexer", fname)
        run.require(fn is not None, f"anchor vanished: Lexer.{fname}")
        why = _single_token_of_kind(prog, fn, kind)
        run.ob("R-17.3", f"{fn.key}::single-token", why is None,
               f"{fname}: {why}: the text of one {kind} must come back as exactly one {kind} token", fn.node)
    offenders = []
    for fn in prog.fns:
        rel = fn.mod.rel
        if rel in ("lexer/lexer.py", "__main__.py"):
            continue
        for n in walk_fn(fn.node):
            if isinstance(n, ast.Call) and text(n.func) in ("Lexer",):
                offenders.append((fn, n, "constructs a Lexer"))
            if isinstance(n, ast.Call) and text(n.func).startswith("re.") and rel != "rules/check_header.py":
                offenders.append((fn, n, "uses re"))
    # ... nor reads the raw text at all: File.source is for the lexer; a rule that scans the source lines (with or without a
    # regular expression) sees comment text and string contents as code
    for fn in prog.fns:
        rel = fn.mod.rel
        if rel.startswith("lexer/") or rel in ("file.py", "__main__.py"):
            continue
        for n in walk_fn(fn.node):
            if isinstance(n, ast.Attribute) and n.attr in ("source", "_source") and isinstance(n.ctx, ast.Load) \
                    and (text(n.value).endswith("file") or text(n.value).endswith("File")):
                offenders.append((fn, n, "reads the raw source text"))
    for rel, mod in prog.mods.items():
        if rel.startswith("rules/") and rel != "rules/check_header.py" or rel in ("context.py", "registry.py", "scope.py"):
            for name, vals in mod.assigns.items():
                for v in vals:
                    if isinstance(v, ast.Call) and text(v.func).startswith("re."):
                        holder = next((f for f in prog.fns if f.mod is mod), None)
                        if holder is not None:
                            offenders.append((holder, v, f"compiles the regular expression {name} at module level"))
    run.ob("R-17.3", "rules::no-relexing", not offenders,
           "text is re-lexed outside the lexer: " + ", ".join(f"{f.key} {w}" for f, _, w in offenders[:3]),
           offenders[0][1] if offenders else None)
    # a memo keyed by the text of a token makes one comment's diagnostics depend on another comment's text
    from .c06_memo import rule_memoised_results
    rule_memoised_results(run, prog, "R-17.4")
    rule_token_identity(run, prog)
    from .c03_comment_layout import rule_literal_layout
    rule_literal_layout(run, prog, "R-17.7")
    from .c17_literal_text import rule_literal_text_opaque
    rule_literal_text_opaque(run, prog)      # R-17.8


def rule_token_identity(run, prog):
    run.rule("R-17.5", "two tokens of a file are never equal: the equality of Token objects (used implicitly by `in`, list.index, "
             "list.remove, ==) includes the position, which is unique per token -- otherwise a look-up of a comment or string token "
             "in a token list finds another token with the same text, and the diagnostics depend on what the comment says", floor=1)
    from .c05_ordering import _compared, _dataclass_order, _fields
    tk = prog.cls("Token")
    deco = [ast.unparse(d) for d in tk.node.decorator_list]
    is_dc = _dataclass_order(tk) is not None
    eq_off = any(isinstance(d, ast.Call) and any(k.arg == "eq" and isinstance(k.value, ast.Constant) and k.value.value is False
                                                  for k in d.keywords) for d in tk.node.decorator_list)
    custom = tk.methods.get("__eq__")
    why = None
    if custom is not None:
        try:
            from ..lexsim import FlowEvaluator
            from ..minieval import Obj, Unsupported
            ev = FlowEvaluator({("Token", k): v.node for k, v in tk.methods.items()}, max_steps=5000)
            a = Obj("Token", type="COMMENT", pos=(1, 5), value="/* x */")
            b = Obj("Token", type="COMMENT", pos=(1, 20), value="/* x */")
            got = ev.invoke(custom.node, [a, b], {})
            if got is True:
                why = "Token.__eq__ answers True for two comments with the same text at different positions"
        except Unsupported as e:
            raise Undecided(f"Token.__eq__ is outside the evaluable subset: {e}")
    elif is_dc and not eq_off:
        f = _fields(tk).get("pos")
        if f is None:
            why = "Token has no field `pos`"
        elif not _compared(f):
            why = "the field `pos` is excluded from the comparison (field(compare=False))"
    # not a dataclass, or eq=False: identity comparison -- distinct tokens are distinct
    run.ob("R-17.5", f"{tk.key}::equality-includes-position", why is None,
           f"{why}: `tokens.index(token)` / `token in tokens` on a line with two comments of the same text resolves to the first one",
           tk.node, decorators=deco)
    # the extent of a comment does not depend on its text: the tokenizer ends it at its closing delimiter for every body over
    # the delimiters' own characters (a text beginning or ending with `/` or `*`)
    from .c03_comment_layout import rule_comment_layout
    rule_comment_layout(run, prog, "R-17.6")
