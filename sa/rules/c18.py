"""C18 — diagnostics do not depend on how identifiers are spelled.  DESIGN.md §4.18."""
from __future__ import annotations

import ast
import string
from typing import List, Optional, Set

from ..fold import Unknown, fold_in_fn, fold_name
from ..model import AnalysisError, ancestors, parent, text, walk_fn
from ..taint import classify
from .c17 import all_reads

NAMING_PREFIXES = {"g_", "s_", "t_", "u_", "e_"}
NAMING_ALPHABETS = {string.ascii_lowercase + string.digits + "_", string.ascii_lowercase}
DIRECTIVES = {"define", "include", "import", "if", "ifdef", "ifndef", "elif", "else", "endif", "undef", "pragma", "error",
              "warning"}
SPECIAL_NAMES = {"__attribute__", "environ", "defined", "h"} | DIRECTIVES | {d.upper() for d in DIRECTIVES}
ALLOWED_STORES = ("fnames", "vars_name", "preproc.macros", "macros", "ids", "type_id", "misc_id")

C_KEYWORDS = set("""auto break case char const continue default do double else enum extern float for goto if inline int long
register restrict return short signed sizeof static struct switch typedef union unsigned void volatile while
_Alignas _Alignof _Atomic _Bool _Complex _Generic _Imaginary _Noreturn _Static_assert _Thread_local
alignas alignof bool constexpr false nullptr static_assert thread_local true typeof typeof_unqual""".split()) | {"NULL"}


def _role_ok(role, detail, read, at=None) -> Optional[str]:
    """None if the role is allowed for identifier text, else the reason."""
    if role in ("WIDTH", "MESSAGE", "TRUTH"):
        return None
    if role == "DISPATCH":
        return _dispatch_ok(at, read)
    if role == "PREFIX":
        bad = [c for c in (detail or []) if c not in NAMING_PREFIXES]
        return None if detail and not bad else f"prefix test against {bad or detail}"
    if role == "CLASS":
        return None if detail in ("isupper", "islower") else f"predicate {detail}"
    if role == "CHARCLASS":
        return None if detail is not None and set(detail) in [set(a) for a in NAMING_ALPHABETS] \
            else f"character test against alphabet {detail!r}"
    if role == "LITERAL":
        # an IDENTIFIER is never spelled like an entry of the lexer's keyword table (those get their own kinds; the table is
        # R-18.2's business): comparing with one is inert
        bad = [c for c in (detail or []) if c not in SPECIAL_NAMES and c not in _lexer_keywords()]
        if detail is not None and not bad and getattr(detail, "folded", False):
            # directive words are read without regard to case (the tool accepts `#DEFINE`); every other special name is
            # special in one spelling only: folded, the test also singles out DEFINED / Environ / ...
            wider = [c for c in detail if c.lower() not in DIRECTIVES and c not in _lexer_keywords()]
            if wider:
                return f"comparison, after folding the case, with the special spelling(s) {wider}: other spellings of them become special too"
        return None if detail is not None and not bad else f"comparison with the particular spelling(s) {bad}"
    if role == "STORE":
        return None if any(str(detail).endswith(s) for s in ALLOWED_STORES) else f"stored into {detail}"
    if role == "VARCOMPARE":
        if read.fn.mod.rel == "rules/check_preprocessor_protection.py" and detail == "guard":
            return None
        if read.fn.key == "context.py::PreProcessors.has_macro_defined" and detail == "name":
            return None
        return f"compared with the variable {detail}"
    if role == "IDCOMPARE":
        # compared with the recorded identifier spellings (or: a recorded spelling compared with another value)
        return None if any(str(detail).endswith(s) for s in ALLOWED_STORES) or getattr(read, "is_store", False) \
            else f"membership test against {detail}"
    if role == "RETURNED":
        return None
    return f"{role}({detail})"


def _dispatch_ok(call, read) -> Optional[str]:
    """getattr(obj, <template over the spelling>): the spellings that select an attribute must all be names the user cannot
    give to an identifier of their own (directive names, `defined`, keywords): otherwise a macro or variable that happens
    to be called like a method suffix is treated differently from its renaming."""
    from ..model import program
    prog = program()
    if not (isinstance(call, ast.Call) and len(call.args) >= 2):
        return "reflective dispatch of unknown shape"
    tmpl = call.args[1]
    prefix = suffix = None
    if isinstance(tmpl, ast.JoinedStr):
        parts = tmpl.values
        holes = [i for i, x in enumerate(parts) if isinstance(x, ast.FormattedValue)]
        if len(holes) == 1 and all(isinstance(x, ast.Constant) for i, x in enumerate(parts) if i != holes[0]):
            prefix = "".join(str(x.value) for x in parts[:holes[0]])
            suffix = "".join(str(x.value) for x in parts[holes[0] + 1:])
    elif isinstance(tmpl, ast.BinOp) and isinstance(tmpl.op, ast.Add) and isinstance(tmpl.left, ast.Constant) \
            and isinstance(tmpl.left.value, str):
        prefix, suffix = tmpl.left.value, ""
    elif isinstance(tmpl, ast.Name):
        prefix, suffix = "", ""
    if prefix is None:
        return f"reflective dispatch through `{text(tmpl, 40)}`"
    recv = call.args[0]
    own = read.fn
    while own is not None and own.cls is None:
        own = own.outer
    cname = own.cls.name if (isinstance(recv, ast.Name) and recv.id in ("self", "cls") and own is not None) else None
    if cname is None:
        return f"reflective dispatch on `{text(recv, 30)}`"
    names: Set[str] = set()
    seen, todo = set(), [cname]
    while todo:
        c = todo.pop()
        if c in seen or c not in prog.classes:
            continue
        seen.add(c)
        names |= set(prog.classes[c].methods) | set(prog.classes[c].attrs)
        todo += list(prog.classes[c].bases)
    selectable = sorted(n[len(prefix):len(n) - len(suffix) if suffix else None] for n in names
                        if n.startswith(prefix) and n.endswith(suffix) and len(n) >= len(prefix) + len(suffix))
    bad = [n for n in selectable if n and n not in SPECIAL_NAMES and n not in _lexer_keywords()
           and n.replace("_", "a").isalnum() and not n.startswith("__")]       # __names are the implementation's, not the user's
    if bad:
        return (f"`{text(call, 50)}` selects an attribute of {cname} for the ordinary spelling(s) {bad[:4]} "
                f"(an identifier so named is treated specially)")
    return None


_KW = None


def _lexer_keywords() -> Set[str]:
    global _KW
    if _KW is None:
        from ..model import program
        try:
            kw = fold_name("keywords", program().mod("lexer/dictionary.py"))
            _KW = {k for k in kw if isinstance(k, str)} & C_KEYWORDS
        except Exception:
            _KW = set()
    return _KW


def _identifier_membership_observed(prog, kw):
    """Lexer.parse_identifier run by the lexer simulation (sa/lexsim.py) on every keyword spelling and on near misses
    (a letter / digit / underscore added in front or behind, other case) and on ordinary names: the token is the keyword's
    kind iff the WHOLE maximal identifier run is a key of `keywords`, else IDENTIFIER carrying the spelling.
    -> (True/False, why) or (None, reason) when the method cannot be simulated."""
    try:
        from ..lexsim import LexerSim
        from ..minieval import Unsupported
    except ImportError as e:
        return None, str(e)
    samples = []
    for s_ in sorted(k for k in kw if isinstance(k, str)):
        samples += [s_, s_ + "x", "x" + s_, s_ + "_", "_" + s_, s_ + "1", s_.swapcase(), s_ + s_,
                    "__" + s_, "__" + s_ + "__", s_ + "__", "_" + s_ + "_"]        # the GNU alternate spellings are ordinary names
    samples += ["foo", "main", "ft_strlen", "g_count", "t_list", "s_node", "x", "_", "__attribute__", "environ", "defined", "A1_b2"]
    # every spelling the method itself mentions (a literal, or an element of a table it reads), in both cases
    pi = prog.method("Lexer", "parse_identifier")
    mentioned = set()
    for n_ in walk_fn(pi.node):
        v = None
        if isinstance(n_, ast.Constant) and isinstance(n_.value, str):
            v = [n_.value]
        elif isinstance(n_, ast.Name) and isinstance(n_.ctx, ast.Load) and n_.id != "keywords":
            v = fold_in_fn(n_, pi, default=None)
            v = list(v) if isinstance(v, (tuple, list, set, frozenset, dict)) else [v] if isinstance(v, str) else None
        for x in v or []:
            if isinstance(x, str) and x.isidentifier() and x not in kw:
                mentioned |= {x, x.upper(), x.lower(), x.capitalize()}
    samples += sorted(mentioned)
    bad = []
    try:
        for i_, v in enumerate(samples):
            if not (v[0].isalpha() or v[0] == "_"):
                continue
            for tail in ((" ;", "(", "\n", "") if i_ % 16 == 0 else (" ;",)):
                out = LexerSim(prog, v + tail).call("parse_identifier")
                if out.kind != "ok" or out.value is None:
                    bad.append(f"`{v}`: {out!r}")
                    break
                tok = out.value
                want = (kw[v], None) if v in kw else ("IDENTIFIER", v)
                if (getattr(tok, "type", None), getattr(tok, "value", None)) != want:
                    bad.append(f"`{v}` gives <{getattr(tok, 'type', None)} {getattr(tok, 'value', None)!r}>, expected <{want[0]} {want[1]!r}>")
                    break
        # ... and no spelling leaves a trace in the lexer: after reading a mentioned spelling the lexer's state is what it is
        # after an ordinary name of the same length (a flag set on a particular name changes how the rest of the line is read)
        def state_after(name):
            sim = LexerSim(prog, name + " ;")
            sim.call("parse_identifier")
            return {k: repr(v) for k, v in sim.me.__dict__.items() if k not in ("parsers", "file")}
        for v in sorted(mentioned):
            if not (v[0].isalpha() or v[0] == "_") or v in kw:
                continue
            neutral = ("z" if v[0].islower() or v[0] == "_" else "Z") + "".join("z" if c.islower() else "Z" if c.isupper() else c for c in v[1:])
            if neutral in mentioned or neutral in kw:
                continue
            a, b = state_after(v), state_after(neutral)
            if a != b:
                diff = sorted(k for k in set(a) | set(b) if a.get(k) != b.get(k))
                bad.append(f"after the identifier `{v}` the lexer's state differs from its state after `{neutral}` in {diff[:3]}: "
                           f"the rest of the input is read differently because of a name")
                break
    except Unsupported as e:
        return None, str(e)
    return (not bad), "; ".join(bad[:3])


class _StoreRead:
    is_store = True

    def __init__(self, fn, node, key):
        self.fn, self.node, self.key = fn, node, key


def store_reads(prog) -> List[_StoreRead]:
    """Reads of the identifier stores: sc.fnames[...] / iteration, macro.name."""
    out = []
    for fn in prog.fns:
        for n in walk_fn(fn.node):
            if isinstance(n, ast.Attribute) and n.attr == "fnames" and isinstance(n.ctx, ast.Load):
                p = parent(n)
                if isinstance(p, ast.Attribute) and p.attr in ("append",):
                    continue
                out.append(_StoreRead(fn, p if isinstance(p, ast.Subscript) else n, f"{fn.key}::store-read[{text(p, 40)}]"))
            if isinstance(n, ast.Attribute) and n.attr == "name" and isinstance(n.ctx, ast.Load) and text(n.value) == "macro":
                out.append(_StoreRead(fn, n, f"{fn.key}::store-read[{text(n)}]"))
    return out


def check(run, prog):
    reads = all_reads(prog)
    run.rule("R-18.1", "every read of a token's text that may be an identifier's spelling has only roles from the closed "
             "list: WIDTH, naming-class predicates (prefixes g_ s_ t_ u_ e_, isupper, characters in [a-z0-9_]), comparison "
             "with the special-name list (__attribute__, environ, defined, directive names, h), the identifier stores, "
             "the file-name-derived guard, MESSAGE, DISPATCH", floor=28)
    n = 0
    for r in reads:
        if r.kind_source == "dead":
            continue
        may_ident = r.kinds is None or "IDENTIFIER" in r.kinds
        if not may_ident:
            continue
        n += 1
        bad = []
        for role, detail, at in r.roles:
            why = _role_ok(role, detail, r, at)
            if why:
                bad.append(why)
        run.ob("R-18.1", r.key, not bad,
               "identifier spelling is used for something other than a naming-class rule: " + "; ".join(bad)
               + " - consistently renaming identifiers would change the diagnostics", r.node,
               roles=[f"{ro}:{d if not isinstance(d, list) else d[:4]}" for ro, d, _ in r.roles])
    for sr in store_reads(prog):
        n += 1
        roles = classify(sr.fn, sr.node)
        bad = [w for w in (_role_ok(ro, d, sr, at_) for ro, d, at_ in roles) if w]
        run.ob("R-18.1", sr.key, not bad,
               "a stored identifier spelling is used for something other than a naming-class rule: " + "; ".join(bad), sr.node,
               roles=[f"{ro}:{d if not isinstance(d, list) else d[:4]}" for ro, d, _ in roles])
    run.require(n >= 28, f"only {n} identifier-text reads found (floor 28)")

    run.rule("R-18.2", "the lexer's keyword table contains only C reserved words (C99/C11/C23) and NULL, and parse_identifier "
             "consults it by exact membership of the maximal identifier run", floor=2)
    dm = prog.mod("lexer/dictionary.py")
    try:
        kw = fold_name("keywords", dm)
    except Unknown as e:
        raise AnalysisError(f"keywords table does not fold: {e}")
    extra = sorted(set(kw) - C_KEYWORDS)
    run.ob("R-18.2", "lexer/dictionary.py::keywords::only-C-keywords", not extra,
           f"the keyword table swallows the ordinary identifier(s) {extra}: a file using such a name gets different tokens "
           f"(and diagnostics) than the same file with another name", dm.assigns["keywords"][0], size=len(kw))
    pi = prog.method("Lexer", "parse_identifier")
    run.require(pi is not None, "anchor vanished: Lexer.parse_identifier")
    ok, why = _identifier_membership_observed(prog, kw)
    if ok is None:
        run.note(f"R-18.2: parse_identifier not interpreted ({why}); syntactic form used")
        uses = [n_ for n_ in walk_fn(pi.node) if isinstance(n_, ast.Name) and n_.id == "keywords"]
        ok = len(uses) == 2
        memb = [n_ for n_ in walk_fn(pi.node) if isinstance(n_, ast.Compare) and len(n_.ops) == 1 and isinstance(n_.ops[0], ast.In)
                and text(n_.comparators[0]) == "keywords" and isinstance(n_.left, ast.Name)]
        ok = ok and len(memb) == 1
        if ok:
            # the membership test follows the accumulation loop
            loops = [n_ for n_ in walk_fn(pi.node) if isinstance(n_, ast.While)]
            ok = bool(loops) and loops[-1].lineno < memb[0].lineno
            other_tables = [n_ for n_ in walk_fn(pi.node) if isinstance(n_, ast.Compare) and any(
                isinstance(c, (ast.Tuple, ast.List, ast.Set, ast.Dict)) for c in n_.comparators)]
            ok = ok and not other_tables
        why = ""
    run.ob("R-18.2", f"{pi.key}::exact-membership", ok,
           "parse_identifier does not decide keyword-hood by exact membership of the whole spelling in `keywords` (after the "
           "maximal run of identifier characters), or special-cases other spellings: " + why, pi.node)
    # no other spelling tables in the rules: string constants compared with .value are covered by R-18.1
