"""C10 — tokenization is lossless (partial: nothing consumed is dropped; token
kinds determine their text; tables injective and total).  DESIGN.md §4.10."""
from __future__ import annotations

import ast
from typing import Dict, List, Optional, Set

from ..calls import lexer_parsers
from ..cfg import cfg_of
from ..facts import conjuncts, disjuncts, loop_bound_values
from ..fold import Unknown, fold_in_fn, fold_name
from ..lexsim import LexerSim, TokenStub
from ..minieval import Unsupported
from ..model import AnalysisError, Undecided, ancestors, parent, text, walk_fn
from .c05 import _cfg_node_of_expr, _early_exit_guards, _pop_sites, _regex_may_match

BASE_KINDS = {"SPACE", "TAB", "NEWLINE", "IDENTIFIER", "CONSTANT", "STRING", "CHAR_CONST", "COMMENT", "MULT_COMMENT"}


def _token_calls(fn):
    return [n for n in walk_fn(fn.node) if isinstance(n, ast.Call) and isinstance(n.func, ast.Name) and n.func.id == "Token"]


def _value_arg(tok: ast.Call):
    if len(tok.args) > 2:
        return tok.args[2]
    for k in tok.keywords:
        if k.arg == "value":
            return k.value
    return None


_ONE_CHAR_DOMAIN = ["\t", "\n", "\r", "\f", "\v"] + [chr(c) for c in range(32, 127)]


def _kind_determines_char(prog, fn, popcall):
    """Interpret the sub-parser on each one-character input: it may discard what it pops iff it pops exactly that one
    character and the kind of the token it returns is an injective function of the character."""
    if popcall.args or popcall.keywords:
        return False, " (the discarded pop takes arguments)"
    kinds = {}
    try:
        for ch in _ONE_CHAR_DOMAIN:
            sim = LexerSim(prog, ch + "x")
            out = sim.call(fn.name)
            if out.kind != "ok":
                return False, f" ({fn.name} raises {out.exc} on {ch!r})"
            tok = out.value
            if tok is None:
                if sim.pos != 0:
                    return False, f" ({fn.name} consumes {ch!r} without returning a token)"
                continue
            if not isinstance(tok, TokenStub) or sim.pos != 1 or tok.value not in (None, ch):
                return False, f" (on {ch!r}: token {tok!r}, {sim.pos} character(s) consumed)"
            kinds.setdefault(tok.type, []).append(ch)
    except Unsupported as e:
        raise Undecided(f"Lexer.{fn.name} is outside the evaluable subset: {e}")
    clash = {k: v for k, v in kinds.items() if len(v) > 1}
    if clash:
        k, v = sorted(clash.items())[0]
        return False, f" (the characters {v} all become {k})"
    return bool(kinds), "" if kinds else " (no one-character input is accepted)"



def rule_flow(run, prog):
    run.rule("R-10.1", "dataflow: the result of every self.pop() in a sub-parser reaches the value of the returned Token "
             "(accumulator) or the key of the table that yields its kind, on every path; a discarded pop is allowed only "
             "in a sub-parser that consumes one character and whose token kind determines it (interpreting the sub-parser "
             "on every one-character input: the accepted characters map to pairwise distinct kinds)", floor=18)
    n = 0
    for fn in lexer_parsers(prog):
        g = cfg_of(fn)
        toks = _token_calls(fn)
        # accumulators: names used as (part of) a Token value argument
        acc: Set[str] = set()
        for t in toks:
            v = _value_arg(t)
            if v is not None:
                for x in ast.walk(v):
                    if isinstance(x, ast.Name):
                        acc.add(x.id)
        # ... and, transitively, the names such an accumulator is built from (val = "".join(chars))
        carriers = {t.id for m in walk_fn(fn.node) if isinstance(m, ast.Assign) and any(m.value is p_ for p_ in _pop_sites(fn))
                    for t in m.targets if isinstance(t, ast.Name)}      # char = self.pop(): checked path by path below
        changed = True
        while changed:
            changed = False
            for m in walk_fn(fn.node):
                tg = m.targets if isinstance(m, ast.Assign) else [m.target] if isinstance(m, (ast.AugAssign, ast.AnnAssign)) else []
                if any(isinstance(t, ast.Name) and t.id in acc for t in tg) and getattr(m, "value", None) is not None:
                    for x in ast.walk(m.value):
                        if isinstance(x, ast.Name) and isinstance(x.ctx, ast.Load) and x.id not in acc and x.id not in ("self", "str") \
                                and x.id not in carriers \
                                and any(isinstance(d, (ast.Assign, ast.AugAssign)) and any(
                                    isinstance(t2, ast.Name) and t2.id == x.id for t2 in (d.targets if isinstance(d, ast.Assign) else [d.target]))
                                    for d in walk_fn(fn.node)):
                            acc.add(x.id)
                            changed = True
        pop_nodes = {_cfg_node_of_expr(g, p) for p in _pop_sites(fn)}
        for pc in _pop_sites(fn):
            n += 1
            key = f"{fn.key}::pop-flow[{text(pc, 30)}]"
            # 1. directly inside a Token(...) value / key
            inside_tok = next((a for a in ancestors(pc) if a in toks), None)
            if inside_tok is not None:
                run.ob("R-10.1", key, True, "flows into the token under construction", pc)
                continue
            st = pc
            while not isinstance(st, ast.stmt):
                st = parent(st)
            if isinstance(st, ast.AugAssign) and isinstance(st.op, ast.Add) and isinstance(st.target, ast.Name) and st.target.id in acc:
                run.ob("R-10.1", key, True, "accumulated", pc)
                continue
            if isinstance(st, ast.Assign) and len(st.targets) == 1 and isinstance(st.targets[0], ast.Name):
                var = st.targets[0].id
                if var in acc:
                    run.ob("R-10.1", key, True, "bound to the accumulator", pc)
                    continue
                # var must be used (added to an accumulator, or as a table key of a Token kind) on every path
                uses = set()
                for m in walk_fn(fn.node):
                    if isinstance(m, ast.AugAssign) and isinstance(m.target, ast.Name) and m.target.id in acc \
                            and any(isinstance(x, ast.Name) and x.id == var for x in ast.walk(m.value)):
                        uses.add(g.nid(m))
                    if isinstance(m, ast.Assign) and any(isinstance(t, ast.Name) and t.id in acc for t in m.targets) \
                            and any(isinstance(x, ast.Name) and x.id == var for x in ast.walk(m.value)):
                        uses.add(g.nid(m))
                    if isinstance(m, ast.Expr) and isinstance(m.value, ast.Call) and isinstance(m.value.func, ast.Attribute) \
                            and m.value.func.attr in ("append", "extend") and isinstance(m.value.func.value, ast.Name) \
                            and m.value.func.value.id in acc \
                            and any(isinstance(x, ast.Name) and x.id == var for a_ in m.value.args for x in ast.walk(a_)):
                        uses.add(g.nid(m))
                for t in toks:
                    if any(isinstance(x, ast.Name) and x.id == var for x in ast.walk(t)):
                        uses.add(_cfg_node_of_expr(g, t))
                uses.discard(None)
                sid = g.nid(st)
                lost = g.can_reach(sid, g.exit, avoid=uses, follow_exc=False) or any(
                    g.can_reach(sid, q, avoid=uses, follow_exc=False) for q in pop_nodes if q is not None)
                run.ob("R-10.1", key, not lost,
                       f"a character consumed into `{var}` can be dropped: some path from this pop to the end of the "
                       f"sub-parser (or to the next pop) neither appends it to the token text nor uses it as the table key",
                       pc, uses=len(uses))
                continue
            if isinstance(st, ast.Expr) and isinstance(st.value, ast.Call) and isinstance(st.value.func, ast.Attribute) \
                    and st.value.func.attr in ("append", "extend") and isinstance(st.value.func.value, ast.Name) \
                    and st.value.func.value.id in acc and any(x is pc for a in st.value.args for x in ast.walk(a)):
                run.ob("R-10.1", key, True, "appended to the accumulator", pc)
                continue
            if isinstance(st, ast.Expr) and st.value is pc:
                # discarded: allowed when the kind of the returned token determines the popped character
                ok, why = _kind_determines_char(prog, fn, pc)
                run.ob("R-10.1", key, ok,
                       "the result of pop() is discarded although the token kind does not determine the character" + why, pc)
                continue
            run.ob("R-10.1", key, False, f"pop() result used in an unrecognised way: {text(st)}", pc)
    run.require(n >= 13, f"only {n} pop sites in the sub-parsers (floor 13)")


def _assignments(fn, name):
    out = []
    for n in walk_fn(fn.node):
        if isinstance(n, ast.Assign) and any(isinstance(t, ast.Name) and t.id == name for t in n.targets):
            out.append(n.value)
        elif isinstance(n, ast.AnnAssign) and isinstance(n.target, ast.Name) and n.target.id == name and n.value is not None:
            out.append(n.value)
        elif isinstance(n, ast.NamedExpr) and n.target.id == name:
            out.append(n.value)
    return out


def _expanded_strings(fn, e, depth=0):
    """String constants of an expression, local names replaced by what they are assigned from (aliases of a test)."""
    out = set()
    for x in ast.walk(e):
        if isinstance(x, ast.Constant) and isinstance(x.value, str):
            out.add(x.value)
        elif isinstance(x, ast.Name) and depth < 3:
            v = fold_in_fn(x, fn, default=None)
            if isinstance(v, str):
                out.add(v)
            elif isinstance(v, (tuple, list, set, frozenset)):
                out |= {y for y in v if isinstance(y, str)}
            else:
                for val in _assignments(fn, x.id):
                    out |= _expanded_strings(fn, val, depth + 1)
    return out


def _truth_at_splice(fn, test, which):
    """Truth of *test* when the raw text at the cursor is the splice spelling *which* ('\\\n' or '??/\n'); None = unknown."""
    if isinstance(test, ast.UnaryOp) and isinstance(test.op, ast.Not):
        v = _truth_at_splice(fn, test.operand, which)
        return None if v is None else not v
    if isinstance(test, ast.BoolOp):
        vs = [_truth_at_splice(fn, v, which) for v in test.values]
        if isinstance(test.op, ast.And):
            return False if any(v is False for v in vs) else True if all(v is True for v in vs) else None
        return True if any(v is True for v in vs) else False if all(v is False for v in vs) else None
    if isinstance(test, ast.Compare) and len(test.ops) == 1:
        strs = _expanded_strings(fn, test.comparators[0]) | _expanded_strings(fn, test.left)
        if strs & {"\\\n", "??/\n"}:
            here = which in strs
            op = test.ops[0]
            if isinstance(op, (ast.Eq, ast.In)):
                return here
            if isinstance(op, (ast.NotEq, ast.NotIn)):
                return not here
    return None


def _behind_splice_test(fn, g, st) -> bool:
    """Every path to the raw advance *st* traverses the outcome of a test that means `a line splice (either spelling) starts
    here` -- whatever the shape: `if a == S1 or b == S2:`, `if a != S1 and b != S2: break`, a while condition ..."""
    edges = {}
    for tn in g.nodes:
        if tn.kind != "test" or tn.ast is None:
            continue
        strs = _expanded_strings(fn, tn.ast)
        if not ("\\\n" in strs and "??/\n" in strs):
            continue
        a, b = _truth_at_splice(fn, tn.ast, "\\\n"), _truth_at_splice(fn, tn.ast, "??/\n")
        if a is not None and a == b:
            edges[tn.id] = "T" if a else "F"
    at = g.nid(st)
    if not edges or at is None:
        return False
    return not g.can_reach(g.entry, at, follow_exc=False, edge_filter=lambda n_, m_, lab: not (n_ in edges and lab == edges[n_]))


def rule_raw_advance(run, prog):
    run.rule("R-10.2", "every direct advance of the source position outside pop() is the splice skip (guarded by a test against "
             "both spellings of backslash-newline) or is dominated by the BAD_LEXEME diagnostic being added (never silently "
             "discarded)", floor=2)
    n = 0
    for fn in prog.functions_in("lexer/lexer.py"):
        if fn.name == "__init__":
            # the constructor only places the cursor at the start: a store of anything but the constant 0 skips text unseen
            for st in walk_fn(fn.node):
                tg = [st.target] if isinstance(st, (ast.AugAssign, ast.AnnAssign)) else st.targets if isinstance(st, ast.Assign) else []
                if any(text(t).endswith("__pos") for t in tg):
                    from ..fold import try_fold
                    v = try_fold(st.value, fn.mod, None, default=None) if isinstance(st, (ast.Assign, ast.AnnAssign)) and st.value is not None else None
                    run.ob("R-10.2", f"{fn.key}::initial-position[{text(st, 40)}]", isinstance(st, (ast.Assign, ast.AnnAssign)) and v == 0
                           and type(v) is int,
                           "the constructor moves the cursor past the beginning of the source: the skipped text is in no token and in "
                           "no BAD_LEXEME diagnostic", st)
            continue
        if fn.name == "pop":
            continue
        g = cfg_of(fn)
        for st in walk_fn(fn.node):
            if isinstance(st, (ast.AugAssign, ast.Assign)) and any(text(t).endswith("__pos") for t in (
                    [st.target] if isinstance(st, ast.AugAssign) else st.targets)):
                n += 1
                key = f"{fn.key}::raw-advance[{text(st, 40)}]"
                guards = [a for a in ancestors(st) if isinstance(a, (ast.If, ast.While))]
                splice = False
                for a in guards:
                    strs = _expanded_strings(fn, a.test)
                    if "\\\n" in strs and "??/\n" in strs:
                        splice = True
                if not splice:
                    splice = _behind_splice_test(fn, g, st)
                if splice:
                    run.ob("R-10.2", key, True, "splice skip (both spellings)", st)
                    continue
                adds = []
                for x in walk_fn(fn.node):
                    if isinstance(x, ast.Expr) and isinstance(x.value, ast.Call) and text(x.value.func).endswith(("errors.add", "errors.append")):
                        strs = _expanded_strings(fn, x.value)
                        if "BAD_LEXEME" in strs:
                            adds.append(g.nid(x))
                ok = any(a is not None and g.dominates(a, g.nid(st), follow_exc=False) for a in adds)
                run.ob("R-10.2", key, ok,
                       "a character is skipped by advancing the position directly without the BAD_LEXEME diagnostic "
                       "having been recorded on every path", st)
    run.require(n >= 2, f"only {n} raw advances found (floor 2)")


# ------------------------------------------------------------------------------------------ R-10.6
_TRIGGER_CHARS = "\\?<>:%"


def _times_arg(popcall):
    for k in popcall.keywords:
        if k.arg == "times":
            return k.value
    return popcall.args[0] if popcall.args else None


class _Origin:
    """Where a pop count comes from: kind in const / regex / table / raw / unknown."""

    def __init__(self, kind, what="", node=None, subject=None, facts=()):
        self.kind, self.what, self.node, self.subject, self.facts = kind, what, node, subject, list(facts)


def _match_vars(fn):
    """name -> [RegexConst] for locals bound from applying a compiled pattern (m = P.match(...), m := ...)."""
    from .c11 import pattern_uses
    uses, unresolved = pattern_uses(fn)
    out = {}
    for u in uses:
        p_ = parent(u.call)
        tgt = None
        if isinstance(p_, ast.NamedExpr):
            tgt = p_.target
        elif isinstance(p_, ast.Assign) and len(p_.targets) == 1:
            tgt = p_.targets[0]
        if isinstance(tgt, ast.Name):
            out.setdefault(tgt.id, []).append(u)
    return out, unresolved


def _is_raw_text(fn, e, depth=0) -> Optional[ast.AST]:
    """The expression is (a slice / a search result of) the raw source text: returns the node that shows it."""
    for x in ast.walk(e):
        if isinstance(x, ast.Attribute) and x.attr in ("source", "_source"):
            return x
        if isinstance(x, ast.Call) and isinstance(x.func, ast.Attribute) and x.func.attr == "raw_peek":
            return x
        if isinstance(x, ast.Attribute) and x.attr.endswith("__pos"):
            return x
    if depth < 4:
        for x in ast.walk(e):
            if isinstance(x, ast.Name):
                for val in _assignments(fn, x.id):
                    got = _is_raw_text(fn, val, depth + 1)
                    if got is not None:
                        return got
    return None


def _branch_facts(node):
    """(condition, truth) pairs known where *node* executes, from the enclosing if statements / conditional expressions."""
    out = []
    cur = node
    for a in ancestors(node):
        if isinstance(a, ast.If):
            if any(cur is s for s in a.body):
                out += [(c, True) for c in conjuncts(a.test)]
            elif any(cur is s for s in a.orelse):
                out += [(d, False) for d in disjuncts(a.test)]
        elif isinstance(a, ast.IfExp):
            if cur is a.body:
                out += [(c, True) for c in conjuncts(a.test)]
            elif cur is a.orelse:
                out += [(d, False) for d in disjuncts(a.test)]
        elif isinstance(a, ast.While) and any(cur is s for s in a.body):
            out += [(c, True) for c in conjuncts(a.test)]
        if isinstance(a, (ast.FunctionDef, ast.AsyncFunctionDef)):
            break
        cur = a
    return out


def _absent_substrings(fn, cond, truth, subject: str) -> Set[str]:
    """Substrings known not to occur in the text named *subject* when *cond* has the given truth value."""
    if isinstance(cond, ast.UnaryOp) and isinstance(cond.op, ast.Not):
        return _absent_substrings(fn, cond.operand, not truth, subject)
    if isinstance(cond, ast.BoolOp):
        if (isinstance(cond.op, ast.And) and truth) or (isinstance(cond.op, ast.Or) and not truth):
            out = set()
            for v in cond.values:
                out |= _absent_substrings(fn, v, truth, subject)
            return out
        return set()
    if isinstance(cond, ast.Compare) and len(cond.ops) == 1 and text(cond.comparators[0]) == subject:
        if (isinstance(cond.ops[0], ast.NotIn) and truth) or (isinstance(cond.ops[0], ast.In) and not truth):
            v = fold_in_fn(cond.left, fn, default=None)
            return {v} if isinstance(v, str) and v else set()
    if isinstance(cond, ast.Call) and isinstance(cond.func, ast.Name) and cond.func.id in ("any", "all") and len(cond.args) == 1 \
            and isinstance(cond.args[0], (ast.GeneratorExp, ast.ListComp)) and len(cond.args[0].generators) == 1:
        gen = cond.args[0]
        g = gen.generators[0]
        elt = gen.elt
        if g.ifs or not isinstance(g.target, ast.Name) or not (isinstance(elt, ast.Compare) and len(elt.ops) == 1):
            return set()
        if not (isinstance(elt.left, ast.Name) and elt.left.id == g.target.id and text(elt.comparators[0]) == subject):
            return set()
        items = fold_in_fn(g.iter, fn, default=None)
        if isinstance(items, dict):
            items = list(items)
        if not isinstance(items, (tuple, list, set, frozenset, str)):
            return set()
        items = {x for x in items if isinstance(x, str) and x}
        if cond.func.id == "any" and isinstance(elt.ops[0], ast.In) and not truth:
            return items                    # not any(k in S for k in T)
        if cond.func.id == "all" and isinstance(elt.ops[0], ast.NotIn) and truth:
            return items                    # all(k not in S for k in T)
    return set()


def _count_origins(fn, e, at, match_vars, depth=0) -> List[_Origin]:
    """Possible derivations of a pop count expression."""
    if depth > 5:
        return [_Origin("unknown", text(e, 40), e)]
    if isinstance(e, ast.Constant) and isinstance(e.value, int):
        return [_Origin("const", str(e.value), e)]
    if isinstance(e, ast.IfExp):
        return _count_origins(fn, e.body, e.body, match_vars, depth + 1) + _count_origins(fn, e.orelse, e.orelse, match_vars, depth + 1)
    if isinstance(e, ast.Call) and isinstance(e.func, ast.Name) and e.func.id == "cast" and len(e.args) == 2:
        return _count_origins(fn, e.args[1], at, match_vars, depth + 1)
    if isinstance(e, ast.Name):
        v = fold_in_fn(e, fn, default=None)
        if isinstance(v, int) and not isinstance(v, bool):
            return [_Origin("const", str(v), e)]
        vals = _assignments(fn, e.id)
        if not vals:
            for lp in walk_fn(fn.node):
                if isinstance(lp, ast.For) and any(isinstance(x, ast.Name) and x.id == e.id for x in ast.walk(lp.target)):
                    return [_Origin("unknown", f"loop variable {e.id}", e)]
            return [_Origin("unknown", f"{e.id} (parameter or unbound)", e)]
        out = []
        for val in vals:
            out += _count_origins(fn, val, val, match_vars, depth + 1)
        return out
    if isinstance(e, ast.BinOp) and isinstance(e.op, (ast.Add, ast.Sub)):
        return _count_origins(fn, e.left, at, match_vars, depth + 1) + _count_origins(fn, e.right, at, match_vars, depth + 1)
    # m.end() / m.end() - m.start() / m.span()[1]
    if isinstance(e, ast.Call) and isinstance(e.func, ast.Attribute) and e.func.attr in ("end", "start") \
            and isinstance(e.func.value, ast.Name) and e.func.value.id in match_vars:
        return [_Origin("regex", text(e, 40), e, subject=e.func.value.id)]
    if isinstance(e, ast.Call) and isinstance(e.func, ast.Name) and e.func.id == "len" and len(e.args) == 1:
        x = e.args[0]
        # len(m["Group"]) / len(m.group(..)) / len(m[0])
        base = x.value if isinstance(x, ast.Subscript) else (x.func.value if isinstance(x, ast.Call) and isinstance(x.func, ast.Attribute)
                                                            and x.func.attr == "group" else None)
        if isinstance(base, ast.Name) and base.id in match_vars:
            return [_Origin("regex", text(e, 40), e, subject=base.id)]
        v = fold_in_fn(x, fn, default=None)
        if isinstance(v, str):
            return [_Origin("table", text(e, 40), e, subject=[v])]
        if isinstance(x, ast.Name):
            vs = loop_bound_values(fn, x.id)
            if vs is not None:
                return [_Origin("table", text(e, 40), e, subject=sorted(vs))]
        raw = _is_raw_text(fn, x)
        if raw is not None:
            return [_Origin("raw", text(e, 40), e, subject=text(x), facts=_branch_facts(at))]
        return [_Origin("unknown", text(e, 40), e)]
    raw = _is_raw_text(fn, e) if not isinstance(e, ast.Name) else None
    if raw is not None:
        return [_Origin("raw", text(e, 40), e, subject=None, facts=_branch_facts(at))]
    return [_Origin("unknown", text(e, 40), e)]


def rule_pop_counts(run, prog):
    run.rule("R-10.6", "pop-count discipline: pop(times=E) counts translated characters, so a non-constant E must be the length "
             "of text that cannot contain a respellable character or a splice -- the end / a group of a match of a pattern "
             "that can match none of \\ ? < > : %, or the length of an entry of a folded constant table free of them; a "
             "length taken from the raw source (file.source, raw_peek, __pos arithmetic) is accepted only where tests on that "
             "very text exclude the backslash and every trigraph and digraph key; a pop whose count is not proven available "
             "must not sit in a try whose handler swallows UnexpectedEOF (its partial result would be lost)", floor=2)
    lx = prog.cls("Lexer")
    dm = prog.mod("lexer/dictionary.py")
    try:
        triggers = ["\\"] + sorted(fold_name("trigraphs", dm)) + sorted(fold_name("digraphs", dm))
    except Unknown as e:
        raise AnalysisError(f"lexer tables do not fold: {e}")
    n = 0
    for fn in sorted(lx.methods.values(), key=lambda f: f.node.lineno):
        pops = _pop_sites(fn)
        if not pops:
            continue
        match_vars, unresolved = _match_vars(fn)
        for pc in pops:
            te = _times_arg(pc)
            if te is None or (isinstance(te, ast.Constant) and isinstance(te.value, int)):
                continue
            n += 1
            key = f"{fn.key}::pop-count[{text(te, 30)}]"
            verdict, why, undecided = True, [], []
            for o in _count_origins(fn, te, pc, match_vars):
                if o.kind in ("const",):
                    continue
                if o.kind == "regex":
                    for u in match_vars.get(o.subject, []):
                        bad = [ch for ch in _TRIGGER_CHARS if _regex_may_match(u.rc.pattern, u.rc.flags, ch)]
                        if bad:
                            verdict = False
                            why.append(f"{o.what}: {u.name} can match {bad}, the matched text may hold a splice or a di-/trigraph")
                elif o.kind == "table":
                    bad = sorted(v for v in o.subject if set(v) & set(_TRIGGER_CHARS))
                    if bad:
                        verdict = False
                        why.append(f"{o.what}: table entries {bad} contain a respellable character")
                elif o.kind == "raw":
                    absent = set()
                    if o.subject is not None:
                        facts = list(o.facts) + [(d, False) for d in _early_exit_guards(fn, pc)] + _branch_facts(pc)
                        for cond, truth in facts:
                            absent |= _absent_substrings(fn, cond, truth, o.subject)
                    open_ = [t for t in triggers if not any(a in t for a in absent)]
                    if open_:
                        verdict = False
                        why.append(f"{o.what} is a raw length used as a count of translated characters; nothing excludes "
                                   f"{open_[:6]} from that text (a digraph is two raw characters but one popped character)")
                else:
                    undecided.append(o.what)
            if undecided and verdict:
                run.note(f"R-10.6 undecided: {fn.key} pop(times={text(te, 30)}): origin of {undecided} not classified")
            run.ob("R-10.6", key, verdict, "; ".join(why), pc, undecided=undecided)
            # (b) partial result lost
            if not verdict:
                tries = [a for a in ancestors(pc) if isinstance(a, ast.Try) and any(x is pc for s_ in a.body for x in ast.walk(s_))]
                for t in tries:
                    for h in t.handlers:
                        names = [text(x).split(".")[-1] for x in (h.type.elts if isinstance(h.type, ast.Tuple) else [h.type])] if h.type else ["*"]
                        catches = any(nm in ("*", "Exception", "BaseException", "UnexpectedEOF") or prog.is_sub("UnexpectedEOF", nm) for nm in names)
                        reraises = any(isinstance(x, ast.Raise) for s_ in h.body for x in ast.walk(s_))
                        if catches and not reraises:
                            run.ob("R-10.6", f"{fn.key}::bulk-pop-in-try[{text(te, 30)}]", False,
                                   "this pop takes several characters at once with a count that is not proven available, inside a try "
                                   "whose handler swallows UnexpectedEOF: when the input ends early the characters already consumed "
                                   "are dropped from the token", pc)
    run.require(n >= 2, f"only {n} pops with a computed count found in the Lexer (floor 2)")


def rule_tables(run, prog):
    run.rule("R-10.3", "TABLE injectivity: keywords / operators / brackets map distinct spellings to distinct kinds, kinds "
             "do not collide across tables nor with the base kinds; digraph / trigraph values are single characters", floor=5)
    m = prog.mod("lexer/dictionary.py")
    T = {}
    for name in ("keywords", "operators", "brackets", "digraphs", "trigraphs"):
        try:
            T[name] = fold_name(name, m)
        except Unknown as e:
            raise AnalysisError(f"lexer table {name} does not fold: {e}")
        # the literal itself must not repeat a key (a later duplicate silently wins)
        lit = prog.global_def(m, name)
        keys = [k.value for k in lit.keys if isinstance(k, ast.Constant)] if isinstance(lit, ast.Dict) else []
        dup = sorted({k for k in keys if keys.count(k) > 1})
        vals = list(T[name].values())
        dupv = sorted({v for v in vals if vals.count(v) > 1})
        if name in ("keywords", "operators", "brackets"):
            run.ob("R-10.3", f"lexer/dictionary.py::{name}::injective", not dup and not dupv,
                   f"{name}: repeated key(s) {dup} / two spellings share the kind(s) {dupv}: the token text cannot be "
                   f"recovered from its kind", lit, size=len(vals))
        else:
            bad = sorted(k for k, v in T[name].items() if not (isinstance(v, str) and len(v) == 1))
            run.ob("R-10.3", f"lexer/dictionary.py::{name}::single-char", not dup and not bad,
                   f"{name}: entries {bad} do not translate to a single character / repeated keys {dup}", lit)
    allk = [("keywords", v) for v in T["keywords"].values()] + [("operators", v) for v in T["operators"].values()] + \
           [("brackets", v) for v in T["brackets"].values()]
    seen: Dict[str, str] = {}
    coll = []
    for tn, v in allk:
        if v in seen and seen[v] != tn:
            coll.append(v)
        seen.setdefault(v, tn)
        if v in BASE_KINDS:
            coll.append(v)
    run.ob("R-10.3", "lexer/dictionary.py::tables::disjoint-kinds", not coll,
           f"kind(s) {sorted(set(coll))} are produced by two different tables / collide with a base kind", None)
    # lexer imports exactly these tables
    lm = prog.mod("lexer/lexer.py")
    def used(n_) -> bool:
        # the table itself, or a name of dictionary.py that is built from it there (a derived look-up structure)
        if prog.global_home(lm, n_) is not None and prog.global_home(lm, n_) == prog.global_home(m, n_):
            return True
        for local, (src, orig) in lm.imports.items():
            home = prog.global_home(lm, local)
            if home is None or home[0] is not m or home[1] == n_:
                continue
            builders = [st for st in m.tree.body if any(isinstance(x, ast.Name) and x.id == home[1] for x in ast.walk(st))]
            if any(isinstance(x, ast.Name) and x.id == n_ for st in builders for x in ast.walk(st)):
                return True
        return False
    missing_t = [n_ for n_ in T if not used(n_)]
    run.ob("R-10.3", "lexer/lexer.py::imports-tables", not missing_t,
           f"the lexer does not use the table(s) {missing_t} of lexer/dictionary.py (directly or through a structure built from them there)", None)

    run.rule("R-10.4", "TABLE totality (converse): every key of operators / brackets is produced, whole, by parse_operator / "
             "parse_brackets interpreted on that key followed by a blank", floor=2)
    for tname, fname in (("operators", "parse_operator"), ("brackets", "parse_brackets")):
        fn = prog.method("Lexer", fname)
        run.require(fn is not None, f"anchor vanished: Lexer.{fname}")
        missing = []
        spell_keys = list(T["trigraphs"]) + list(T["digraphs"])
        try:
            for k in sorted(T[tname]):
                if any(sp in k for sp in spell_keys):
                    continue
                sim = LexerSim(prog, k + " \n")
                out = sim.call(fname)
                got = getattr(out.value, "type", None) if out.kind == "ok" else f"raise {out.exc}"
                if not (got == T[tname][k] and sim.pos == len(k)):
                    missing.append(f"{k!r} -> {got}")
        except Unsupported as e:
            raise Undecided(f"Lexer.{fname} is outside the evaluable subset: {e}")
        run.ob("R-10.4", f"{fn.key}::covers[{tname}]", not missing,
               f"spelling(s) {missing[:6]} of {tname} can never be produced by {fname}: they are tokenized as something else",
               fn.node, producible=len(T[tname]) - len(missing))


def rule_parsers(run, prog):
    run.rule("R-10.5", "Lexer.parsers lists every parse_* method; get_next_token, interpreted with the sub-parsers replaced by "
             "stubs that log their call and match or not according to a scenario (each one alone, each one and all later "
             "ones, none for every one-character input), returns the first match without a diagnostic and records BAD_LEXEME "
             "only after all of them were tried in order, skipping exactly that character", floor=2)
    lx = prog.cls("Lexer")
    listed = [f.name for f in lexer_parsers(prog)]
    defined = sorted(n for n in lx.methods if n.startswith("parse_"))
    missing = [n for n in defined if n not in listed]
    dup = sorted({n for n in listed if listed.count(n) > 1})
    run.ob("R-10.5", "lexer/lexer.py::Lexer.parsers::complete", not missing and not dup and len(listed) >= 10,
           f"sub-parser(s) {missing} are not in Lexer.parsers (their lexemes become bad lexemes) / listed twice {dup}",
           lx.attr_nodes.get("parsers"), listed=listed)
    gnt = prog.fn("lexer/lexer.py::Lexer.get_next_token")
    n = len(listed)
    run.require(n >= 1, "anchor vanished: Lexer.parsers is empty")
    why = None
    runs = 0

    def scenario(source, matching):
        sim = LexerSim(prog, source)
        toks = [TokenStub(f"T{i}", (1, 1), None) for i in range(n)]

        def stub(i):
            def parser(me=None):
                sim.trace.append(("parser", i))
                return toks[i] if i in matching else None
            return parser
        sim.me.__dict__["parsers"] = tuple(stub(i) for i in range(n))
        out = sim.call("get_next_token")
        return sim, toks, out

    from ..lexsim import parsers_hook_works
    try:
        if not parsers_hook_works(prog):
            raise Undecided("get_next_token does not select its sub-parsers by walking self.parsers: the stub scenarios cannot be "
                            "planted (the real sub-parsers are decided by R-10.4 / R-12.1 / R-7.5)")
        # (a) some sub-parser matches: the parsers before it were tried in order, its token is returned, nothing is reported
        for k in range(n):
            for matching in ({k}, set(range(k, n))):
                sim, toks, out = scenario("@", matching)
                runs += 1
                want = [("parser", i) for i in range(k + 1)]
                if why is None and not (out.kind == "ok" and out.value is toks[k] and sim.trace == want):
                    why = (f"when sub-parser #{k} is the first to match, the call sequence is "
                           f"{_show_trace(sim.trace)} and the result {out!r} (expected parsers 0..{k} in order, token of #{k}, no diagnostic)")
        # (b) no sub-parser matches: all were tried, in order, before BAD_LEXEME is recorded; exactly that character is skipped
        for ch in _ONE_CHAR_DOMAIN + ["\x00", "\x7f", "\xe9"]:
            sim, toks, out = scenario(ch, set())
            runs += 1
            want = [("parser", i) for i in range(n)] + [("error", "BAD_LEXEME")]
            if why is None and not (sim.trace[:n + 1] == want and out.kind == "ok" and out.value is None and sim.pos == 1
                                    and sim.error_names() == ["BAD_LEXEME"]):
                why = (f"for the unmatchable character {ch!r} the call sequence is {_show_trace(sim.trace)}, result {out!r}, "
                       f"{sim.pos} character(s) skipped, diagnostics {sim.error_names()} (expected every sub-parser in order, then "
                       f"one BAD_LEXEME, one character skipped)")
        # (c) the sub-parsers are never consulted at a position where a line splice starts, also right after a bad lexeme
        #     was skipped (the splice skipping must be repeated before every consultation, not once per call)
        for src in ("@\\\nx", "@??/\nx", "@@\\\nx", "\\\n@\\\n\\\nx", "@\\\n??/\nx", "x"):
            sim = LexerSim(prog, src)
            seen_at = []

            def probe(me=None, sim=sim, seen_at=seen_at, src=src):
                seen_at.append(sim.pos)
                return TokenStub("T", (sim.line, sim.line_pos), None) if src[sim.pos:sim.pos + 1] == "x" else None
            sim.me.__dict__["parsers"] = (probe,)
            out = sim.call("get_next_token")
            runs += 1
            at_splice = [p_ for p_ in seen_at if src.startswith("\\\n", p_) or src.startswith("??/\n", p_)]
            if why is None and (at_splice or out.kind != "ok" or not seen_at or seen_at[-1] != src.index("x")):
                why = (f"on {src!r} the sub-parsers are consulted at offsets {seen_at} (result {out!r}): offset(s) {at_splice} start a "
                       f"line splice, which must be skipped before the parsers look -- a splice right after a skipped bad lexeme is "
                       f"then tokenized as a backslash / `?` `?` `/` and a NEWLINE")
    except Unsupported as e:
        raise Undecided(f"Lexer.get_next_token is outside the evaluable subset: {e}")
    loops = [x for x in walk_fn(gnt.node) if isinstance(x, ast.For) and "parsers" in text(x.iter)]
    run.ob("R-10.5", f"{gnt.key}::first-match-then-bad-lexeme", why is None,
           "get_next_token does not try every sub-parser before declaring a bad lexeme: " + (why or ""),
           loops[0] if loops else gnt.node, scenarios=runs)


def _show_trace(tr, limit=14) -> str:
    out = []
    for kind, what in tr[:limit]:
        out.append(f"p{what}" if kind == "parser" else f"{what}")
    return "[" + " ".join(out) + (" ..." if len(tr) > limit else "") + "]"


def check(run, prog):
    rule_flow(run, prog)
    rule_raw_advance(run, prog)
    rule_pop_counts(run, prog)
    rule_tables(run, prog)
    rule_parsers(run, prog)
    # a stale cache of anything derived from the cursor shows the sub-parsers a character that is no longer there
    from .c12 import rule_position_caches
    rule_position_caches(run, prog, "R-10.7")
    rule_identifier_text(run, prog)


def rule_identifier_text(run, prog):
    run.rule("R-10.8", "a value-less token is produced only for the exact spelling its kind stands for: parse_identifier, "
             "interpreted on every keyword and on its near misses (a letter, digit or underscore(s) added in front or behind, "
             "the other case, doubled), returns the keyword kind exactly for the key itself and an IDENTIFIER carrying the whole "
             "spelling otherwise -- two different spellings never collapse into the same token", floor=1)
    from .c18 import _identifier_membership_observed
    try:
        kw = fold_name("keywords", prog.mod("lexer/dictionary.py"))
    except Unknown as e:
        raise AnalysisError(f"keywords table does not fold: {e}")
    pi = prog.method("Lexer", "parse_identifier")
    run.require(pi is not None, "anchor vanished: Lexer.parse_identifier")
    ok, why = _identifier_membership_observed(prog, kw)
    if ok is None:
        raise Undecided(f"Lexer.parse_identifier is outside the evaluable subset: {why}")
    run.ob("R-10.8", f"{pi.key}::spelling-kept", ok,
           f"the characters of an identifier are dropped: {why}: the token stream no longer reproduces the input", pi.node)
    rule_escape_units(run, prog)


def rule_escape_units(run, prog):
    run.rule("R-10.9", "an escape sequence is consumed as what it returns: Lexer.pop(use_escape=True), interpreted on a backslash "
             "followed by every ASCII letter, digit or punctuation character and then 0..8 hexadecimal digits and a quote, returns "
             "exactly the raw characters it has moved the cursor over (or raises): nothing behind a short \\x / \\u / octal escape "
             "is skipped without being part of the token", floor=1)
    import string as _s
    pop = prog.method("Lexer", "pop")
    run.require(pop is not None, "anchor vanished: Lexer.pop")
    bad, n = None, 0
    try:
        for lead in _s.ascii_letters + _s.digits + "'\"?\\ ":
            for k in range(0, 9):
                src = "\\" + lead + "1a2B3c4D"[:k] + "\"; z"
                n += 1
                sim = LexerSim(prog, src)
                out = sim.call("pop", use_escape=True)
                if out.kind != "ok":
                    continue                      # an exception: the literal sub-parsers turn it into a diagnostic (R-5.2)
                if out.value != src[:sim.pos] and bad is None:
                    bad = (src, out.value, sim.pos)
    except Unsupported as e:
        raise Undecided(f"Lexer.pop is outside the evaluable subset: {e}")
    run.ob("R-10.9", f"{pop.key}::escape-units", bad is None,
           (f"pop(use_escape=True) on {bad[0]!r} returns {bad[1]!r} but moves the cursor to offset {bad[2]} ({bad[0][:bad[2]]!r}): "
            f"{bad[2] - len(bad[1])} character(s) are in no token") if bad else "", pop.node, evaluations=n)
    rule_tokenizer_reaches(run, prog)
    from .c10_roundtrip import rule_round_trip
    rule_round_trip(run, prog)


def rule_tokenizer_reaches(run, prog):
    run.rule("R-10.10", "the tokenizer as a whole reaches every sub-parser: get_next_token, interpreted with the tree's own "
             "sub-parsers and its own way of selecting them, gives every key of the operator / bracket / keyword tables its kind, "
             "every literal prefix its string / character literal, digits a CONSTANT, blanks, newline and both comment forms their "
             "kinds, each time consuming exactly the lexeme", floor=1)
    gnt = prog.method("Lexer", "get_next_token")
    run.require(gnt is not None, "anchor vanished: Lexer.get_next_token")
    dm = prog.mod("lexer/dictionary.py")
    try:
        T = {t: fold_name(t, dm) for t in ("keywords", "operators", "brackets", "trigraphs", "digraphs")}
        prefixes = sorted({p for p in fold_name("quote_prefixes", prog.mod("lexer/lexer.py")) if isinstance(p, str)} | {""})
    except Unknown as e:
        raise AnalysisError(f"lexer tables do not fold: {e}")
    spell = list(T["trigraphs"]) + list(T["digraphs"])
    cases = []
    for tn in ("operators", "brackets"):
        for k, kind in sorted(T[tn].items()):
            if not any(sp in k for sp in spell):
                cases.append((k, " x", kind))
    for k, kind in sorted(T["keywords"].items()):
        cases.append((k, " x", kind))
    for p_ in prefixes:
        cases.append((p_ + '"a b"', ";", "STRING"))
        cases.append((p_ + "'a'", ";", "CHAR_CONST"))
    cases += [("42", ";", "CONSTANT"), ("0x1f", ";", "CONSTANT"), ("1.5f", ";", "CONSTANT"), (".5", ";", "CONSTANT"), ("name_1", ";", "IDENTIFIER"),
              ("_x", ";", "IDENTIFIER"), (" ", "x", "SPACE"), ("\t", "x", "TAB"), ("\n", "x", "NEWLINE"), ("// c", "\nx", "COMMENT"),
              ("/* c */", "x", "MULT_COMMENT")]
    bad, n = None, 0
    try:
        for lexeme, tail, kind in cases:
            n += 1
            sim = LexerSim(prog, lexeme + tail)
            out = sim.call("get_next_token")
            got = getattr(out.value, "type", None) if out.kind == "ok" else repr(out)
            if (got != kind or sim.pos != len(lexeme) or sim.error_names()) and bad is None:
                bad = (lexeme, kind, got, sim.pos, sim.error_names())
    except Unsupported as e:
        raise Undecided(f"Lexer.get_next_token is outside the evaluable subset: {e}")
    run.ob("R-10.10", f"{gnt.key}::reaches-every-sub-parser", bad is None,
           (f"get_next_token on {bad[0]!r} gives {bad[2]} and consumes {bad[3]} character(s) (diagnostics {bad[4]}), expected {bad[1]} "
            f"and the whole lexeme: the sub-parser that recognises it is not reached") if bad else "", gnt.node, evaluations=n)
