"""C10 — tokenization is lossless (partial: nothing consumed is dropped; token
kinds determine their text; tables injective and total).  DESIGN.md §4.10."""
from __future__ import annotations

import ast
from typing import Dict, List, Optional, Set

from ..calls import lexer_parsers
from ..cfg import cfg_of
from ..fold import Unknown, fold_name
from ..model import AnalysisError, ancestors, parent, text, walk_fn
from .c05 import _cfg_node_of_expr, _pop_sites, key_value_set

BASE_KINDS = {"SPACE", "TAB", "NEWLINE", "IDENTIFIER", "CONSTANT", "STRING", "CHAR_CONST", "COMMENT", "MULT_COMMENT"}


def _token_calls(fn):
    return [n for n in walk_fn(fn.node) if isinstance(n, ast.Call) and isinstance(n.func, ast.Name) and n.func.id == "Token"]


def _value_arg(tok: ast.Call):
    if len(tok.args) > 2:
        return tok.args[2]
    for k in tok.keywords:
        if k.arg == "value":
            return k.value
    return None


def rule_flow(run, prog):
    run.rule("R-10.1", "dataflow: the result of every self.pop() in a sub-parser reaches the value of the returned Token "
             "(accumulator) or the key of the table that yields its kind, on every path; a discarded pop is allowed only "
             "where the kind was chosen by equality tests on that very character (whitespace)", floor=18)
    n = 0
    for fn in lexer_parsers(prog):
        g = cfg_of(fn)
        toks = _token_calls(fn)
        # accumulators: names used as (part of) a Token value argument
        acc: Set[str] = set()
        for t in toks:
            v = _value_arg(t)
            if v is not None:
                for x in ast.walk(v):
                    if isinstance(x, ast.Name):
                        acc.add(x.id)
        pop_nodes = {_cfg_node_of_expr(g, p) for p in _pop_sites(fn)}
        for pc in _pop_sites(fn):
            n += 1
            key = f"{fn.key}::pop-flow[{text(pc, 30)}]"
            p = parent(pc)
            # 1. directly inside a Token(...) value / key
            inside_tok = next((a for a in ancestors(pc) if a in toks), None)
            if inside_tok is not None:
                run.ob("R-10.1", key, True, "flows into the token under construction", pc)
                continue
            st = pc
            while not isinstance(st, ast.stmt):
                st = parent(st)
            if isinstance(st, ast.AugAssign) and isinstance(st.op, ast.Add) and isinstance(st.target, ast.Name) and st.target.id in acc:
                run.ob("R-10.1", key, True, "accumulated", pc)
                continue
            if isinstance(st, ast.Assign) and len(st.targets) == 1 and isinstance(st.targets[0], ast.Name):
                var = st.targets[0].id
                if var in acc:
                    run.ob("R-10.1", key, True, "bound to the accumulator", pc)
                    continue
                # var must be used (added to an accumulator, or as a table key of a Token kind) on every path
                uses = set()
                for m in walk_fn(fn.node):
                    if isinstance(m, ast.AugAssign) and isinstance(m.target, ast.Name) and m.target.id in acc \
                            and any(isinstance(x, ast.Name) and x.id == var for x in ast.walk(m.value)):
                        uses.add(g.nid(m))
                    if isinstance(m, ast.Assign) and any(isinstance(t, ast.Name) and t.id in acc for t in m.targets) \
                            and any(isinstance(x, ast.Name) and x.id == var for x in ast.walk(m.value)):
                        uses.add(g.nid(m))
                for t in toks:
                    if any(isinstance(x, ast.Name) and x.id == var for x in ast.walk(t)):
                        uses.add(_cfg_node_of_expr(g, t))
                uses.discard(None)
                sid = g.nid(st)
                lost = g.can_reach(sid, g.exit, avoid=uses, follow_exc=False) or any(
                    g.can_reach(sid, q, avoid=uses, follow_exc=False) for q in pop_nodes if q is not None)
                run.ob("R-10.1", key, not lost,
                       f"a character consumed into `{var}` can be dropped: some path from this pop to the end of the "
                       f"sub-parser (or to the next pop) neither appends it to the token text nor uses it as the table key",
                       pc, uses=len(uses))
                continue
            if isinstance(st, ast.Expr) and st.value is pc:
                # discarded: whitespace idiom
                ok = bool(toks) and all(isinstance(t.args[0], ast.Constant) for t in toks)
                consts = []
                for t in toks:
                    g_if = [a for a in ancestors(t) if isinstance(a, ast.If)]
                    if not g_if or not (isinstance(g_if[0].test, ast.Compare) and isinstance(g_if[0].test.ops[0], ast.Eq)
                                        and isinstance(g_if[0].test.comparators[0], ast.Constant)):
                        ok = False
                    else:
                        consts.append((g_if[0].test.comparators[0].value, t.args[0].value))
                ok = ok and len({c for c, _ in consts}) == len(consts) == len({k for _, k in consts}) and not pc.keywords
                run.ob("R-10.1", key, ok,
                       "the result of pop() is discarded although the token kind does not determine the character", pc)
                continue
            run.ob("R-10.1", key, False, f"pop() result used in an unrecognised way: {text(st)}", pc)
    run.require(n >= 18, f"only {n} pop sites in the sub-parsers (floor 18)")


def rule_raw_advance(run, prog):
    run.rule("R-10.2", "every direct advance of the source position outside pop() is the splice skip or is dominated by the "
             "BAD_LEXEME diagnostic being added (never silently discarded)", floor=2)
    n = 0
    for fn in prog.functions_in("lexer/lexer.py"):
        if fn.name in ("pop", "__init__"):
            continue
        g = cfg_of(fn)
        for st in walk_fn(fn.node):
            if isinstance(st, (ast.AugAssign, ast.Assign)) and any(text(t).endswith("__pos") for t in (
                    [st.target] if isinstance(st, ast.AugAssign) else st.targets)):
                n += 1
                key = f"{fn.key}::raw-advance[{text(st, 40)}]"
                guards = [a for a in ancestors(st) if isinstance(a, ast.If)]
                splice = any('\\\\\\n' in text(a.test) and "??/" in text(a.test) for a in guards)
                if splice:
                    run.ob("R-10.2", key, True, "splice skip (both spellings)", st)
                    continue
                adds = [g.nid(x) for x in walk_fn(fn.node) if isinstance(x, ast.Expr) and isinstance(x.value, ast.Call)
                        and text(x.value.func).endswith("errors.add")]
                errs = [x for x in walk_fn(fn.node) if isinstance(x, ast.Assign) and "BAD_LEXEME" in text(x.value)]
                ok = bool(errs) and any(a is not None and g.dominates(a, g.nid(st), follow_exc=False) for a in adds)
                run.ob("R-10.2", key, ok,
                       "a character is skipped by advancing the position directly without the BAD_LEXEME diagnostic "
                       "having been recorded on every path", st)
    run.require(n >= 2, f"only {n} raw advances found (floor 2)")


def rule_tables(run, prog):
    run.rule("R-10.3", "TABLE injectivity: keywords / operators / brackets map distinct spellings to distinct kinds, kinds "
             "do not collide across tables nor with the base kinds; digraph / trigraph values are single characters", floor=5)
    m = prog.mod("lexer/dictionary.py")
    T = {}
    for name in ("keywords", "operators", "brackets", "digraphs", "trigraphs"):
        try:
            T[name] = fold_name(name, m)
        except Unknown as e:
            raise AnalysisError(f"lexer table {name} does not fold: {e}")
        # the literal itself must not repeat a key (a later duplicate silently wins)
        lit = m.assigns[name][0]
        keys = [k.value for k in lit.keys if isinstance(k, ast.Constant)] if isinstance(lit, ast.Dict) else []
        dup = sorted({k for k in keys if keys.count(k) > 1})
        vals = list(T[name].values())
        dupv = sorted({v for v in vals if vals.count(v) > 1})
        if name in ("keywords", "operators", "brackets"):
            run.ob("R-10.3", f"lexer/dictionary.py::{name}::injective", not dup and not dupv,
                   f"{name}: repeated key(s) {dup} / two spellings share the kind(s) {dupv}: the token text cannot be "
                   f"recovered from its kind", lit, size=len(vals))
        else:
            bad = sorted(k for k, v in T[name].items() if not (isinstance(v, str) and len(v) == 1))
            run.ob("R-10.3", f"lexer/dictionary.py::{name}::single-char", not dup and not bad,
                   f"{name}: entries {bad} do not translate to a single character / repeated keys {dup}", lit)
    allk = [("keywords", v) for v in T["keywords"].values()] + [("operators", v) for v in T["operators"].values()] + \
           [("brackets", v) for v in T["brackets"].values()]
    seen: Dict[str, str] = {}
    coll = []
    for tn, v in allk:
        if v in seen and seen[v] != tn:
            coll.append(v)
        seen.setdefault(v, tn)
        if v in BASE_KINDS:
            coll.append(v)
    run.ob("R-10.3", "lexer/dictionary.py::tables::disjoint-kinds", not coll,
           f"kind(s) {sorted(set(coll))} are produced by two different tables / collide with a base kind", None)
    # lexer imports exactly these tables
    lm = prog.mod("lexer/lexer.py")
    ok = all(lm.imports.get(n_) == ("norminette.lexer.dictionary", n_) for n_ in T)
    run.ob("R-10.3", "lexer/lexer.py::imports-tables", ok, "the lexer does not use the tables of lexer/dictionary.py", None)

    run.rule("R-10.4", "TABLE totality (converse): every key of operators / brackets is producible by some return site of "
             "parse_operator / parse_brackets (union of the guard-derived key sets)", floor=2)
    for tname, fname in (("operators", "parse_operator"), ("brackets", "parse_brackets")):
        fn = prog.method("Lexer", fname)
        run.require(fn is not None, f"anchor vanished: Lexer.{fname}")
        union: Set[str] = set()
        unknown = False
        for n in walk_fn(fn.node):
            if isinstance(n, ast.Subscript) and isinstance(n.value, ast.Name) and n.value.id == tname:
                vs = key_value_set(fn, n.slice, n, T)
                if vs is None:
                    unknown = True
                else:
                    union |= vs
        missing = sorted(set(T[tname]) - union)
        run.ob("R-10.4", f"{fn.key}::covers[{tname}]", not unknown and not missing,
               f"spelling(s) {missing} of {tname} can never be produced by {fname}: they are tokenized as something else",
               fn.node, producible=len(union))


def rule_parsers(run, prog):
    run.rule("R-10.5", "Lexer.parsers lists every parse_* method; get_next_token returns the first non-empty result and "
             "reaches the bad-lexeme branch only after all of them", floor=2)
    lx = prog.cls("Lexer")
    listed = [f.name for f in lexer_parsers(prog)]
    defined = sorted(n for n in lx.methods if n.startswith("parse_"))
    missing = [n for n in defined if n not in listed]
    dup = sorted({n for n in listed if listed.count(n) > 1})
    run.ob("R-10.5", "lexer/lexer.py::Lexer.parsers::complete", not missing and not dup and len(listed) >= 10,
           f"sub-parser(s) {missing} are not in Lexer.parsers (their lexemes become bad lexemes) / listed twice {dup}",
           lx.attr_nodes.get("parsers"), listed=listed)
    gnt = prog.fn("lexer/lexer.py::Lexer.get_next_token")
    loops = [n for n in walk_fn(gnt.node) if isinstance(n, ast.For) and text(n.iter) == "self.parsers"]
    ok = len(loops) == 1
    if ok:
        lp = loops[0]
        ok = len(lp.body) == 1 and isinstance(lp.body[0], ast.If) and isinstance(lp.body[0].body[0], ast.Return) \
            and not lp.orelse and not any(isinstance(x, (ast.Break, ast.Continue)) for x in ast.walk(lp))
        # the bad-lexeme code follows the loop in the same block
        blk = None
        p = parent(lp)
        for field in ("body", "orelse"):
            b = getattr(p, field, None)
            if isinstance(b, list) and any(s is lp for s in b):
                blk = b
        after = blk[[i for i, s in enumerate(blk) if s is lp][0] + 1:] if blk else []
        ok = ok and any("BAD_LEXEME" in text(s) for s in after) and not any(
            "BAD_LEXEME" in text(s) for s in (blk[:[i for i, s in enumerate(blk) if s is lp][0]] if blk else []))
    run.ob("R-10.5", f"{gnt.key}::first-match-then-bad-lexeme", ok,
           "get_next_token does not try every sub-parser before declaring a bad lexeme", loops[0] if loops else gnt.node)


def check(run, prog):
    rule_flow(run, prog)
    rule_raw_advance(run, prog)
    rule_tables(run, prog)
    rule_parsers(run, prog)
