"""R-5.11 (property C05): scans bounded by tkn_scope do not dereference a token that may not exist.

context.tkn_scope is the number of tokens the matched primary *claimed*; a primary whose index runs past the end of the
input (a statement cut short by the end of the file) claims more tokens than are left, so `peek_token(i)` is None for the
last values of i < tkn_scope.  A loop bounded by tkn_scope (rather than by len(context.tokens)) may therefore use the token
at i only behind a test that establishes its existence."""
from __future__ import annotations

import ast
from typing import Dict, Optional

from ..cfg import cfg_of
from ..model import text, walk_fn
from .c05 import _cfg_node_of_expr, _only_through


def _bound_is_scope(loop) -> bool:
    if isinstance(loop, ast.For) and isinstance(loop.iter, ast.Call) and text(loop.iter.func) == "range" and loop.iter.args:
        b = text(loop.iter.args[-1] if len(loop.iter.args) < 3 else loop.iter.args[1])
        return "tkn_scope" in b and "len(" not in b
    if isinstance(loop, ast.While):
        for c in ast.walk(loop.test):
            if isinstance(c, ast.Compare) and len(c.ops) == 1 and isinstance(c.ops[0], (ast.Lt, ast.LtE)):
                b = text(c.comparators[0])
                if "tkn_scope" in b and "len(" not in b:
                    return True
    return False


def _establishes(test, subject: str, index: Optional[str]) -> Optional[str]:
    """Outcome ('T'/'F') of *test* on which the token named / indexed exists."""
    if isinstance(test, ast.UnaryOp) and isinstance(test.op, ast.Not):
        r = _establishes(test.operand, subject, index)
        return {"T": "F", "F": "T"}.get(r)
    if isinstance(test, ast.BoolOp):
        rs = [_establishes(v, subject, index) for v in test.values]
        if isinstance(test.op, ast.And):
            return "T" if "T" in rs else None
        return "F" if "F" in rs else None
    if isinstance(test, ast.Compare) and len(test.ops) == 1:
        l, r, op = text(test.left), text(test.comparators[0]), test.ops[0]
        if l == subject and r == "None":
            return "F" if isinstance(op, (ast.Is, ast.Eq)) else "T" if isinstance(op, (ast.IsNot, ast.NotEq)) else None
        if isinstance(test.left, ast.Call) and text(test.left.func).endswith("check_token") and test.left.args \
                and index is not None and text(test.left.args[0]) == index and r in ("True", "False"):
            return "T" if isinstance(op, (ast.Is, ast.Eq)) else None       # True or False: the token exists either way
    if isinstance(test, ast.Call) and text(test.func).endswith("check_token") and test.args and index is not None \
            and text(test.args[0]) == index:
        return "T"
    if text(test) == subject:
        return "T"
    return None


def rule_scope_scans(run, prog):
    run.rule("R-5.11", "a loop bounded by context.tkn_scope (the token count a primary claimed, which can exceed the tokens left) "
             "uses `peek_token(i).<attr>` / a local bound to peek_token(i) only behind a test that establishes the token's "
             "existence (is None / is not None / truthiness / check_token on the same index), on every path", floor=1)
    n_loops = 0
    for fn in prog.fns:
        if not (fn.mod.rel.startswith("rules/") or fn.mod.rel == "context.py"):
            continue
        loops = [n for n in walk_fn(fn.node) if isinstance(n, (ast.For, ast.While)) and _bound_is_scope(n)]
        if not loops:
            continue
        g = cfg_of(fn)
        for lp in loops:
            n_loops += 1
            bound: Dict[str, str] = {}            # local -> index text of the peek_token call it holds
            for n in ast.walk(lp):
                if isinstance(n, ast.Assign) and len(n.targets) == 1 and isinstance(n.targets[0], ast.Name) \
                        and isinstance(n.value, ast.Call) and text(n.value.func).endswith("peek_token") and n.value.args:
                    bound[n.targets[0].id] = text(n.value.args[0])
            head = g.nid(lp) if g.nid(lp) is not None else _cfg_node_of_expr(g, lp)
            bad = None
            for n in ast.walk(lp):
                if not (isinstance(n, ast.Attribute) and isinstance(n.ctx, ast.Load)):
                    continue
                subject = index = None
                if isinstance(n.value, ast.Call) and text(n.value.func).endswith("peek_token") and n.value.args:
                    subject, index = text(n.value), text(n.value.args[0])
                elif isinstance(n.value, ast.Name) and n.value.id in bound:
                    subject, index = n.value.id, bound[n.value.id]
                if subject is None:
                    continue
                at = _cfg_node_of_expr(g, n)
                if at is None or head is None:
                    continue
                tests = {}
                for tn in g.nodes:
                    if tn.kind == "test" and tn.ast is not None:
                        sd = _establishes(tn.ast, subject, index)
                        if sd is not None:
                            tests[tn.id] = sd
                # a short-circuit inside the same expression: `tkn and tkn.type == ...`
                same_expr = False
                p = n
                from ..model import parent
                while p is not None and not isinstance(p, ast.stmt):
                    q = parent(p)
                    if isinstance(q, ast.BoolOp) and isinstance(q.op, ast.And) and q.values.index(p) > 0 and any(
                            _establishes(v, subject, index) == "T" for v in q.values[:q.values.index(p)]):
                        same_expr = True
                    p = q
                if same_expr:
                    continue
                if not tests or not _only_through(g, head, at, tests):
                    bad = n
                    break
            run.ob("R-5.11", f"{fn.key}::scope-scan[{text(lp.iter if isinstance(lp, ast.For) else lp.test, 40)}]", bad is None,
                   f"`{text(bad, 50) if bad is not None else ''}` is evaluated for every index below tkn_scope without a test that the "
                   f"token exists: when the statement is cut short by the end of input peek_token returns None and the rule "
                   f"crashes with AttributeError", bad if bad is not None else lp)
    run.require(n_loops >= 1, "no loop bounded by tkn_scope found (expected Context.find_in_scope)")
