"""C12 — alternative spellings and line splices do not change the tokens (partial).  DESIGN.md §4.12."""
from __future__ import annotations

import ast
import itertools
from typing import List

from ..cfg import cfg_of
from ..dataflow import _rd_of, cfg_node_of
from ..fold import Unknown, fold_in_fn, fold_name
from ..lexsim import LexerSim
from ..minieval import Unsupported
from ..model import AnalysisError, Undecided, enclosing_stmt, parent, text, walk_fn
from .c10 import _expanded_strings

RESPELLABLE = set("{}[]#\\^|~")
TRIGRAPHS = {"??<": "{", "??>": "}", "??(": "[", "??)": "]", "??=": "#", "??/": "\\", "??'": "^", "??!": "|", "??-": "~"}
DIGRAPHS = {"<%": "{", "%>": "}", "<:": "[", ":>": "]", "%:": "#"}
SPELLING_PARTS = list(DIGRAPHS) + ["??"]


def _strings_in(v) -> List[str]:
    if isinstance(v, str):
        return [v]
    if isinstance(v, dict):
        return [k for k in v if isinstance(k, str)]
    if isinstance(v, (tuple, list, set, frozenset)):
        return [x for x in v if isinstance(x, str)]
    return []


def _table_aliases(fn):
    """Names under which the trigraph / digraph tables of lexer/dictionary.py are visible in the module of *fn*."""
    from ..model import program
    prog = program()
    tri, di = {"trigraphs"}, {"digraphs"}
    mod = fn.mod
    for nm in list(mod.imports) + list(mod.assigns):
        home = prog.global_home(mod, nm)
        if home is not None and home[0].rel == "lexer/dictionary.py":
            if home[1] == "trigraphs":
                tri.add(nm)
            elif home[1] == "digraphs":
                di.add(nm)
    return tri, di



def _table_tests(fn, g):
    """CFG test nodes of *fn* that decide membership in the trigraph / digraph tables: ([trigraph tests], [digraph tests])."""
    tri, di = [], []
    tri_names, di_names = _table_aliases(fn)
    for node in g.nodes:
        if node.kind != "test" or node.ast is None:
            continue
        names = {x.id for x in ast.walk(node.ast) if isinstance(x, ast.Name)}
        has_in = any(isinstance(c, ast.Compare) and any(isinstance(o, (ast.In, ast.NotIn)) for o in c.ops) for c in ast.walk(node.ast))
        if not has_in:
            continue
        if names & tri_names:
            tri.append(node.id)
        elif names & di_names:
            di.append(node.id)
    return tri, di


def _node_ast(g, nid):
    a = g.nodes[nid].ast
    if isinstance(a, ast.For):
        return a.iter
    return a


def _only_via_false_edge(g, a, b) -> bool:
    """b is reached from test a only through a's F edge (not from its T branch without re-evaluating a)."""
    t_succ = [m for m, lab in g.succ[a] if lab == "T"]
    for m in t_succ:
        if m == b or g.can_reach(m, b, avoid={a}, follow_exc=False):
            return False
    return True


def translation_chains(fn):
    """(well-ordered digraph tests, misplaced digraph tests, trigraph tests): a digraph membership test is well ordered
    when some trigraph membership test dominates it and it is reached only when that test failed."""
    g = cfg_of(fn)
    tri, di = _table_tests(fn, g)
    good, bad = [], []
    for d in di:
        ok = any(g.dominates(t, d, follow_exc=False) and _only_via_false_edge(g, t, d) for t in tri)
        (good if ok else bad).append(d)
    # table-driven form: `for table, width in ((trigraphs, 3), (digraphs, 2)): if <x> in table: ...; break`
    tri_names, di_names = _table_aliases(fn)
    for lp in walk_fn(fn.node):
        if not (isinstance(lp, ast.For) and isinstance(lp.iter, (ast.Tuple, ast.List))):
            continue
        order = []
        for el in lp.iter.elts:
            members = list(el.elts) if isinstance(el, (ast.Tuple, ast.List)) else [el]
            for first in members:                 # the table may stand anywhere in the row: (table, width) or (width, table)
                if isinstance(first, ast.Name) and first.id in tri_names | di_names:
                    order.append("trigraphs" if first.id in tri_names else "digraphs")
                    break
        if "digraphs" not in order:
            continue
        tnames = {x.id for x in ast.walk(lp.target) if isinstance(x, ast.Name)}
        member = any(isinstance(c, ast.Compare) and isinstance(c.ops[0], (ast.In, ast.NotIn)) and isinstance(c.comparators[0], ast.Name)
                     and c.comparators[0].id in tnames for st in lp.body for c in ast.walk(st))
        nid = g.nid(lp)
        if not member or nid is None:
            continue
        leaves_on_match = any(isinstance(x, (ast.Break, ast.Return)) for st in lp.body for x in ast.walk(st))
        ok = "trigraphs" in order and order.index("trigraphs") < order.index("digraphs") and leaves_on_match
        (good if ok else bad).append(nid)
    return g, good, bad, tri


def _chain_member(fn, stmt) -> bool:
    """The statement lies in a region controlled by a well-ordered trigraph/digraph test of *fn* (a branch of a
    translation chain: what it appends is the translated character, also in the plain-character arm)."""
    g, good, bad, tri = translation_chains(fn)
    if not good:
        return False
    sid = cfg_node_of(g, stmt)
    if sid is None:
        return False
    return any(g.dominates(d, sid, follow_exc=False) for d in good)


class Translated:
    """Flow-sensitive judgement 'this local holds a character that went through the trigraph/digraph translation' (or a
    constant), by reaching definitions: every definition reaching the use must itself be translated."""

    def __init__(self, fn):
        self.fn = fn
        self.g, self.rd = _rd_of(fn)
        self.memo = {}
        a, b = _table_aliases(fn)
        self.tables = a | b

    def name_at(self, name: str, nid: int) -> bool:
        defs = self.rd.get(nid, {}).get(name)
        if not defs:
            return False
        return all(self.def_ok(name, d) for d in defs)

    def def_ok(self, name: str, d: int) -> bool:
        if d < 0:
            return False
        k = (name, d)
        if k in self.memo:
            return self.memo[k]
        self.memo[k] = True                      # coinductive: a loop-carried accumulation is judged by its other inputs
        node = self.g.nodes[d]
        a = node.ast
        ok = False
        if node.kind == "stmt" and isinstance(a, ast.Assign):
            ok = True
            hit = False
            for t in a.targets:
                comp = self._component(t, a.value, name)
                if comp is not None:
                    hit = True
                    ok = ok and self.expr_ok(comp, d)
            for w in ast.walk(a.value):
                if isinstance(w, ast.NamedExpr) and w.target.id == name:
                    hit = True
                    ok = ok and self.expr_ok(w.value, d)
            ok = ok and hit
        elif node.kind == "stmt" and isinstance(a, ast.AnnAssign) and a.value is not None:
            ok = self.expr_ok(a.value, d)
        elif node.kind == "stmt" and isinstance(a, ast.AugAssign) and isinstance(a.target, ast.Name) and isinstance(a.op, ast.Add):
            ok = self.name_at(name, d) and (self.expr_ok(a.value, d) or _chain_member(self.fn, a))
        elif a is not None and not isinstance(a, (ast.For, ast.AsyncFor, ast.With, ast.ExceptHandler)):
            # walrus inside a test / expression statement
            ws = [w for w in ast.walk(a) if isinstance(w, ast.NamedExpr) and w.target.id == name]
            ok = bool(ws) and all(self.expr_ok(w.value, d) for w in ws)
        self.memo[k] = ok
        return ok

    def _component(self, target, value, name):
        if isinstance(target, ast.Name):
            return value if target.id == name else None
        if isinstance(target, (ast.Tuple, ast.List)):
            if isinstance(value, (ast.Tuple, ast.List)) and len(value.elts) == len(target.elts):
                for t, v in zip(target.elts, value.elts):
                    got = self._component(t, v, name)
                    if got is not None:
                        return got
                return None
            if any(isinstance(x, ast.Name) and x.id == name for x in ast.walk(target)):
                return value
        return None

    def expr_ok(self, e, at: int) -> bool:
        if isinstance(e, ast.Constant):
            return True
        if any(isinstance(c, ast.Call) and text(c.func) == "self.peek" for c in ast.walk(e)):
            return True
        if isinstance(e, ast.Name):
            return self.name_at(e.id, at)
        if isinstance(e, ast.NamedExpr):
            return self.expr_ok(e.value, at)
        if isinstance(e, (ast.Tuple, ast.List)):
            return all(self.expr_ok(x, at) for x in e.elts)
        if isinstance(e, ast.Subscript):
            if isinstance(e.value, ast.Name) and e.value.id in self.tables:
                return True
            return self.expr_ok(e.value, at)
        if isinstance(e, ast.BinOp) and isinstance(e.op, (ast.Add, ast.Mult)):
            return self.expr_ok(e.left, at) and self.expr_ok(e.right, at)
        if isinstance(e, ast.IfExp):
            return self.expr_ok(e.body, at) and self.expr_ok(e.orelse, at)
        if isinstance(e, ast.Call) and isinstance(e.func, ast.Name) and e.func.id == "cast" and len(e.args) == 2:
            return self.expr_ok(e.args[1], at)
        return False

    def subject_ok(self, e) -> bool:
        at = cfg_node_of(self.g, e)
        if at is None:
            return False
        return self.expr_ok(e, at)


def _decisions_fed(fn, test):
    """The branch conditions a boolean sub-expression takes part in: the enclosing if/while/conditional test, or -- when it
    is first stored in a local -- every test that reads that local."""
    st = enclosing_stmt(test)
    n = test
    while parent(n) is not None and parent(n) is not st and not isinstance(parent(n), ast.IfExp):
        n = parent(n)
    p_ = parent(n)
    if isinstance(p_, ast.IfExp) and n is p_.test:
        return [p_.test]
    if isinstance(st, (ast.If, ast.While)) and any(x is test for x in ast.walk(st.test)):
        return [st.test]
    if isinstance(st, (ast.Assign, ast.AnnAssign)):
        tg = st.targets if isinstance(st, ast.Assign) else [st.target]
        names = {t.id for t in tg if isinstance(t, ast.Name)}
        out = []
        for m in walk_fn(fn.node):
            if isinstance(m, (ast.If, ast.While)) and any(isinstance(x, ast.Name) and x.id in names for x in ast.walk(m.test)):
                out.append(m.test)
            elif isinstance(m, ast.IfExp) and any(isinstance(x, ast.Name) and x.id in names for x in ast.walk(m.test)):
                out.append(m.test)
        return out
    if isinstance(st, ast.Return):
        return [st.value]
    return []



def _respellings(key: str, tri, di, limit=64):
    """All spellings of *key* obtained by writing each respellable character plainly, as a digraph or as a trigraph."""
    alts = []
    for ch in key:
        a = [ch] + sorted(k for k, v in di.items() if v == ch) + sorted(k for k, v in tri.items() if v == ch)
        alts.append(a)
    out = [""]
    for a in alts:
        out = [x + y for x in out for y in a][:limit * 4]
    return [x for x in out if x != key][:limit]



def check(run, prog):
    prog.mod("lexer/lexer.py")
    dm = prog.mod("lexer/dictionary.py")
    try:
        tables = {n: fold_name(n, dm) for n in ("operators", "brackets", "keywords", "trigraphs", "digraphs")}
    except Unknown as e:
        raise AnalysisError(f"lexer tables do not fold: {e}")

    # ---- R-12.1 -----------------------------------------------------------------------------
    run.rule("R-12.1", "who reads raw characters: in the punctuator sub-parsers every decision goes through the translating "
             "peek(); a raw_peek() comparison is allowed only against literals free of respellable characters and of "
             "digraph/trigraph fragments; peek() tests trigraphs, then digraphs, then the plain character; pop() reads "
             "through peek()", floor=5)
    for fname in ("parse_operator", "parse_brackets"):
        fn = prog.method("Lexer", fname)
        run.require(fn is not None, f"anchor vanished: Lexer.{fname}")
        raw_names = set()
        for n in walk_fn(fn.node):
            tgt = val = None
            if isinstance(n, ast.Assign) and len(n.targets) == 1:
                tgt, val = n.targets[0], n.value
            elif isinstance(n, ast.NamedExpr):
                tgt, val = n.target, n.value
            if isinstance(tgt, ast.Name) and val is not None and any(
                    isinstance(c, ast.Call) and text(c.func) == "self.raw_peek" for c in ast.walk(val)):
                raw_names.add(tgt.id)
        bad = []
        n_dec = 0
        for n in walk_fn(fn.node):
            if isinstance(n, ast.Compare) and len(n.ops) == 1:
                sides = [n.left, n.comparators[0]]
                raw_side = [s for s in sides if any((isinstance(c, ast.Call) and text(c.func) == "self.raw_peek")
                                                    or (isinstance(c, ast.Name) and c.id in raw_names) for c in ast.walk(s))]
                if not raw_side:
                    continue
                n_dec += 1
                other = sides[1] if raw_side[0] is sides[0] else sides[0]
                v = fold_in_fn(other, fn, default=None)
                strs = _strings_in(v)
                if v is None or not strs:
                    if isinstance(other, ast.Constant) and other.value is None:
                        continue
                    bad.append((n, "compared with something that is not a foldable literal"))
                    continue
                for s_ in strs:
                    if set(s_) & RESPELLABLE or any(part in s_ for part in SPELLING_PARTS):
                        bad.append((n, f"literal {s_!r} contains a respellable character / a digraph or trigraph fragment"))
        run.ob("R-12.1", f"{fn.key}::raw-decisions", not bad,
               "a punctuator decision is taken on the raw (untranslated) character: " + "; ".join(w for _, w in bad[:3])
               + " - the digraph/trigraph spelling would be tokenized differently", bad[0][0] if bad else fn.node, raw_comparisons=n_dec)
        # the sub-parser looks at the translated character at all (through peek(), or through its inlined chain)
        uses_peek = any(isinstance(c, ast.Call) and text(c.func) == "self.peek" for c in walk_fn(fn.node)) \
            or bool(translation_chains(fn)[1])
        run.ob("R-12.1", f"{fn.key}::uses-translating-peek", uses_peek, f"{fname} never consults the translating peek()", fn.node)
        # ... and, interpreted on every respelling of every key of its table, yields the kind of the plain spelling
        tname = "operators" if fname == "parse_operator" else "brackets"
        diff = None
        n_sp = 0
        try:
            for key in sorted(tables[tname]):
                for sp in _respellings(key, tables["trigraphs"], tables["digraphs"]):
                    n_sp += 1
                    res = []
                    for src in (key, sp):
                        sim = LexerSim(prog, src + " \n")
                        out = sim.call(fname)
                        res.append((out.kind, getattr(out.value, "type", None) if out.kind == "ok" else out.exc, sim.pos == len(src)))
                    if diff is None and (res[0] != res[1] or not res[0][2] or res[0][0] != "ok"):
                        diff = (key, sp, res)
        except Unsupported as e:
            raise Undecided(f"Lexer.{fname} is outside the evaluable subset: {e}")
        run.ob("R-12.1", f"{fn.key}::respelling-invariant", diff is None and n_sp > 0,
               (f"{diff[0]!r} gives {diff[2][0][1]} but its spelling {diff[1]!r} gives {diff[2][1][1]} "
                f"(whole lexeme consumed: {diff[2][0][2]} / {diff[2][1][2]})") if diff else "no respellable key", fn.node, spellings=n_sp)
    pk = prog.method("Lexer", "peek")
    run.require(pk is not None, "anchor vanished: Lexer.peek")
    g_pk, good, bad_, tri_tests = translation_chains(pk)
    # what peek() returns for every key of the two tables, for a plain character and for two characters in a row
    wrong = None
    try:
        cases = [(k, (v, len(k))) for k, v in sorted(tables["trigraphs"].items())] + \
                [(k, (v, len(k))) for k, v in sorted(tables["digraphs"].items())] + [("a", ("a", 1)), ("?", ("?", 1)), ("<", ("<", 1))]
        # a trigraph whose last character also begins a digraph: the trigraph wins (translation phase 1 comes first)
        for t_, tv in sorted(tables["trigraphs"].items()):
            for d_ in sorted(tables["digraphs"]):
                if t_[-1] == d_[0]:
                    cases.append((t_ + d_[1:], (tv, len(t_))))
        for src, want in cases:
            sim = LexerSim(prog, src + "x")
            out = sim.call("peek")
            got = tuple(out.value) if out.kind == "ok" and isinstance(out.value, (tuple, list)) else out
            if got != want and wrong is None:
                wrong = (src, want, got)
        t3, d2 = sorted(tables["trigraphs"])[0], sorted(tables["digraphs"])[0]
        want = (tables["trigraphs"][t3] + tables["digraphs"][d2] + "a", len(t3) + len(d2) + 1)
        sim = LexerSim(prog, t3 + d2 + "a")
        out = sim.call("peek", times=3)
        if wrong is None and not (out.kind == "ok" and tuple(out.value or ()) == want):
            wrong = (f"{t3 + d2 + 'a'} (times=3)", want, out)
    except Unsupported as e:
        raise Undecided(f"Lexer.peek is outside the evaluable subset: {e}")
    # (the order is decided by the interpretation above -- overlapping spellings included; the shape of the chain of tests is
    # only reported: a table-driven peek has no chain at all)
    run.ob("R-12.1", f"{pk.key}::translation-order", not bad_ and wrong is None,
           f"peek() does not test trigraph, then digraph, then plain character "
           f"({len(good)} digraph test(s) reached only after a failed trigraph test, {len(bad_)} misplaced"
           + (f"; peek() on {wrong[0]!r} returns {wrong[2]!r}, expected {wrong[1]!r}" if wrong else "") + ")",
           _node_ast(g_pk, (bad_ or good or [g_pk.entry])[0]) or pk.node)
    # ... and the translation does not depend on what stands to the left of the spelling (no index / cache of
    # "where a spelling may begin" that overlapping spellings defeat): every key after every short left context
    # made of spelling characters, and after every other key
    wrong_ctx = None
    n_ctx = 0
    try:
        keys = dict(tables["trigraphs"])
        keys.update(tables["digraphs"])
        alphabet = sorted({ch for k in keys for ch in k})
        contexts = [""] + alphabet + sorted({k[:2] for k in keys}) + sorted(keys) + ["???", "a?", "?a"]
        for ctx in contexts:
            for k, v in sorted(keys.items()):
                n_ctx += 1
                sim = LexerSim(prog, ctx + k + "x")
                out = sim.call("peek", offset=len(ctx))
                got = tuple(out.value) if out.kind == "ok" and isinstance(out.value, (tuple, list)) else out
                if got != (v, len(k)) and wrong_ctx is None:
                    wrong_ctx = (ctx, k, (v, len(k)), got)
    except Unsupported as e:
        raise Undecided(f"Lexer.peek is outside the evaluable subset: {e}")
    run.ob("R-12.1", f"{pk.key}::context-independent", wrong_ctx is None,
           (f"peek() at the spelling {wrong_ctx[1]!r} standing right after {wrong_ctx[0]!r} returns {wrong_ctx[3]!r}, expected "
            f"{wrong_ctx[2]!r}: whether a spelling is translated depends on the characters before it") if wrong_ctx else "",
           pk.node, contexts_x_keys=n_ctx)
    # ... nor on what stands to its right (C has no `<::` exception; a spelling is translated wherever it stands): every key
    # followed by every string of <= 2 spelling characters that does not make a longer key
    wrong_right = None
    n_right = 0
    try:
        for k, v in sorted(keys.items()):
            for m in (1, 2):
                for tail in itertools.product(alphabet + ["x"], repeat=m):
                    right = "".join(tail)
                    if any(len(k2) > len(k) and (k + right).startswith(k2) for k2 in keys):
                        continue
                    n_right += 1
                    sim = LexerSim(prog, k + right + "x")
                    out = sim.call("peek")
                    got = tuple(out.value) if out.kind == "ok" and isinstance(out.value, (tuple, list)) else out
                    if got != (v, len(k)) and wrong_right is None:
                        wrong_right = (k, right, (v, len(k)), got)
    except Unsupported as e:
        raise Undecided(f"Lexer.peek is outside the evaluable subset: {e}")
    run.ob("R-12.1", f"{pk.key}::right-context-independent", wrong_right is None,
           (f"peek() at the spelling {wrong_right[0]!r} followed by {wrong_right[1]!r} returns {wrong_right[3]!r}, expected "
            f"{wrong_right[2]!r}: whether a spelling is translated depends on the characters after it") if wrong_right else "",
           pk.node, keys_x_right_contexts=n_right)
    # ... and the whole tokenizer gives a punctuator the same kind in every spelling: get_next_token (with the tree's own
    # sub-parsers and whatever selects among them) on each digraph / trigraph and on the character it stands for
    gnt = prog.method("Lexer", "get_next_token")
    run.require(gnt is not None, "anchor vanished: Lexer.get_next_token")
    wrong_tok = None
    n_tok = 0
    try:
        allk = dict(tables["trigraphs"])
        allk.update(tables["digraphs"])
        for sp, ch in sorted(allk.items()):
            if ch == "\\":
                continue                          # the backslash is not a token
            res = []
            for src in (ch, sp):
                n_tok += 1
                sim = LexerSim(prog, src + " x")
                out = sim.call("get_next_token")
                res.append((getattr(out.value, "type", None) if out.kind == "ok" else repr(out), sim.pos == len(src), sim.error_names()))
            if res[0][0] != res[1][0] or not res[1][1] or res[1][2] != res[0][2]:
                wrong_tok = wrong_tok or (ch, sp, res)
    except Unsupported as e:
        raise Undecided(f"Lexer.get_next_token is outside the evaluable subset: {e}")
    run.ob("R-12.1", f"{gnt.key}::respelling-invariant", wrong_tok is None,
           (f"get_next_token gives {wrong_tok[2][0][0]} for {wrong_tok[0]!r} but {wrong_tok[2][1][0]} (whole spelling consumed: "
            f"{wrong_tok[2][1][1]}, diagnostics {wrong_tok[2][1][2]}) for its spelling {wrong_tok[1]!r}") if wrong_tok else "",
           gnt.node, evaluations=n_tok)
    pop = prog.method("Lexer", "pop")
    run.require(pop is not None, "anchor vanished: Lexer.pop")
    _, pgood, pbad, _ = translation_chains(pop)
    reads = sorted([c for c in walk_fn(pop.node) if isinstance(c, ast.Call) and text(c.func) in ("self.peek", "self.raw_peek")],
                   key=lambda c: (c.lineno, c.col_offset))
    # pop() returns the translated character and consumes its whole spelling
    wrong = None
    try:
        for src, (want, size) in cases:
            if want == "\\":
                continue                      # a backslash starts an escape / a splice: R-12.2
            sim = LexerSim(prog, src + "x")
            out = sim.call("pop")
            if wrong is None and not (out.kind == "ok" and out.value == want and sim.pos == size):
                wrong = (src, want, size, out, sim.pos)
    except Unsupported as e:
        raise Undecided(f"Lexer.pop is outside the evaluable subset: {e}")
    run.ob("R-12.1", f"{pop.key}::reads-through-peek", wrong is None and not pbad,
           "pop() does not read the next character through the translating peek()"
           + (f": on {wrong[0]!r} it returns {wrong[3]!r} and consumes {wrong[4]} (expected {wrong[1]!r}, {wrong[2]})" if wrong else ""),
           pop.node, reads=[text(c.func) for c in reads][:6])

    # ---- R-12.2 --------------------------------------------------------------------------------
    run.rule("R-12.2", "both splice spellings: every test for a line splice compares against both backslash-newline and "
             "??/-newline (in the decision it feeds), or is made on a translated character (every definition reaching the "
             "test comes from peek() / the translation chain)", floor=2)
    n_splice = 0
    for fn in prog.functions_in("lexer/lexer.py"):
        tr = None
        for n in walk_fn(fn.node):
            subject = None
            if isinstance(n, ast.Compare) and len(n.ops) == 1:
                sides = [n.left, n.comparators[0]]
                lit = [x for x in sides if any(isinstance(c, ast.Constant) and c.value in ("\\", "\\\n", "??/", "??/\n") for c in ast.walk(x))]
                if not lit:
                    continue
                subject = sides[1] if lit[0] is sides[0] else sides[0]
                consts = [c.value for c in ast.walk(n) if isinstance(c, ast.Constant) and isinstance(c.value, str)]
            elif isinstance(n, ast.Call) and isinstance(n.func, ast.Attribute) and n.func.attr in ("startswith", "endswith") and n.args:
                v = fold_in_fn(n.args[0], fn, default=None)
                consts = list(v) if isinstance(v, (tuple, list)) else [v] if isinstance(v, str) else []
                if not any(c in ("\\", "\\\n", "??/", "??/\n") for c in consts):
                    continue
                subject = n.func.value
            else:
                continue
            is_bs = any(c in ("\\", "\\\n") for c in consts)
            n_splice += 1
            key = f"{fn.key}::splice-test[{text(n, 40)}]"
            if tr is None:
                tr = Translated(fn)
            if is_bs and tr.subject_ok(subject):
                run.ob("R-12.2", key, True, "on a translated character", n)
                continue
            # raw test: the decision it feeds must also test the sibling spelling
            decisions = _decisions_fed(fn, n)
            sib_ok = bool(decisions)
            contains = isinstance(n, ast.Compare) and isinstance(n.ops[0], (ast.In, ast.NotIn)) and subject is n.comparators[0]
            for d in decisions:
                strs = _expanded_strings(fn, d)
                bs = "\\\n" in strs or (contains and "\\" in strs)
                tri = "??/\n" in strs or (contains and any(c in strs for c in ("??/", "??", "?")))
                if not (bs and tri):
                    sib_ok = False
            run.ob("R-12.2", key, sib_ok,
                   "a line splice is recognised in one spelling only (backslash-newline vs ??/-newline) on raw characters", n)
    # splice recognisers written as regular expressions (module-level patterns of the lexer): both spellings or none
    import re as _re
    from ..fold import RegexConst, try_fold
    lexmod = prog.cls("Lexer").mod
    for name, vals in sorted(lexmod.assigns.items()):
        for v in vals:
            rc = try_fold(v, lexmod) if isinstance(v, ast.expr) else None
            if not isinstance(rc, RegexConst):
                continue
            try:
                rx = _re.compile(rc.pattern, rc.flags)
            except _re.error:
                continue
            # a splice recogniser matches across the newline of the splice (a pattern that merely matches `??` or a backslash
            # somewhere is not one)
            def spans_newline(text_):
                return any("\n" in m_.group(0) and len(m_.group(0)) > 1 for m_ in rx.finditer(text_))
            plain, tri = spans_newline("\\\n"), spans_newline("??/\n")
            if plain or tri:
                n_splice += 1
                run.ob("R-12.2", f"{lexmod.rel}::splice-pattern[{name}]", plain and tri,
                       f"the pattern {name} recognises a line splice in one spelling only (backslash-newline: {plain}, "
                       f"??/-newline: {tri})", v)
    run.require(n_splice >= 2, f"only {n_splice} splice tests found (floor 2)")

    # ---- R-12.3 --------------------------------------------------------------------------------
    run.rule("R-12.3", "longest first (maximal munch over the operator table): parse_operator, interpreted on every operator "
             "key followed by every character of the operator alphabet, a letter or a blank, returns the longest key that "
             "prefixes the text and consumes exactly it: every multi-character key is produced whole, a longer candidate wins "
             "over its prefixes, and the one-character operator is what remains otherwise", floor=3)
    po = prog.method("Lexer", "parse_operator")
    run.require(po is not None, "anchor vanished: Lexer.parse_operator")
    ops = tables["operators"]
    spell_keys = list(tables["trigraphs"]) + list(tables["digraphs"])
    alphabet = sorted({c for k in ops for c in k}) + ["a", " "]
    fails = {"multi": [], "longest": [], "single": []}
    n_runs = 0
    try:
        for k in sorted(ops, key=lambda x: (len(x), x)):
            for c in alphabet:
                src = k + c
                if any(sp in src for sp in spell_keys):
                    continue                       # that text is another spelling of something else: R-12.1
                want = max((x for x in ops if src.startswith(x)), key=len)
                sim = LexerSim(prog, src + " \n")
                out = sim.call("parse_operator")
                n_runs += 1
                got = getattr(out.value, "type", None) if out.kind == "ok" else f"raise {out.exc}"
                if got == ops[want] and sim.pos == len(want):
                    continue
                rec = (src, want, ops[want], got, sim.pos)
                if len(k) == 1 and len(want) == 1:
                    fails["single"].append(rec)
                elif c == " ":
                    fails["multi"].append(rec)
                else:
                    fails["longest"].append(rec)
    except Unsupported as e:
        raise Undecided(f"Lexer.parse_operator is outside the evaluable subset: {e}")
    run.require(n_runs >= 200, f"only {n_runs} (operator, next character) pairs evaluated (floor 200)")

    def show(recs):
        return "; ".join(f"{s_!r} -> {g_} ({p_} consumed), expected {t_} for {w_!r}" for s_, w_, t_, g_, p_ in recs[:3])

    run.ob("R-12.3", f"{po.key}::longest-first", not fails["longest"],
           "operator candidates are not tried longest first: " + show(fails["longest"]), po.node, evaluations=n_runs)
    firsts = sorted({r[1][0] for r in fails["multi"]})
    run.ob("R-12.3", f"{po.key}::multi-char-block-entered", not fails["multi"],
           f"operators starting with {firsts} have multi-character forms that are not produced: " + show(fails["multi"]), po.node)
    run.ob("R-12.3", f"{po.key}::fallback-last", not fails["single"],
           "the one-character fallback is not the last resort of parse_operator: " + show(fails["single"]), po.node)

    # ---- R-12.4 --------------------------------------------------------------------------------
    run.rule("R-12.4", "TABLE: trigraphs are exactly the nine of C11 5.2.1.1, digraphs include the five of 6.4.6, and every "
             "entry translates to a respellable punctuator", floor=2)
    tri, di = tables["trigraphs"], tables["digraphs"]
    run.ob("R-12.4", "lexer/dictionary.py::trigraphs", tri == TRIGRAPHS,
           f"trigraph table differs from the standard one: missing/wrong {sorted(set(TRIGRAPHS.items()) - set(tri.items()))}, "
           f"extra {sorted(set(tri.items()) - set(TRIGRAPHS.items()))}", prog.global_def(dm, "trigraphs"))
    wrong = sorted(set(DIGRAPHS.items()) - set(di.items()))
    outside = sorted(k for k, v in di.items() if v not in RESPELLABLE)
    run.ob("R-12.4", "lexer/dictionary.py::digraphs", not wrong and not outside,
           f"digraph table: missing/wrong {wrong}, entries translating to a non-punctuator {outside}", prog.global_def(dm, "digraphs"))

    # ---- R-12.5 --------------------------------------------------------------------------------
    run.rule("R-12.5", "OWN: the source text is read only by the lexer (and File itself): rules and Context see token kinds, "
             "never spellings", floor=1)
    readers = []
    for fn in prog.fns:
        for n in walk_fn(fn.node):
            if isinstance(n, ast.Attribute) and n.attr in ("source", "_source") and isinstance(n.ctx, ast.Load):
                readers.append((fn, n))
    bad = [(f, n) for f, n in readers if not (f.mod.rel == "file.py" or (f.cls is not None and f.cls.name == "Lexer"))]
    run.ob("R-12.5", "file.py::File.source::readers", len(readers) >= 3 and not bad,
           "the raw source text is read outside the lexer: " + ", ".join(f"{f.key}:{n.lineno}" for f, n in bad[:3]),
           bad[0][1] if bad else None, readers=sorted({f.key for f, _ in readers}))
    rule_position_caches(run, prog)
    # R-10.6 (declared under its C10 name): a raw length used as a count of translated characters makes the tokens depend
    # on the spelling
    from .c10 import rule_pop_counts
    rule_pop_counts(run, prog)
    from .snippet_rules import rule_brace_respelling
    rule_brace_respelling(run, prog)         # R-12.7


def rule_position_caches(run, prog, rid="R-12.6"):
    from ..cfg import cfg_of
    from .c05 import _cfg_node_of_expr
    run.rule(rid, "cache coherence: the only mutable state of the Lexer is the cursor (__pos, __line, __line_pos); any "
             "other attribute written outside __init__ caches something derived from the cursor, and must be reset on "
             "every path between a write of __pos and the function's normal exits -- a splice that moves the cursor "
             "directly would otherwise leave a stale character in front of the sub-parsers", floor=1)
    lx = prog.cls("Lexer")
    cursor = {"__pos", "__line", "__line_pos", "_Lexer__pos", "_Lexer__line", "_Lexer__line_pos"}
    derived = {}
    writes = []
    for fn in lx.methods.values():
        for n in walk_fn(fn.node):
            tg = n.targets if isinstance(n, ast.Assign) else [n.target] if isinstance(n, (ast.AugAssign, ast.AnnAssign)) else []
            for t in tg:
                for x in ast.walk(t):
                    if isinstance(x, ast.Attribute) and isinstance(x.value, ast.Name) and x.value.id == "self" \
                            and isinstance(x.ctx, ast.Store):
                        if x.attr in cursor:
                            if x.attr.endswith("__pos"):
                                writes.append((fn, n))
                        elif fn.name != "__init__":
                            derived.setdefault(x.attr, []).append((fn, n))
    run.require(len(writes) >= 3, f"only {len(writes)} writes of the cursor position found in Lexer (floor 3)")
    if not derived:
        run.ob(rid, f"{lx.key}::state", True, "", lx.node, cursor_writes=len(writes), derived_attributes=[])
        return
    for attr, sites in sorted(derived.items()):
        for fn, w in writes:
            if fn.name == "__init__":
                continue
            g = cfg_of(fn)
            resets = {_cfg_node_of_expr(g, n) for f2, n in sites if f2 is fn}
            resets.discard(None)
            wid = _cfg_node_of_expr(g, w)
            stale = wid is not None and wid not in resets and g.can_reach(wid, g.exit, avoid=resets, follow_exc=False)
            run.ob(rid, f"{fn.key}::coherent[{attr}@{text(w, 40)}]", not stale,
                   f"self.{attr} (state derived from the cursor) is not reset on every path from `{text(w, 50)}` to the end of "
                   f"{fn.name}: after this cursor move the next reader sees a stale value", w)
