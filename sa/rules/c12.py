"""C12 — alternative spellings and line splices do not change the tokens (partial).  DESIGN.md §4.12."""
from __future__ import annotations

import ast
from typing import Dict, List, Optional, Set

from ..cfg import cfg_of
from ..facts import disjuncts
from ..fold import Unknown, fold_in_fn, fold_name
from ..model import AnalysisError, ancestors, parent, text, walk_fn
from .c05 import _cfg_node_of_expr, _peek_derived_names, key_value_set

RESPELLABLE = set("{}[]#\\^|~")
TRIGRAPHS = {"??<": "{", "??>": "}", "??(": "[", "??)": "]", "??=": "#", "??/": "\\", "??'": "^", "??!": "|", "??-": "~"}
DIGRAPHS = {"<%": "{", "%>": "}", "<:": "[", ":>": "]", "%:": "#"}
SPELLING_PARTS = list(DIGRAPHS) + ["??"]


def _strings_in(v) -> List[str]:
    if isinstance(v, str):
        return [v]
    if isinstance(v, dict):
        return [k for k in v if isinstance(k, str)]
    if isinstance(v, (tuple, list, set, frozenset)):
        return [x for x in v if isinstance(x, str)]
    return []


def check(run, prog):
    lm = prog.mod("lexer/lexer.py")
    dm = prog.mod("lexer/dictionary.py")
    try:
        tables = {n: fold_name(n, dm) for n in ("operators", "brackets", "keywords", "trigraphs", "digraphs")}
    except Unknown as e:
        raise AnalysisError(f"lexer tables do not fold: {e}")

    # ---- R-12.1 -----------------------------------------------------------------------------
    run.rule("R-12.1", "who reads raw characters: in the punctuator sub-parsers every decision goes through the translating "
             "peek(); a raw_peek() comparison is allowed only against literals free of respellable characters and of "
             "digraph/trigraph fragments; peek() tests trigraphs, then digraphs, then the plain character; pop() reads "
             "through peek()", floor=5)
    for fname in ("parse_operator", "parse_brackets"):
        fn = prog.method("Lexer", fname)
        run.require(fn is not None, f"anchor vanished: Lexer.{fname}")
        raw_names = set()
        for n in walk_fn(fn.node):
            tgt = val = None
            if isinstance(n, ast.Assign) and len(n.targets) == 1:
                tgt, val = n.targets[0], n.value
            elif isinstance(n, ast.NamedExpr):
                tgt, val = n.target, n.value
            if isinstance(tgt, ast.Name) and val is not None and any(
                    isinstance(c, ast.Call) and text(c.func) == "self.raw_peek" for c in ast.walk(val)):
                raw_names.add(tgt.id)
        bad = []
        n_dec = 0
        for n in walk_fn(fn.node):
            if isinstance(n, ast.Compare) and len(n.ops) == 1:
                sides = [n.left, n.comparators[0]]
                raw_side = [s for s in sides if any((isinstance(c, ast.Call) and text(c.func) == "self.raw_peek")
                                                    or (isinstance(c, ast.Name) and c.id in raw_names) for c in ast.walk(s))]
                if not raw_side:
                    continue
                n_dec += 1
                other = sides[1] if raw_side[0] is sides[0] else sides[0]
                v = fold_in_fn(other, fn, default=None)
                strs = _strings_in(v)
                if v is None or not strs:
                    if isinstance(other, ast.Constant) and other.value is None:
                        continue
                    bad.append((n, "compared with something that is not a foldable literal"))
                    continue
                for s_ in strs:
                    if set(s_) & RESPELLABLE or any(part in s_ for part in SPELLING_PARTS):
                        bad.append((n, f"literal {s_!r} contains a respellable character / a digraph or trigraph fragment"))
        run.ob("R-12.1", f"{fn.key}::raw-decisions", not bad,
               "a punctuator decision is taken on the raw (untranslated) character: " + "; ".join(w for _, w in bad[:3])
               + " - the digraph/trigraph spelling would be tokenized differently", bad[0][0] if bad else fn.node, raw_comparisons=n_dec)
        # the sub-parser looks at the translated character at all
        uses_peek = any(isinstance(c, ast.Call) and text(c.func) == "self.peek" for c in walk_fn(fn.node))
        run.ob("R-12.1", f"{fn.key}::uses-translating-peek", uses_peek, f"{fname} never consults the translating peek()", fn.node)
    pk = prog.method("Lexer", "peek")

    def chains(fn):
        """The trigraph -> digraph -> plain if/elif/elif chains of a function; (ok chains, malformed chains)."""
        good, bad_ = [], []
        for n in walk_fn(fn.node):
            if isinstance(n, ast.If) and "trigraphs" in text(n.test) and not (
                    isinstance(parent(n), ast.If) and n in parent(n).orelse and "trigraphs" in text(parent(n).test)):
                okc = len(n.orelse) == 1 and isinstance(n.orelse[0], ast.If) and "digraphs" in text(n.orelse[0].test) \
                    and "trigraphs" not in text(n.orelse[0].test) \
                    and len(n.orelse[0].orelse) == 1 and isinstance(n.orelse[0].orelse[0], ast.If) \
                    and "raw_peek" in text(n.orelse[0].orelse[0].test)
                (good if okc else bad_).append(n)
        # a digraph / plain test that is not below a trigraph test
        for n in walk_fn(fn.node):
            if isinstance(n, ast.If) and "digraphs" in text(n.test) and "trigraphs" not in text(n.test):
                p_ = parent(n)
                if not (isinstance(p_, ast.If) and n in p_.orelse and "trigraphs" in text(p_.test)):
                    bad_.append(n)
        return good, bad_
    good, bad_ = chains(pk)
    run.ob("R-12.1", f"{pk.key}::translation-order", bool(good) and not bad_,
           f"peek() does not test trigraph, then digraph, then plain character in one if/elif/elif chain "
           f"({len(good)} well-formed chain(s), {len(bad_)} malformed)", (bad_ or [pk.node])[0])
    pop = prog.method("Lexer", "pop")
    pgood, pbad = chains(pop)
    reads = sorted([c for c in walk_fn(pop.node) if isinstance(c, ast.Call) and text(c.func) in ("self.peek", "self.raw_peek")],
                   key=lambda c: (c.lineno, c.col_offset))
    # the first read of a character is the translating peek(), or the translation chain itself (peek's body inlined)
    first = reads[0] if reads else None
    ok_first = first is not None and (text(first.func) == "self.peek" or any(
        any(x is first for x in ast.walk(c.test)) for c in pgood))
    run.ob("R-12.1", f"{pop.key}::reads-through-peek", ok_first and not pbad,
           "pop() does not read the next character through the translating peek()", pop.node,
           reads=[text(c.func) for c in reads][:6])

    # ---- R-12.2 --------------------------------------------------------------------------------
    run.rule("R-12.2", "both splice spellings: every test for a line splice compares against both backslash-newline and "
             "??/-newline, or is made on a translated character", floor=2)
    n_splice = 0
    for fn in prog.functions_in("lexer/lexer.py"):
        peeked = _peek_derived_names(fn)
        translated = set()
        for n in walk_fn(fn.node):
            tgt = val = None
            if isinstance(n, ast.Assign) and len(n.targets) == 1:
                tgt, val = n.targets[0], n.value
            elif isinstance(n, ast.NamedExpr):
                tgt, val = n.target, n.value
            if tgt is not None and val is not None and any(isinstance(c, ast.Call) and text(c.func) == "self.peek" for c in ast.walk(val)):
                for x in ast.walk(tgt):
                    if isinstance(x, ast.Name):
                        translated.add(x.id)
        # names unpacked from translated names
        changed = True
        while changed:
            changed = False
            for n in walk_fn(fn.node):
                if isinstance(n, ast.Assign) and isinstance(n.value, ast.Name) and n.value.id in translated:
                    for x in ast.walk(n.targets[0]):
                        if isinstance(x, ast.Name) and x.id not in translated:
                            translated.add(x.id)
                            changed = True
        for n in walk_fn(fn.node):
            if not (isinstance(n, ast.Compare) and len(n.ops) == 1):
                continue
            consts = [c.value for c in ast.walk(n) if isinstance(c, ast.Constant) and isinstance(c.value, str)]
            is_bs = any(c in ("\\", "\\\n") for c in consts)
            is_tri = any(c in ("??/", "??/\n") for c in consts)
            if not (is_bs or is_tri):
                continue
            n_splice += 1
            key = f"{fn.key}::splice-test[{text(n, 40)}]"
            subject = n.left
            on_translated = any(isinstance(x, ast.Name) and x.id in translated for x in ast.walk(subject)) \
                or any(isinstance(c, ast.Call) and text(c.func) == "self.peek" for c in ast.walk(subject))
            if on_translated and is_bs:
                run.ob("R-12.2", key, True, "on a translated character", n)
                continue
            # raw test: the sibling spelling must be an alternative of the same `or`
            p = parent(n)
            sib_ok = False
            if isinstance(p, ast.BoolOp) and isinstance(p.op, ast.Or):
                alts = [[c.value for c in ast.walk(v) if isinstance(c, ast.Constant) and isinstance(c.value, str)] for v in p.values]
                has_bs = any("\\\n" in a for a in alts)
                has_tri = any("??/\n" in a for a in alts)
                sib_ok = has_bs and has_tri
            run.ob("R-12.2", key, sib_ok,
                   "a line splice is recognised in one spelling only (backslash-newline vs ??/-newline) on raw characters", n)
    run.require(n_splice >= 2, f"only {n_splice} splice tests found (floor 2)")

    # ---- R-12.3 --------------------------------------------------------------------------------
    run.rule("R-12.3", "longest first: in parse_operator a candidate whose spelling extends another candidate is tested "
             "before it (dominance of the guards), the block of multi-character tests is entered for every first character "
             "of a multi-character operator, and the one-character fallback comes after it", floor=3)
    po = prog.method("Lexer", "parse_operator")
    g = cfg_of(po)
    sites = []
    for n in walk_fn(po.node):
        if isinstance(n, ast.Subscript) and isinstance(n.value, ast.Name) and n.value.id == "operators":
            vs = key_value_set(po, n.slice, n, tables)
            guards = [a for a in ancestors(n) if isinstance(a, ast.If)]
            sites.append((n, vs, guards))
    run.require(len(sites) >= 4, "anchor vanished: operators[...] sites of parse_operator")
    bad = []
    for a_node, a_keys, a_guards in sites:
        for b_node, b_keys, b_guards in sites:
            if a_node is b_node or a_keys is None or b_keys is None:
                continue
            if not b_guards:
                continue        # the unguarded one-character fallback: covered by the two obligations below
            if any(ka != kb and ka.startswith(kb) for ka in a_keys for kb in b_keys):
                # a (longer) must be decided before b: a's innermost guard test dominates b's site
                if not a_guards:
                    bad.append((a_node, b_node, "longer candidate has no guard"))
                    continue
                ga = g.nid(a_guards[0].test)
                nb = _cfg_node_of_expr(g, b_node)
                if ga is None or nb is None or not g.dominates(ga, nb, follow_exc=False):
                    # allowed if b is inside a's own guard chain evaluated later? no: report
                    bad.append((a_node, b_node, f"{sorted(b_keys)[:3]} can be taken before {sorted(a_keys)[:3]} is tried"))
    unknown = [n for n, vs, _ in sites if vs is None]
    run.ob("R-12.3", f"{po.key}::longest-first", not bad and not unknown,
           "operator candidates are not tried longest first: " + "; ".join(w for _, _, w in bad[:3]),
           bad[0][1] if bad else po.node, sites=len(sites))
    multi_first = {k[0] for k in tables["operators"] if len(k) > 1}
    blocks = [n for n in walk_fn(po.node) if isinstance(n, ast.If) and isinstance(n.test, ast.Compare)
              and isinstance(n.test.ops[0], ast.In) and text(n.test.left) == "char"
              and any(isinstance(x, ast.Subscript) and text(x.value) == "operators" for x in ast.walk(n))]
    ok = False
    if blocks:
        s_ = fold_in_fn(blocks[0].test.comparators[0], po, default=None)
        ok = isinstance(s_, str) and multi_first <= set(s_)
        missing = sorted(multi_first - set(s_ or ""))
    run.ob("R-12.3", f"{po.key}::multi-char-block-entered", ok,
           f"operators starting with {missing if blocks else '?'} have multi-character forms but skip the multi-character tests",
           blocks[0] if blocks else po.node)
    fallback = [n for n, vs, gs in sites if not any(gg in blocks for gg in gs)]
    ok = len(fallback) == 1 and bool(blocks) and blocks[0].lineno < fallback[0].lineno and not blocks[0].orelse
    run.ob("R-12.3", f"{po.key}::fallback-last", ok, "the one-character fallback is not the last resort of parse_operator",
           fallback[0] if fallback else po.node)

    # ---- R-12.4 --------------------------------------------------------------------------------
    run.rule("R-12.4", "TABLE: trigraphs are exactly the nine of C11 5.2.1.1, digraphs include the five of 6.4.6, and every "
             "entry translates to a respellable punctuator", floor=2)
    tri, di = tables["trigraphs"], tables["digraphs"]
    run.ob("R-12.4", "lexer/dictionary.py::trigraphs", tri == TRIGRAPHS,
           f"trigraph table differs from the standard one: missing/wrong {sorted(set(TRIGRAPHS.items()) - set(tri.items()))}, "
           f"extra {sorted(set(tri.items()) - set(TRIGRAPHS.items()))}", dm.assigns["trigraphs"][0])
    wrong = sorted(set(DIGRAPHS.items()) - set(di.items()))
    outside = sorted(k for k, v in di.items() if v not in RESPELLABLE)
    run.ob("R-12.4", "lexer/dictionary.py::digraphs", not wrong and not outside,
           f"digraph table: missing/wrong {wrong}, entries translating to a non-punctuator {outside}", dm.assigns["digraphs"][0])

    # ---- R-12.5 --------------------------------------------------------------------------------
    run.rule("R-12.5", "OWN: the source text is read only by the lexer (and File itself): rules and Context see token kinds, "
             "never spellings", floor=1)
    readers = []
    for fn in prog.fns:
        for n in walk_fn(fn.node):
            if isinstance(n, ast.Attribute) and n.attr in ("source", "_source") and isinstance(n.ctx, ast.Load):
                readers.append((fn, n))
    bad = [(f, n) for f, n in readers if not (f.mod.rel == "file.py" or (f.cls is not None and f.cls.name == "Lexer"))]
    run.ob("R-12.5", "file.py::File.source::readers", len(readers) >= 3 and not bad,
           "the raw source text is read outside the lexer: " + ", ".join(f"{f.key}:{n.lineno}" for f, n in bad[:3]),
           bad[0][1] if bad else None, readers=sorted({f.key for f, _ in readers}))
    rule_position_caches(run, prog)


def rule_position_caches(run, prog):
    from ..cfg import cfg_of
    from .c05 import _cfg_node_of_expr
    run.rule("R-12.6", "cache coherence: the only mutable state of the Lexer is the cursor (__pos, __line, __line_pos); any "
             "other attribute written outside __init__ caches something derived from the cursor, and must be reset on "
             "every path between a write of __pos and the function's normal exits -- a splice that moves the cursor "
             "directly would otherwise leave a stale character in front of the sub-parsers", floor=1)
    lx = prog.cls("Lexer")
    cursor = {"__pos", "__line", "__line_pos", "_Lexer__pos", "_Lexer__line", "_Lexer__line_pos"}
    derived = {}
    writes = []
    for fn in lx.methods.values():
        for n in walk_fn(fn.node):
            tg = n.targets if isinstance(n, ast.Assign) else [n.target] if isinstance(n, (ast.AugAssign, ast.AnnAssign)) else []
            for t in tg:
                for x in ast.walk(t):
                    if isinstance(x, ast.Attribute) and isinstance(x.value, ast.Name) and x.value.id == "self" \
                            and isinstance(x.ctx, ast.Store):
                        if x.attr in cursor:
                            if x.attr.endswith("__pos"):
                                writes.append((fn, n))
                        elif fn.name != "__init__":
                            derived.setdefault(x.attr, []).append((fn, n))
    run.require(len(writes) >= 3, f"only {len(writes)} writes of the cursor position found in Lexer (floor 3)")
    if not derived:
        run.ob("R-12.6", f"{lx.key}::state", True, "", lx.node, cursor_writes=len(writes), derived_attributes=[])
        return
    for attr, sites in sorted(derived.items()):
        for fn, w in writes:
            if fn.name == "__init__":
                continue
            g = cfg_of(fn)
            resets = {_cfg_node_of_expr(g, n) for f2, n in sites if f2 is fn}
            resets.discard(None)
            wid = _cfg_node_of_expr(g, w)
            stale = wid is not None and wid not in resets and g.can_reach(wid, g.exit, avoid=resets, follow_exc=False)
            run.ob("R-12.6", f"{fn.key}::coherent[{attr}@{text(w, 40)}]", not stale,
                   f"self.{attr} (state derived from the cursor) is not reset on every path from `{text(w, 50)}` to the end of "
                   f"{fn.name}: after this cursor move the next reader sees a stale value", w)
