"""C08 — reports are well-formed, ordered and identical in both output formats.  DESIGN.md §4.8."""
from __future__ import annotations

import ast
import itertools
from typing import Dict, List, Optional, Set

from ..cfg import cfg_of
from ..facts import catalogue, catalogue_literal, emission_sites, value_set
from ..fold import try_fold, fold_in_fn
from ..minieval import Evaluator, Obj, Unsupported
from ..model import AnalysisError, ancestors, parent, text, walk_fn
from .c05 import _cfg_node_of_expr
from .c07 import _value_when_debug_zero

LEVELS = {"Error", "Notice"}


def rule_catalogue(run, prog):
    run.rule("R-8.1", "EMIT: at every emission site the value set of the code is included in the published catalogue "
             "(norm_error.errors) and the text is the catalogue's (objects built by Error.from_name only); the catalogue "
             "literal has no key repeated with a different text", floor=150)
    cat = catalogue(prog)
    for e in emission_sites(prog):
        if e.fn.mod.rel == "errors.py" or (e.fn.cls is not None and e.fn.cls.name == "Context"):
            continue            # the choke points themselves: their parameter is the union of the call sites below
        code = "?"
        if e.kind == "Error":
            vs = value_set(prog, e.fn, e.code_expr) if e.code_expr is not None else None
            code = ",".join(sorted(vs)) if vs else "?"
            run.ob("R-8.1", f"{e.fn.key}::emit[{code}]", False,
                   f"diagnostic built directly with Error({code!r}, <text>): code and text are not the published catalogue's",
                   e.node, kind=e.kind)
            continue
        if e.code_expr is None:
            run.ob("R-8.1", f"{e.fn.key}::emit[?]", False, "emission without a code argument", e.node)
            continue
        vs = value_set(prog, e.fn, e.code_expr)
        if vs is None:
            run.ob("R-8.1", f"{e.fn.key}::emit[?]", False,
                   f"cannot bound the diagnostic code {text(e.code_expr)} statically (not a literal, a foldable constant, an "
                   f"f-string over guarded values or a parameter with known call sites)", e.node)
            continue
        code = ",".join(sorted(vs))
        missing = sorted(v for v in vs if v not in cat)
        run.ob("R-8.1", f"{e.fn.key}::emit[{code}]", not missing,
               f"code(s) {missing} are not in the published catalogue: Error.from_name raises KeyError / the report shows "
               f"an unpublished code", e.node, kind=e.kind)
    lit = catalogue_literal(prog)
    seen: Dict[str, str] = {}
    dup_bad = []
    for k, v in zip(lit.keys, lit.values):
        kk, vv = try_fold(k, prog.mod("norm_error.py")), try_fold(v, prog.mod("norm_error.py"))
        if not isinstance(kk, str) or not isinstance(vv, str):
            dup_bad.append((k, "non-string entry"))
            continue
        if kk in seen and seen[kk] != vv:
            dup_bad.append((k, f"{kk} defined twice with different texts"))
        elif kk in seen:
            run.note(f"catalogue key {kk} appears twice with the same text")
        seen[kk] = vv
    run.ob("R-8.1", "norm_error.py::errors::well-formed", not dup_bad,
           "catalogue literal: " + "; ".join(w for _, w in dup_bad[:3]), dup_bad[0][0] if dup_bad else lit)
    fnm = prog.method("Error", "from_name")
    ok = fnm is not None and any(isinstance(n, ast.Subscript) and text(n.value) == "errors_dict" and text(n.slice) == "name"
                                 for n in walk_fn(fnm.node))
    imp = prog.mod("errors.py").imports.get("errors_dict")
    ok = ok and imp == ("norminette.norm_error", "errors")
    run.ob("R-8.1", "errors.py::Error.from_name::text-from-catalogue", ok,
           "Error.from_name does not take the text from norm_error.errors[name]", fnm.node if fnm else None)


def rule_levels(run, prog):
    run.rule("R-8.2", "every level passed to a diagnostic is 'Error' or 'Notice'; new_warning passes 'Notice', new_error "
             "the default 'Error'", floor=5)
    for fn in prog.fns:
        for n in walk_fn(fn.node):
            if isinstance(n, ast.Call):
                for k in n.keywords:
                    if k.arg == "level":
                        vs = value_set(prog, fn, k.value)
                        ok = vs is not None and vs <= LEVELS
                        run.ob("R-8.2", f"{fn.key}::level[{text(k.value, 30)}]", ok,
                               f"level {text(k.value)} is not statically one of Error / Notice", n)
    nw = prog.method("Context", "new_warning")
    ne = prog.method("Context", "new_error")
    run.require(nw is not None and ne is not None, "anchor vanished: Context.new_error / new_warning")
    lv = [k.value for n in walk_fn(nw.node) if isinstance(n, ast.Call) for k in n.keywords if k.arg == "level"]
    run.ob("R-8.2", f"{nw.key}::notice", bool(lv) and all(try_fold(v, nw.mod) == "Notice" for v in lv),
           "Context.new_warning does not create a Notice", nw.node)
    lv = [k.value for n in walk_fn(ne.node) if isinstance(n, ast.Call) for k in n.keywords if k.arg == "level"]
    run.ob("R-8.2", f"{ne.key}::error", all(try_fold(v, ne.mod) == "Error" for v in lv),
           "Context.new_error passes a level other than Error", ne.node)
    # dataclass default
    ec = prog.cls("Error")
    d = None
    for st in ec.node.body:
        if isinstance(st, ast.AnnAssign) and isinstance(st.target, ast.Name) and st.target.id == "level" and st.value is not None:
            for k in getattr(st.value, "keywords", []):
                if k.arg == "default":
                    d = try_fold(k.value, ec.mod)
            if isinstance(st.value, ast.Constant):
                d = st.value.value
    run.ob("R-8.2", f"{ec.key}::default-level", d == "Error", f"Error.level default is {d!r}", ec.node)
    addm = prog.method("Errors", "add")
    ok = any(isinstance(n, ast.Call) and text(n.func) == "kwargs.setdefault" and len(n.args) == 2
             and try_fold(n.args[0], addm.mod) == "level" and try_fold(n.args[1], addm.mod) == "Error" for n in walk_fn(addm.node))
    run.ob("R-8.2", f"{addm.key}::default-level", ok, "Errors.add no longer defaults level to Error", addm.node)


def _is_error_ctor(v) -> bool:
    return isinstance(v, ast.Call) and (text(v.func) in ("Error.from_name", "Error", "cls.from_name"))


def _has_nonempty_highlights(call: ast.Call) -> Optional[bool]:
    for k in call.keywords:
        if k.arg == "highlights":
            if isinstance(k.value, (ast.List, ast.Tuple)):
                return len(k.value.elts) > 0
            return None
    return False


def rule_positioned(run, prog):
    run.rule("R-8.3", "PAIR/typestate: every Error object is positioned (>= 1 add_highlight on it, or a non-empty "
             "highlights=[...]) on every path before it is added to an Errors collection; an add under "
             "`if error.highlights` counts as guarded", floor=12)
    n_sites = 0
    for fn in prog.fns:
        if fn.mod.rel == "errors.py":
            continue
        g = None
        creations = []
        for n in walk_fn(fn.node):
            if isinstance(n, ast.Assign) and len(n.targets) == 1 and isinstance(n.targets[0], ast.Name) and _is_error_ctor(n.value):
                creations.append((n.targets[0].id, n))
            elif isinstance(n, ast.Call) and isinstance(n.func, ast.Attribute) and n.func.attr in ("add", "append") \
                    and text(n.func.value).endswith("errors") and n.args:
                a0 = n.args[0]
                if _is_error_ctor(a0):
                    n_sites += 1
                    hl = _has_nonempty_highlights(a0)
                    run.ob("R-8.3", f"{fn.key}::inline-error", hl is True, "Error created inline and added without a position", n)
                elif isinstance(a0, (ast.Constant, ast.JoinedStr)):
                    hk = [k for k in n.keywords if k.arg == "highlights"]
                    hl = bool(hk) and isinstance(hk[0].value, (ast.List, ast.Tuple)) and len(hk[0].value.elts) > 0
                    n_sites += 1
                    run.ob("R-8.3", f"{fn.key}::add-by-name[{text(a0, 30)}]", hl,
                           "diagnostic added by name without any highlight: it has no position", n)
        for var, cnode in creations:
            n_sites += 1
            if g is None:
                g = cfg_of(fn)
            hl = _has_nonempty_highlights(cnode.value)
            key = f"{fn.key}::error[{var}]"
            if hl is True:
                run.ob("R-8.3", key, True, "positioned at creation", cnode)
                continue
            cid = g.nid(cnode)
            hnodes, adds, guards = set(), [], {}
            for n in walk_fn(fn.node):
                if isinstance(n, ast.Call) and isinstance(n.func, ast.Attribute):
                    if n.func.attr == "add_highlight" and text(n.func.value) == var:
                        hnodes.add(_cfg_node_of_expr(g, n))
                    if n.func.attr in ("add", "append") and text(n.func.value).endswith("errors") and n.args \
                            and text(n.args[0]) == var:
                        adds.append(n)
            # other creations of the same variable end this object's life
            others = {g.nid(c) for v, c in creations if v == var and c is not cnode}
            others |= {g.nid(n) for n in walk_fn(fn.node) if isinstance(n, ast.Assign) and any(
                isinstance(t, ast.Name) and t.id == var for t in n.targets) and n is not cnode}
            others.discard(None)
            # add_highlight inside a loop body may run zero times: only counts if the add is guarded
            bad = []
            for a in adds:
                aid = _cfg_node_of_expr(g, a)
                guarded = any(isinstance(an, ast.If) and text(an.test) in (f"{var}.highlights", f"len({var}.highlights) > 0",
                                                                           f"len({var}.highlights)")
                              and any(_contains(s, a) for s in an.body) for an in ancestors(a))
                if guarded:
                    continue
                sure = {h for h in hnodes if not _in_loop_relative(g.nodes[h].ast, cnode)}
                if g.can_reach(cid, aid, avoid=sure | others, follow_exc=False):
                    bad.append(a)
            run.ob("R-8.3", key, not bad,
                   f"Error object `{var}` can reach errors.add without any add_highlight on that path: a diagnostic "
                   f"without position (the human formatter indexes highlights[0])", bad[0] if bad else cnode,
                   adds=len(adds), highlights=len(hnodes))
    run.require(n_sites >= 12, f"only {n_sites} Error creation sites found (floor 12)")
    for mname in ("new_error", "new_warning"):
        m = prog.method("Context", mname)
        ok = any(_has_nonempty_highlights(n) is True and "Highlight.from_token" in text(n)
                 and (_is_error_ctor(n) or (isinstance(n.func, ast.Attribute) and n.func.attr in ("add", "append")
                                            and text(n.func.value).endswith("errors")))
                 for n in walk_fn(m.node) if isinstance(n, ast.Call))
        run.ob("R-8.3", f"{m.key}::positioned", ok, f"Context.{mname} does not attach Highlight.from_token(tkn)", m.node)


def _contains(container, node) -> bool:
    n = node
    while n is not None:
        if n is container:
            return True
        n = parent(n)
    return False


def _in_loop_relative(node, creation) -> bool:
    """node sits in a for/while body (or under an if) that does not also contain the creation:
    it may execute zero times after the creation."""
    for a in ancestors(node):
        if isinstance(a, (ast.For, ast.While, ast.If)) and not _contains(a, creation):
            return True
        if isinstance(a, (ast.FunctionDef, ast.AsyncFunctionDef)):
            break
    return False


def rule_order(run, prog):
    run.rule("R-8.4", "ORD: Highlight.__lt__ and Error.__lt__, evaluated by the analyser's interpreter over all pairs and "
             "triples of a small position domain, order by ascending (line, column) of the printed position and are strict "
             "weak orders on ties; every multi-highlight creation lists its smallest position first", floor=5)
    hl = prog.method("Highlight", "__lt__")
    el = prog.method("Error", "__lt__")
    run.require(hl is not None and el is not None, "anchor vanished: Highlight.__lt__ / Error.__lt__")
    methods = {}
    for cname in ("Highlight", "Error"):
        for mname, m in prog.cls(cname).methods.items():
            methods[(cname, mname)] = m.node
    hints = (None, "ab", "abcd")
    H = [Obj("Highlight", lineno=l, column=c, length=None, hint=h) for l in (1, 2, 3) for c in (1, 2, 3) for h in hints]

    def lt(a, b):
        ev = Evaluator(methods)
        return bool(ev.call_function(hl.node if a._cls == "Highlight" else el.node, {"self": a, "other": b}))

    def laws(objs, keyf, what, fn):
        bad = None
        n = 0
        table = {}
        try:
            for a in objs:
                for b in objs:
                    r = lt(a, b)
                    table[(id(a), id(b))] = r
                    n += 1
                    ka, kb = keyf(a), keyf(b)
                    if ka != kb and r != (ka < kb) and bad is None:
                        bad = f"{what}: {a!r} < {b!r} gives {r} but printed positions are {ka} and {kb} (ascending order broken)"
                    if a is b and r and bad is None:
                        bad = f"{what}: not irreflexive on {a!r}"
            for a in objs:
                for b in objs:
                    if table[(id(a), id(b))] and table[(id(b), id(a))] and bad is None:
                        bad = f"{what}: not asymmetric on {a!r}, {b!r}"
            # transitivity of < and of incomparability (strict weak order) over the domain
            if bad is None:
                for a in objs:
                    for b in objs:
                        if not table[(id(a), id(b))]:
                            continue
                        for c in objs:
                            if table[(id(b), id(c))] and not table[(id(a), id(c))]:
                                bad = f"{what}: not transitive on {a!r}, {b!r}, {c!r}"
                                break
                        if bad:
                            break
                    if bad:
                        break
        except Unsupported as e:
            raise AnalysisError(f"{fn.key} is outside the evaluable subset: {e}")
        return bad, n

    bad, n = laws(H, lambda h: (h.lineno, h.column), "Highlight.__lt__", hl)
    run.ob("R-8.4", f"{hl.key}::ascending", bad is None, bad or "ok", hl.node, evaluations=n)
    # Errors: 1 or 2 highlights (first = smallest, see the creation-site obligation below), names A/B
    pos = [(1, 1), (1, 2), (2, 1)]
    E = []
    for name in ("A", "B"):
        for p in pos:
            E.append(Obj("Error", name=name, text="t", level="Error",
                         highlights=[Obj("Highlight", lineno=p[0], column=p[1], length=None, hint=None)]))
            for q in pos:
                if q >= p:
                    E.append(Obj("Error", name=name, text="t", level="Error",
                                 highlights=[Obj("Highlight", lineno=p[0], column=p[1], length=None, hint=None),
                                             Obj("Highlight", lineno=q[0], column=q[1], length=1, hint="hint")]))
    bad, n = laws(E, lambda e: (e.highlights[0].lineno, e.highlights[0].column), "Error.__lt__", el)
    run.ob("R-8.4", f"{el.key}::ascending", bad is None, bad or "ok", el.node, evaluations=n)
    # Errors.__iter__ sorts with these comparators
    it = prog.method("Errors", "__iter__")
    ok = it is not None and any(isinstance(x, ast.Call) and text(x.func) in ("self._inner.sort", "sorted") and
                                not any(k.arg == "reverse" for k in x.keywords) for x in walk_fn(it.node))
    uses_key = it is not None and any(isinstance(x, ast.Call) and any(k.arg == "key" for k in x.keywords) for x in walk_fn(it.node))
    run.ob("R-8.4", "errors.py::Errors.__iter__::sorted-view", ok and not uses_key,
           "Errors.__iter__ does not hand out the diagnostics sorted by Error.__lt__ (ascending)", it.node if it else None)
    # multi-highlight creation sites list the smallest position first
    n_multi = 0
    for fn in prog.fns:
        if fn.mod.rel == "errors.py":
            continue
        seqs: Dict[str, List[ast.Call]] = {}
        for n in walk_fn(fn.node):
            if isinstance(n, ast.Call) and _is_error_ctor(n):
                for k in n.keywords:
                    if k.arg == "highlights" and isinstance(k.value, (ast.List, ast.Tuple)) and len(k.value.elts) >= 2:
                        n_multi += 1
                        okk, why = _ascending([_hl_args(x) for x in k.value.elts])
                        run.ob("R-8.4", f"{fn.key}::multi-highlight[{_code_of(n)}]", okk,
                               f"cannot show that the first highlight is the smallest position ({why}): the diagnostic "
                               f"would be sorted by a position other than the one printed", n)
            if isinstance(n, ast.Call) and isinstance(n.func, ast.Attribute) and n.func.attr == "add_highlight" \
                    and isinstance(n.func.value, ast.Name):
                seqs.setdefault(n.func.value.id, []).append(n)
        for var, calls in seqs.items():
            calls.sort(key=lambda c: (c.lineno, c.col_offset))
            creations = [n for n in walk_fn(fn.node) if isinstance(n, ast.Assign) and any(
                isinstance(t, ast.Name) and t.id == var for t in n.targets)]        # constructor or a helper that returns one

            def loop_after_creation(c):
                for a in ancestors(c):
                    if a is fn.node:
                        return False
                    if isinstance(a, (ast.For, ast.While)) and not any(_contains(a, cr) for cr in creations):
                        return True
                return False

            in_loop = [c for c in calls if loop_after_creation(c)]
            if len(calls) >= 2 and not in_loop:
                # only sequences on the same object in the same block
                groups: Dict[int, List[ast.Call]] = {}
                for c in calls:
                    groups.setdefault(id(parent(parent(c))), []).append(c)
                for grp in groups.values():
                    if len(grp) >= 2:
                        n_multi += 1
                        okk, why = _ascending([_hl_args(c) for c in grp])
                        run.ob("R-8.4", f"{fn.key}::multi-highlight[{var}]", okk,
                               f"cannot show that the first add_highlight is the smallest position ({why})", grp[0])
            for c in in_loop:
                n_multi += 1
                a = _hl_args(c)
                loop = next(x for x in ancestors(c) if isinstance(x, (ast.For, ast.While)) and not any(_contains(x, cr) for cr in creations))
                okk = False
                why = "loop form not recognised"
                if isinstance(loop, ast.For) and isinstance(loop.iter, ast.Call) and text(loop.iter.func) in ("enumerate", "range") \
                        and a is not None and isinstance(a[1], ast.BinOp) and isinstance(a[1].op, ast.Add):
                    lv = loop.target.elts[0] if isinstance(loop.target, ast.Tuple) else loop.target
                    if isinstance(a[1].right, ast.Name) and isinstance(lv, ast.Name) and a[1].right.id == lv.id \
                            and not any(isinstance(x, ast.Name) and x.id == lv.id for x in ast.walk(a[0])):
                        okk = True
                run.ob("R-8.4", f"{fn.key}::multi-highlight[{var}/loop]", okk,
                       f"highlights added in a loop: cannot show ascending positions ({why})", c)
    run.require(n_multi >= 4, f"only {n_multi} multi-highlight sites found (floor 4)")


def _code_of(call) -> str:
    return text(call.args[0], 30).strip("'\"") if call.args else "?"


def _hl_args(e):
    """(line expr, column expr) of a Highlight(...) / H(...) / add_highlight(...) call; ('*pos', None) for starred."""
    if not isinstance(e, ast.Call):
        return None
    args = list(e.args)
    if args and isinstance(args[0], ast.Starred):
        return (args[0], None)
    if len(args) >= 2:
        return (args[0], args[1])
    return None


def _ascending(seq):
    prev = None
    for cur in seq:
        if cur is None:
            return False, "unrecognised highlight constructor"
        if prev is not None:
            if isinstance(prev[0], ast.Starred) or isinstance(cur[0], ast.Starred):
                if not (isinstance(cur[0], ast.Starred) and isinstance(prev[0], ast.Starred) and text(cur[0]) == text(prev[0])):
                    # *pos followed by (lineno, column + k) where pos = lineno, column
                    if isinstance(prev[0], ast.Starred) and cur[1] is not None and isinstance(cur[1], ast.BinOp) \
                            and isinstance(cur[1].op, ast.Add):
                        prev = cur
                        continue
                    return False, "mixed starred / explicit positions"
            else:
                if text(prev[0]) != text(cur[0]):
                    return False, f"line expressions differ: {text(prev[0])} / {text(cur[0])}"
                pc, cc = text(prev[1]), text(cur[1])
                if pc != cc and not (isinstance(cur[1], ast.BinOp) and isinstance(cur[1].op, ast.Add) and text(cur[1].left) == pc):
                    return False, f"column {cc} is not {pc} or {pc} + <offset>"
        prev = cur
    return True, ""


def rule_formatters(run, prog):
    run.rule("R-8.5", "sibling agreement: each formatter iterates self.files once, in order, unfiltered, obtains the "
             "diagnostics only by iterating file.errors (Errors._inner is private to class Errors), the JSON text is "
             "json.dumps of a structure built from those sources, and the human line reads fields that asdict() exports", floor=6)
    fmts = prog.subclasses("_formatter")
    run.require(len(fmts) >= 2, "fewer than two formatters")
    for c in fmts:
        m = c.methods.get("__str__")
        run.require(m is not None, f"{c.key} has no __str__")
        loops = [n for n in walk_fn(m.node) if isinstance(n, (ast.For, ast.comprehension)) and "files" in text(n.iter)]
        ok = len(loops) == 1 and text(loops[0].iter) == "self.files"
        run.ob("R-8.5", f"{m.key}::files-once-in-order", ok,
               f"formatter does not iterate self.files exactly once, unfiltered and in order ({[text(l.iter) for l in loops]})",
               loops[0] if loops else m.node)
        srcs = []
        for n in walk_fn(m.node):
            if isinstance(n, ast.Attribute) and n.attr == "errors" and isinstance(n.ctx, ast.Load):
                p = parent(n)
                if isinstance(p, ast.Attribute) and p.attr == "status":
                    continue
                # allowed consumers: `for error in file.errors`, map(asdict, file.errors), tuple/list(...)
                okc = (isinstance(p, (ast.For, ast.comprehension)) and p.iter is n) or \
                      (isinstance(p, ast.Call) and text(p.func) in ("map", "list", "tuple", "iter") and p.args[-1] is n)
                srcs.append((n, okc))
        ok = bool(srcs) and all(o for _, o in srcs)
        run.ob("R-8.5", f"{m.key}::errors-by-iteration", ok,
               "formatter obtains the diagnostics other than by plain iteration of file.errors (sorted/filtered/indexed view)",
               next((n for n, o in srcs if not o), m.node))
    # _inner is private
    outside = []
    for fn in prog.fns:
        for n in walk_fn(fn.node):
            if isinstance(n, ast.Attribute) and n.attr == "_inner" and not (fn.cls is not None and fn.cls.name == "Errors"):
                outside.append((fn, n))
    run.ob("R-8.5", "errors.py::Errors::_inner-private", not outside,
           "Errors._inner (the unsorted list) is read outside class Errors: " + ", ".join(f.key for f, _ in outside[:3]),
           outside[0][1] if outside else None)
    js = prog.method("JSONErrorsFormatter", "__str__")
    rets = [n for n in walk_fn(js.node) if isinstance(n, ast.Return)]
    ok = len(rets) == 1 and any(isinstance(x, ast.Call) and text(x.func) == "json.dumps" for x in ast.walk(rets[0]))
    if ok:
        v = rets[0].value
        ok = (isinstance(v, ast.Call) and text(v.func) == "json.dumps") or \
             (isinstance(v, ast.BinOp) and isinstance(v.op, ast.Add) and isinstance(v.left, ast.Call)
              and text(v.left.func) == "json.dumps" and try_fold(v.right, js.mod) == "\n")
    run.ob("R-8.5", f"{js.key}::valid-json-by-construction", ok,
           "the JSON formatter's result is not json.dumps(<structure>) (+ newline): validity is no longer by construction",
           rets[0] if rets else js.node)
    uses_asdict = any(isinstance(x, ast.Name) and x.id == "asdict" for x in walk_fn(js.node))
    status_read = any(isinstance(x, ast.Attribute) and x.attr == "status" for x in walk_fn(js.node))
    run.ob("R-8.5", f"{js.key}::fields", uses_asdict and status_read,
           "the JSON formatter does not export asdict(error) and errors.status", js.node)
    hm = prog.method("HumanizedErrorsFormatter", "__str__")
    # fields of Error / Highlight that the human formatter reads must be dataclass fields (exported by asdict)
    fields = {"Error": _dataclass_fields(prog.cls("Error")), "Highlight": _dataclass_fields(prog.cls("Highlight"))}
    bad = []
    for n in list(walk_fn(hm.node)) + list(walk_fn(prog.method("HumanizedErrorsFormatter", "_colorize_error_text").node)):
        if isinstance(n, ast.Attribute) and isinstance(n.value, ast.Name):
            if n.value.id == "error" and n.attr not in fields["Error"]:
                bad.append(n)
            if n.value.id == "highlight" and n.attr not in fields["Highlight"]:
                bad.append(n)
    first = any(isinstance(n, ast.Assign) and text(n.value) == "error.highlights[0]" for n in walk_fn(hm.node))
    run.ob("R-8.5", f"{hm.key}::fields-subset-of-json", not bad and first,
           "the human formatter prints something asdict() does not export, or not the first highlight: "
           + ", ".join(text(b) for b in bad[:3]), bad[0] if bad else hm.node)


def _dataclass_fields(c) -> Set[str]:
    return {st.target.id for st in c.node.body if isinstance(st, ast.AnnAssign) and isinstance(st.target, ast.Name)}


def rule_prints(run, prog):
    run.rule("R-8.6", "stdout discipline: every print outside __main__ is unreachable when the debug level is 0 (CFG "
             "reachability with the outcomes of pure debug-level tests fixed at debug == 0)", floor=8)
    n_prints = 0
    for fn in prog.fns:
        if fn.mod.rel == "__main__.py":
            continue
        prints = [n for n in walk_fn(fn.node) if isinstance(n, ast.Call) and text(n.func) in ("print", "sys.stdout.write", "pprint")]
        if not prints:
            continue
        g = cfg_of(fn)
        blocked = {}
        for node in g.nodes:
            if node.kind == "test":
                v = _value_when_debug_zero(node.ast)
                if v is not None:
                    blocked[node.id] = "F" if v else "T"

        def ok_edge(n, m, lab):
            if lab == "exc":
                return False
            return not (n in blocked and lab == blocked[n])

        reach = g.reachable(g.entry, edge_filter=ok_edge)
        for p in prints:
            n_prints += 1
            pid = _cfg_node_of_expr(g, p)
            run.ob("R-8.6", f"{fn.key}::print[{text(p.args[0], 24) if p.args else ''}]", pid not in reach,
                   "print reachable with debug == 0: normal-mode output is no longer only main's report (and -f json is "
                   "not JSON any more)", p)
    run.require(n_prints >= 8, f"only {n_prints} print sites found outside __main__ (floor 8)")


def check(run, prog):
    rule_catalogue(run, prog)
    rule_levels(run, prog)
    rule_positioned(run, prog)
    rule_order(run, prog)
    rule_formatters(run, prog)
    rule_prints(run, prog)
