"""C08 — reports are well-formed, ordered and identical in both output formats.  DESIGN.md §4.8."""
from __future__ import annotations

import ast
from typing import Dict, List, Optional, Set

from ..cfg import cfg_of
from ..facts import catalogue, catalogue_literal, emission_sites, value_set
from ..fold import try_fold
from ..minieval import Evaluator, Obj, Unsupported
from ..model import AnalysisError, Undecided, ancestors, parent, text, walk_fn
from .c05 import _cfg_node_of_expr

LEVELS = {"Error", "Notice"}


def rule_catalogue(run, prog):
    run.rule("R-8.1", "EMIT: at every emission site the value set of the code is included in the published catalogue "
             "(norm_error.errors) and the text is the catalogue's (objects built by Error.from_name only); the catalogue "
             "literal has no key repeated with a different text", floor=150)
    cat = catalogue(prog)
    for e in emission_sites(prog):
        if e.fn.mod.rel == "errors.py" or (e.fn.cls is not None and e.fn.cls.name == "Context"):
            continue            # the choke points themselves: their parameter is the union of the call sites below
        code = "?"
        if e.kind == "Error":
            vs = value_set(prog, e.fn, e.code_expr) if e.code_expr is not None else None
            code = ",".join(sorted(vs)) if vs else "?"
            run.ob("R-8.1", f"{e.fn.key}::emit[{code}]", False,
                   f"diagnostic built directly with Error({code!r}, <text>): code and text are not the published catalogue's",
                   e.node, kind=e.kind)
            continue
        if e.code_expr is None:
            run.ob("R-8.1", f"{e.fn.key}::emit[?]", False, "emission without a code argument", e.node)
            continue
        vs = value_set(prog, e.fn, e.code_expr)
        if vs is None:
            run.ob("R-8.1", f"{e.fn.key}::emit[?]", False,
                   f"cannot bound the diagnostic code {text(e.code_expr)} statically (not a literal, a foldable constant, an "
                   f"f-string over guarded values or a parameter with known call sites)", e.node)
            continue
        code = ",".join(sorted(vs))
        missing = sorted(v for v in vs if v not in cat)
        run.ob("R-8.1", f"{e.fn.key}::emit[{code}]", not missing,
               f"code(s) {missing} are not in the published catalogue: Error.from_name raises KeyError / the report shows "
               f"an unpublished code", e.node, kind=e.kind)
    lit = catalogue_literal(prog)
    seen: Dict[str, str] = {}
    dup_bad = []
    for k, v in zip(lit.keys, lit.values):
        kk, vv = try_fold(k, prog.mod("norm_error.py")), try_fold(v, prog.mod("norm_error.py"))
        if not isinstance(kk, str) or not isinstance(vv, str):
            dup_bad.append((k, "non-string entry"))
            continue
        if kk in seen and seen[kk] != vv:
            dup_bad.append((k, f"{kk} defined twice with different texts"))
        elif kk in seen:
            run.note(f"catalogue key {kk} appears twice with the same text")
        seen[kk] = vv
    run.ob("R-8.1", "norm_error.py::errors::well-formed", not dup_bad,
           "catalogue literal: " + "; ".join(w for _, w in dup_bad[:3]), dup_bad[0][0] if dup_bad else lit)
    fnm = prog.method("Error", "from_name")
    run.require(fnm is not None, "anchor vanished: Error.from_name")
    # interpreted for every key of the catalogue: free names of errors.py are resolved through that module's imports
    from .c04 import ErrorsModel
    from ..minieval import ClassRef, Unsupported
    from ..xeval import Raised
    model = ErrorsModel(prog)
    bad = None
    try:
        ev = model.evaluator(max_steps=2000000)
        from_name = ev.getattr(ClassRef("Error"), "from_name")
        for k, want in cat.items():
            try:
                e = ev.call_value(from_name, [k], {})
                got = (ev.getattr(e, "name"), ev.getattr(e, "text"))
            except Raised as r:
                got = ("exception", repr(r.value))
            if got != (k, want) and bad is None:
                bad = f"Error.from_name({k!r}) has (name, text) = {got}"
        try:
            ev.call_value(from_name, ["NO_SUCH_CODE_"], {})
            bad = bad or "Error.from_name accepts a code that is not in the catalogue"
        except Raised as r:
            pass
    except Unsupported as e:
        raise Undecided(f"Error.from_name is outside the evaluable subset: {e}")
    run.ob("R-8.1", "errors.py::Error.from_name::text-from-catalogue", bad is None,
           f"Error.from_name does not take the text from norm_error.errors[name]: {bad}", fnm.node, evaluations=len(cat) + 1)


def rule_levels(run, prog):
    run.rule("R-8.2", "every level passed to a diagnostic is 'Error' or 'Notice'; new_warning passes 'Notice', new_error "
             "the default 'Error'", floor=5)
    for fn in prog.fns:
        for n in walk_fn(fn.node):
            if isinstance(n, ast.Call):
                for k in n.keywords:
                    if k.arg == "level":
                        vs = value_set(prog, fn, k.value)
                        ok = vs is not None and vs <= LEVELS
                        run.ob("R-8.2", f"{fn.key}::level[{text(k.value, 30)}]", ok,
                               f"level {text(k.value)} is not statically one of Error / Notice", n)
    nw = prog.method("Context", "new_warning")
    ne = prog.method("Context", "new_error")
    run.require(nw is not None and ne is not None, "anchor vanished: Context.new_error / new_warning")
    got_w = _emit_through_context(prog, "new_warning")
    got_e = _emit_through_context(prog, "new_error")
    run.ob("R-8.2", f"{nw.key}::notice", got_w[0] == ["Notice"], f"Context.new_warning does not create a Notice: {got_w[0] or got_w[2]}", nw.node)
    run.ob("R-8.2", f"{ne.key}::error", got_e[0] == ["Error"], f"Context.new_error passes a level other than Error: {got_e[0] or got_e[2]}", ne.node)
    # defaults, by interpretation
    from .c04 import ErrorsModel
    from ..minieval import Unsupported
    from ..xeval import Raised
    ec = prog.cls("Error")
    addm = prog.method("Errors", "add")
    run.require(addm is not None, "anchor vanished: Errors.add")
    model = ErrorsModel(prog)
    try:
        ev = model.evaluator()
        try:
            d = ev.getattr(ev.instantiate("Error", ["X", "text"], {}), "level")
        except Raised as r:
            d = f"exception {r.value!r}"
        run.ob("R-8.2", f"{ec.key}::default-level", d == "Error", f"Error.level default is {d!r}", ec.node)
        errors = model.new_errors(ev)
        try:
            model.add(ev, errors, "name-default", None)
            lv = model.stored_levels(ev, errors)
        except Raised as r:
            lv = [f"exception {r.value!r}"]
        run.ob("R-8.2", f"{addm.key}::default-level", lv == ["Error"], f"Errors.add no longer defaults level to Error: {lv}", addm.node)
    except Unsupported as e:
        raise Undecided(f"class Errors / Error is outside the evaluable subset: {e}")


def _emit_through_context(prog, mname):
    """Interpret Context.<mname>("TOO_MANY_LINES", token) on a stub context holding a real Errors container.
    Returns (levels, [(name, text, first position)], problem)."""
    from .c04 import FormatterBench
    from ..minieval import Obj, Unsupported
    from ..xeval import Raised
    try:
        b = FormatterBench(prog)
        ev = b.ev
        errors = ev.instantiate("Errors", [], {})
        file = Obj("File", path="t.c", basename="t.c", errors=errors)
        ctx = Obj("Context", errors=errors, file=file, tokens=[], debug=0)
        tok = Obj("Token", type="IDENTIFIER", value="v", pos=(7, 3), lineno=7, column=3, length=1, unsafe_length=1, line=7, col=3)
        try:
            ev.call_method(ctx, mname, ["TOO_MANY_LINES", tok], {})
        except Raised as r:
            return [], [], f"raises {r.value!r}"
        out = list(ev.iterate(errors))
        levels = [ev.getattr(e, "level") for e in out]
        shape = []
        for e in out:
            hl = ev.getattr(e, "highlights")
            first = (ev.getattr(hl[0], "lineno"), ev.getattr(hl[0], "column")) if hl else None
            shape.append((ev.getattr(e, "name"), ev.getattr(e, "text"), first))
        return levels, shape, None
    except Unsupported as e:
        raise Undecided(f"Context.{mname} is outside the evaluable subset: {e}")


def _emit_without_token(prog, mname):
    """Context.<mname>(code, None) -- what a rule passes when it looked one token past the end -- on a context whose tokens end
    with the newline of line 3 (a 3-line file), and with an identifier on line 3 (no final newline).  -> problem or None: either
    the call raises (a crash is C05's business), or the position it records is inside the file."""
    from .c04 import FormatterBench
    from ..minieval import Obj, Unsupported
    from ..xeval import Raised
    try:
        for last_kind, last_len in (("NEWLINE", 1), ("IDENTIFIER", 2)):
            b = FormatterBench(prog)
            ev = b.ev
            errors = ev.instantiate("Errors", [], {})
            file = Obj("File", path="t.c", basename="t.c", errors=errors)

            def tk(kind, ln, col, length=1):
                return Obj("Token", type=kind, value=None if kind == "NEWLINE" else "ab", pos=(ln, col), lineno=ln, column=col, length=length,
                           unsafe_length=length, line=ln, col=col)
            toks = [tk("IDENTIFIER", 1, 1, 2), tk("NEWLINE", 1, 3), tk("IDENTIFIER", 2, 1, 2), tk("NEWLINE", 2, 3), tk("IDENTIFIER", 3, 1, 2),
                    tk(last_kind, 3, 3, last_len)]
            ctx = Obj("Context", errors=errors, file=file, tokens=toks, debug=0)
            try:
                ev.call_method(ctx, mname, ["TOO_MANY_LINES", None], {})
            except Raised:
                continue
            for e in ev.iterate(errors):
                for h in ev.getattr(e, "highlights"):
                    ln, col = ev.getattr(h, "lineno"), ev.getattr(h, "column")
                    if not (isinstance(ln, int) and isinstance(col, int) and 1 <= ln <= 3 and col >= 1):
                        return (f"Context.{mname}(code, None) on a 3-line file (last token {last_kind}) records the position ({ln}, {col}): "
                                f"a line that is not in the file")
        return None
    except Unsupported as e:
        raise Undecided(f"Context.{mname} is outside the evaluable subset: {e}")


def _is_error_ctor(v) -> bool:
    return isinstance(v, ast.Call) and (text(v.func) in ("Error.from_name", "Error", "cls.from_name"))


def _has_nonempty_highlights(call: ast.Call, fn=None) -> Optional[bool]:
    for k in call.keywords:
        if k.arg == "highlights":
            v = k.value
            if isinstance(v, ast.Name) and fn is not None:
                from ..fold import local_env
                v = local_env(fn).get(v.id, v)          # a single-assignment local holding the list
            if isinstance(v, (ast.List, ast.Tuple)):
                return len(v.elts) > 0 and not all(isinstance(e, ast.Starred) for e in v.elts)
            return None
    return False


def _implies_positioned(test, truth: bool, var: str) -> bool:
    """The branch outcome `truth` of `test` is impossible while `var.highlights` is empty."""
    from ..deadsite import _atoms
    for e, outcomes in _atoms(test, truth):
        class Sub(ast.NodeTransformer):
            hit = False

            def visit_Call(self, node):
                if isinstance(node.func, ast.Name) and node.func.id in ("len", "bool") and len(node.args) == 1 \
                        and text(node.args[0]) == f"{var}.highlights":
                    self.hit = True
                    return ast.Constant(0 if node.func.id == "len" else False)
                return self.generic_visit(node)

            def visit_Attribute(self, node):
                if text(node) == f"{var}.highlights":
                    self.hit = True
                    return ast.List(elts=[], ctx=ast.Load())
                return node

        sub = Sub()
        e2 = sub.visit(ast.parse(ast.unparse(e), mode="eval").body)
        if not sub.hit:
            continue
        try:
            v = eval(compile(ast.fix_missing_locations(ast.Expression(e2)), "<guard>", "eval"), {"__builtins__": {}})
        except Exception:
            continue
        v = True if v is True else False if v is False else None if v is None else bool(v)
        if isinstance(e, ast.Compare) or not isinstance(e, (ast.Attribute, ast.Call)):
            v = bool(v)
            if v not in outcomes and (True in outcomes) != v:
                return True
        elif bool(v) is False and outcomes == frozenset({True}):
            return True
    return False


def rule_positioned(run, prog):
    run.rule("R-8.3", "PAIR/typestate: every Error object is positioned (>= 1 add_highlight on it, or a non-empty "
             "highlights=[...]) on every path before it is added to an Errors collection; an add under "
             "`if error.highlights` counts as guarded", floor=12)
    n_sites = 0
    for fn in prog.fns:
        if fn.mod.rel == "errors.py":
            continue
        g = None
        creations = []
        for n in walk_fn(fn.node):
            if isinstance(n, ast.Assign) and len(n.targets) == 1 and isinstance(n.targets[0], ast.Name) and _is_error_ctor(n.value):
                creations.append((n.targets[0].id, n))
            elif isinstance(n, ast.Call) and isinstance(n.func, ast.Attribute) and n.func.attr in ("add", "append") \
                    and text(n.func.value).endswith("errors") and n.args:
                a0 = n.args[0]
                if _is_error_ctor(a0):
                    n_sites += 1
                    hl = _has_nonempty_highlights(a0, fn)
                    run.ob("R-8.3", f"{fn.key}::inline-error", hl is True, "Error created inline and added without a position", n)
                elif isinstance(a0, (ast.Constant, ast.JoinedStr)):
                    hk = [k for k in n.keywords if k.arg == "highlights"]
                    hl = bool(hk) and isinstance(hk[0].value, (ast.List, ast.Tuple)) and len(hk[0].value.elts) > 0
                    n_sites += 1
                    run.ob("R-8.3", f"{fn.key}::add-by-name[{text(a0, 30)}]", hl,
                           "diagnostic added by name without any highlight: it has no position", n)
        for var, cnode in creations:
            n_sites += 1
            if g is None:
                g = cfg_of(fn)
            hl = _has_nonempty_highlights(cnode.value, fn)
            key = f"{fn.key}::error[{var}]"
            if hl is True:
                run.ob("R-8.3", key, True, "positioned at creation", cnode)
                continue
            cid = g.nid(cnode)
            hnodes, adds, guards = set(), [], {}
            for n in walk_fn(fn.node):
                if isinstance(n, ast.Call) and isinstance(n.func, ast.Attribute):
                    if n.func.attr == "add_highlight" and text(n.func.value) == var:
                        hnodes.add(_cfg_node_of_expr(g, n))
                    if n.func.attr in ("append", "insert") and text(n.func.value) == f"{var}.highlights":
                        hnodes.add(_cfg_node_of_expr(g, n))
                    if n.func.attr in ("add", "append") and text(n.func.value).endswith("errors") and n.args \
                            and text(n.args[0]) == var:
                        adds.append(n)
            # other creations of the same variable end this object's life
            others = {g.nid(c) for v, c in creations if v == var and c is not cnode}
            others |= {g.nid(n) for n in walk_fn(fn.node) if isinstance(n, ast.Assign) and any(
                isinstance(t, ast.Name) and t.id == var for t in n.targets) and n is not cnode}
            others.discard(None)
            # add_highlight inside a loop body may run zero times: only counts if the add is guarded
            bad = []
            for a in adds:
                aid = _cfg_node_of_expr(g, a)
                guarded = any(isinstance(an, ast.If) and text(an.test) in (f"{var}.highlights", f"len({var}.highlights) > 0",
                                                                           f"len({var}.highlights)")
                              and any(_contains(s, a) for s in an.body) for an in ancestors(a))
                if guarded:
                    continue
                sure = {h for h in hnodes if not _in_loop_relative(g.nodes[h].ast, cnode, fn)}
                # branch outcomes that cannot be taken while the object has no highlight (if error.highlights: ...,
                # if not error.highlights: return, if len(error.highlights) >= 1: ...) count as positioned
                cut = {(nd.id, lab) for nd in g.nodes if nd.kind == "test" for lab in ("T", "F")
                       if _implies_positioned(nd.ast, lab == "T", var)}
                # a loop over a local proven non-empty whose body surely positions the object: its exhaustion edge is only
                # taken after at least one turn of the body
                for h in sure:
                    for a_ in ancestors(g.nodes[h].ast):
                        if isinstance(a_, ast.For) and not _contains(a_, cnode) and _iterates_nonempty(a_, fn):
                            hid = next((nd.id for nd in g.nodes if nd.kind == "iter" and nd.ast is a_), None)
                            if hid is not None:
                                cut.add((hid, "F"))
                if g.can_reach(cid, aid, avoid=sure | others, follow_exc=False,
                               edge_filter=lambda x, y, lab: (x, lab) not in cut):
                    bad.append(a)
            run.ob("R-8.3", key, not bad,
                   f"Error object `{var}` can reach errors.add without any add_highlight on that path: a diagnostic "
                   f"without position (the human formatter indexes highlights[0])", bad[0] if bad else cnode,
                   adds=len(adds), highlights=len(hnodes))
    run.require(n_sites >= 12, f"only {n_sites} Error creation sites found (floor 12)")
    cat = catalogue(prog)
    for mname in ("new_error", "new_warning"):
        m = prog.method("Context", mname)
        levels, shape, problem = _emit_through_context(prog, mname)
        ok = problem is None and shape == [("TOO_MANY_LINES", cat.get("TOO_MANY_LINES"), (7, 3))]
        run.ob("R-8.3", f"{m.key}::positioned", ok,
               f"Context.{mname} does not add exactly one catalogue diagnostic positioned at the token (Highlight.from_token(tkn)): "
               f"{problem or shape}", m.node)
        beyond = _emit_without_token(prog, mname)
        run.ob("R-8.3", f"{m.key}::position-inside-the-file", beyond is None, beyond or "", m.node)


def _contains(container, node) -> bool:
    n = node
    while n is not None:
        if n is container:
            return True
        n = parent(n)
    return False


def _iterates_nonempty(loop, fn) -> bool:
    """`for v in X:` whose X is a single-assignment local that an earlier statement of the same block has tested for emptiness
    with an early exit (`if not X: return / raise / continue`): the body runs at least once."""
    from ..fold import local_env
    if not (isinstance(loop, ast.For) and isinstance(loop.iter, ast.Name) and loop.iter.id in local_env(fn)):
        return False
    x = loop.iter.id
    blk = parent(loop)
    for field in ("body", "orelse", "finalbody"):
        stmts = getattr(blk, field, None)
        if isinstance(stmts, list) and loop in stmts:
            for st in stmts[:stmts.index(loop)]:
                if isinstance(st, ast.If) and not st.orelse and st.body and isinstance(st.body[-1], (ast.Return, ast.Raise, ast.Continue)) \
                        and text(st.test) in (f"not {x}", f"len({x}) == 0", f"{x} == []", f"not len({x})"):
                    return True
    return False


def _in_loop_relative(node, creation, fn=None) -> bool:
    """node sits in a for/while body (or under an if) that does not also contain the creation:
    it may execute zero times after the creation."""
    for a in ancestors(node):
        if isinstance(a, (ast.For, ast.While, ast.If)) and not _contains(a, creation):
            if fn is not None and isinstance(a, ast.For) and (node in a.body or node in [getattr(s_, "value", None) for s_ in a.body]) and _iterates_nonempty(a, fn):
                continue
            return True
        if isinstance(a, (ast.FunctionDef, ast.AsyncFunctionDef)):
            break
    return False


def rule_order(run, prog):
    run.rule("R-8.4", "ORD: Highlight.__lt__ and Error.__lt__, evaluated by the analyser's interpreter over all pairs and "
             "triples of a small position domain, order by ascending (line, column) of the printed position and are strict "
             "weak orders on ties; every multi-highlight creation lists its smallest position first", floor=5)
    hl = prog.method("Highlight", "__lt__")
    el = prog.method("Error", "__lt__")
    run.require(hl is not None and el is not None, "anchor vanished: Highlight.__lt__ / Error.__lt__")
    methods = {}
    for cname in ("Highlight", "Error"):
        for mname, m in prog.cls(cname).methods.items():
            methods[(cname, mname)] = m.node
    hints = (None, "ab", "abcd")
    H = [Obj("Highlight", lineno=l, column=c, length=None, hint=h) for l in (1, 2, 3) for c in (1, 2, 3) for h in hints]

    def lt(a, b):
        ev = Evaluator(methods)
        return bool(ev.call_function(hl.node if a._cls == "Highlight" else el.node, {"self": a, "other": b}))

    def laws(objs, keyf, what, fn):
        bad = None
        n = 0
        table = {}
        try:
            for a in objs:
                for b in objs:
                    r = lt(a, b)
                    table[(id(a), id(b))] = r
                    n += 1
                    ka, kb = keyf(a), keyf(b)
                    if ka != kb and r != (ka < kb) and bad is None:
                        bad = f"{what}: {a!r} < {b!r} gives {r} but printed positions are {ka} and {kb} (ascending order broken)"
                    if a is b and r and bad is None:
                        bad = f"{what}: not irreflexive on {a!r}"
            for a in objs:
                for b in objs:
                    if table[(id(a), id(b))] and table[(id(b), id(a))] and bad is None:
                        bad = f"{what}: not asymmetric on {a!r}, {b!r}"
            # transitivity of < and of incomparability (strict weak order) over the domain
            if bad is None:
                for a in objs:
                    for b in objs:
                        if not table[(id(a), id(b))]:
                            continue
                        for c in objs:
                            if table[(id(b), id(c))] and not table[(id(a), id(c))]:
                                bad = f"{what}: not transitive on {a!r}, {b!r}, {c!r}"
                                break
                        if bad:
                            break
                    if bad:
                        break
        except Unsupported as e:
            raise Undecided(f"{fn.key} is outside the evaluable subset: {e}")
        return bad, n

    bad, n = laws(H, lambda h: (h.lineno, h.column), "Highlight.__lt__", hl)
    run.ob("R-8.4", f"{hl.key}::ascending", bad is None, bad or "ok", hl.node, evaluations=n)
    # Errors: 1 or 2 highlights (first = smallest, see the creation-site obligation below), names A/B
    pos = [(1, 1), (1, 2), (2, 1)]
    E = []
    for name in ("A", "B"):
        for p in pos:
            E.append(Obj("Error", name=name, text="t", level="Error",
                         highlights=[Obj("Highlight", lineno=p[0], column=p[1], length=None, hint=None)]))
            for q in pos:
                if q >= p:
                    E.append(Obj("Error", name=name, text="t", level="Error",
                                 highlights=[Obj("Highlight", lineno=p[0], column=p[1], length=None, hint=None),
                                             Obj("Highlight", lineno=q[0], column=q[1], length=1, hint="hint")]))
    bad, n = laws(E, lambda e: (e.highlights[0].lineno, e.highlights[0].column), "Error.__lt__", el)
    run.ob("R-8.4", f"{el.key}::ascending", bad is None, bad or "ok", el.node, evaluations=n)
    # Errors hands out its diagnostics sorted by these comparators: interpreted on containers filled in descending and
    # mixed order, by instance and by name, and with diagnostics positioned only after they were added
    it = prog.method("Errors", "__iter__")
    from .c04 import ErrorsModel
    from ..minieval import ClassRef
    from ..xeval import Raised
    model = ErrorsModel(prog)
    bad = None
    try:
        # (small positions, and positions whose columns / lines exceed any packing constant a key function might use:
        #  a line wider than 1000 / 10^4 / 10^6 columns, a file longer than 65536 lines)
        for order in ([(5, 1), (3, 2), (3, 1)], [(1, 1), (2, 1), (1, 2)], [(2, 2), (2, 2), (1, 9)], [(9, 9)], [],
                      [(3, 10), (1, 2414), (1, 82)], [(2, 1), (1, 100001), (1, 1000)], [(70000, 1), (2, 5000000), (65536, 3)],
                      [(1, 10 ** 9), (2, 1)]):
            for late in (False, True):
                ev = model.evaluator()
                errors = model.new_errors(ev)
                try:
                    for i, pos in enumerate(order):
                        if late:
                            e = ev.call_value(ev.getattr(ClassRef("Error"), "from_name"), ["TOO_MANY_LINES"], {"level": "Error"})
                            ev.call_method(errors, "add", [e], {})
                            ev.call_method(e, "add_highlight", list(pos), {})
                        else:
                            model.add(ev, errors, ("inst", "name")[i % 2], "Error", pos=pos)
                    for _twice in (0, 1):
                        got = [(ev.getattr(ev.getattr(e, "highlights")[0], "lineno"), ev.getattr(ev.getattr(e, "highlights")[0], "column"))
                               for e in ev.iterate(errors)]
                        if got != sorted(order) and bad is None:
                            bad = (f"diagnostics added at {order}" + (" (positioned after being added)" if late else "")
                                   + f" are handed out as {got}")
                except Raised as r:
                    bad = bad or f"iteration raises {r.value!r}"
    except Unsupported as e:
        raise Undecided(f"class Errors is outside the evaluable subset: {e}")
    run.ob("R-8.4", "errors.py::Errors.__iter__::sorted-view", bad is None,
           f"Errors.__iter__ does not hand out the diagnostics sorted by Error.__lt__ (ascending): {bad}", it.node if it else None)
    # multi-highlight creation sites list the smallest position first
    n_multi = 0
    for fn in prog.fns:
        if fn.mod.rel == "errors.py":
            continue
        seqs: Dict[str, List[ast.Call]] = {}
        for n in walk_fn(fn.node):
            if isinstance(n, ast.Call) and _is_error_ctor(n):
                for k in n.keywords:
                    hv = k.value
                    if k.arg == "highlights" and isinstance(hv, ast.Name):
                        from ..fold import local_env
                        hv = local_env(fn).get(hv.id, hv)            # the list held in a single-assignment local
                    if k.arg == "highlights" and isinstance(hv, (ast.List, ast.Tuple)) and len(hv.elts) >= 2:
                        n_multi += 1
                        okk, why = _ascending([_hl_args(x, fn) for x in hv.elts])
                        run.ob("R-8.4", f"{fn.key}::multi-highlight[{_code_of(n)}]", okk,
                               f"cannot show that the first highlight is the smallest position ({why}): the diagnostic "
                               f"would be sorted by a position other than the one printed", n)
            if isinstance(n, ast.Call) and isinstance(n.func, ast.Attribute) and n.func.attr == "add_highlight" \
                    and isinstance(n.func.value, ast.Name):
                seqs.setdefault(n.func.value.id, []).append(n)
        for var, calls in seqs.items():
            calls.sort(key=lambda c: (c.lineno, c.col_offset))
            creations = [n for n in walk_fn(fn.node) if isinstance(n, ast.Assign) and any(
                isinstance(t, ast.Name) and t.id == var for t in n.targets)]        # constructor or a helper that returns one

            def loop_after_creation(c):
                for a in ancestors(c):
                    if a is fn.node:
                        return False
                    if isinstance(a, (ast.For, ast.While)) and not any(_contains(a, cr) for cr in creations):
                        return True
                return False

            in_loop = [c for c in calls if loop_after_creation(c)]
            if len(calls) >= 2 and not in_loop:
                # only sequences on the same object in the same block
                groups: Dict[int, List[ast.Call]] = {}
                for c in calls:
                    groups.setdefault(id(parent(parent(c))), []).append(c)
                for grp in groups.values():
                    if len(grp) >= 2:
                        n_multi += 1
                        okk, why = _ascending([_hl_args(c, fn) for c in grp])
                        run.ob("R-8.4", f"{fn.key}::multi-highlight[{var}]", okk,
                               f"cannot show that the first add_highlight is the smallest position ({why})", grp[0])
            for c in in_loop:
                n_multi += 1
                a = _hl_args(c)
                loop = next(x for x in ancestors(c) if isinstance(x, (ast.For, ast.While)) and not any(_contains(x, cr) for cr in creations))
                okk = False
                why = "loop form not recognised"
                if isinstance(loop, ast.For) and _ascending_indices(loop.iter, fn) is not None \
                        and a is not None and isinstance(a[1], ast.BinOp) and isinstance(a[1].op, ast.Add):
                    lv = loop.target.elts[0] if isinstance(loop.target, ast.Tuple) and _ascending_indices(loop.iter, fn) == "pairs" \
                        else loop.target
                    if isinstance(a[1].right, ast.Name) and isinstance(lv, ast.Name) and a[1].right.id == lv.id \
                            and not any(isinstance(x, ast.Name) and x.id == lv.id for x in ast.walk(a[0])):
                        okk = True
                run.ob("R-8.4", f"{fn.key}::multi-highlight[{var}/loop]", okk,
                       f"highlights added in a loop: cannot show ascending positions ({why})", c)
    run.require(n_multi >= 4, f"only {n_multi} multi-highlight sites found (floor 4)")


def _ascending_indices(it, fn, depth=0):
    """"pairs" when *it* yields (ascending index, item) pairs (enumerate), "values" when it yields ascending numbers (range, sorted,
    a single-assignment local bound to one of those, a comprehension that keeps -- filtered or not -- the indices of such an
    iteration in order); None otherwise."""
    from ..fold import local_env
    if depth > 3:
        return None
    if isinstance(it, ast.Call) and text(it.func) == "enumerate":
        return "pairs"
    if isinstance(it, ast.Call) and text(it.func) in ("range", "sorted"):
        return "values"
    if isinstance(it, ast.Name):
        e = local_env(fn).get(it.id)
        return _ascending_indices(e, fn, depth + 1) if e is not None and _ascending_indices(e, fn, depth + 1) == "values" else None
    if isinstance(it, (ast.ListComp, ast.GeneratorExp)) and len(it.generators) == 1 and isinstance(it.elt, ast.Name):
        gen = it.generators[0]
        kind = _ascending_indices(gen.iter, fn, depth + 1)
        idx = gen.target.elts[0] if kind == "pairs" and isinstance(gen.target, ast.Tuple) else gen.target if kind == "values" else None
        if isinstance(idx, ast.Name) and idx.id == it.elt.id:
            return "values"
    return None


def _code_of(call) -> str:
    return text(call.args[0], 30).strip("'\"") if call.args else "?"


def _resolve_locals(e, fn, depth=0):
    """Copy of expression *e* in which single-assignment locals bound to simple expressions (names, attributes,
    constants, arithmetic, len(...), subscripts) are replaced by their definition: `end = column + len(value)`."""
    from ..fold import local_env
    env = local_env(fn)
    simple = (ast.Name, ast.Attribute, ast.Constant, ast.BinOp, ast.UnaryOp, ast.Subscript, ast.Tuple, ast.Starred)

    def ok(v):
        return all(isinstance(x, simple + (ast.operator, ast.unaryop, ast.expr_context, ast.Call, ast.Slice)) for x in ast.walk(v)) and \
            all(text(c.func) == "len" for c in ast.walk(v) if isinstance(c, ast.Call))

    class Sub(ast.NodeTransformer):
        def visit_Name(self, node):
            if isinstance(node.ctx, ast.Load) and node.id in env and ok(env[node.id]) and depth < 4 \
                    and not any(isinstance(x, ast.Name) and x.id == node.id for x in ast.walk(env[node.id])):
                return _resolve_locals(env[node.id], fn, depth + 1)
            return node

    return Sub().visit(ast.parse(ast.unparse(e), mode="eval").body)


def _hl_args(e, fn=None):
    """(line expr, column expr) of a Highlight(...) / H(...) / add_highlight(...) call; ('*pos', None) for starred."""
    if not isinstance(e, ast.Call):
        return None
    if fn is not None:
        e = _resolve_locals(e, fn)
    args = list(e.args)
    if args and isinstance(args[0], ast.Starred):
        return (args[0], None)
    if len(args) >= 2:
        return (args[0], args[1])
    return None


def _ascending(seq):
    prev = None
    for cur in seq:
        if cur is None:
            return False, "unrecognised highlight constructor"
        if prev is not None:
            if isinstance(prev[0], ast.Starred) or isinstance(cur[0], ast.Starred):
                if not (isinstance(cur[0], ast.Starred) and isinstance(prev[0], ast.Starred) and text(cur[0]) == text(prev[0])):
                    # *pos followed by (lineno, column + k) where pos = lineno, column
                    if isinstance(prev[0], ast.Starred) and cur[1] is not None and isinstance(cur[1], ast.BinOp) \
                            and isinstance(cur[1].op, ast.Add):
                        prev = cur
                        continue
                    return False, "mixed starred / explicit positions"
            else:
                if text(prev[0]) != text(cur[0]):
                    return False, f"line expressions differ: {text(prev[0])} / {text(cur[0])}"
                pc, cc = text(prev[1]), text(cur[1])
                if pc != cc and not (isinstance(cur[1], ast.BinOp) and isinstance(cur[1].op, ast.Add) and text(cur[1].left) == pc):
                    return False, f"column {cc} is not {pc} or {pc} + <offset>"
        prev = cur
    return True, ""


def rule_formatters(run, prog):
    run.rule("R-8.5", "sibling agreement, by interpretation of both formatters on the same File objects (three files in "
             "non-alphabetical order, diagnostics added in descending order of position, several highlights, texts with "
             "quotes / backslashes / non-ASCII letters): each report names every file exactly once and in the given order, "
             "lists every diagnostic once, in the ascending order in which file.errors hands them out (Errors._inner stays "
             "private to class Errors), the JSON text is one valid document exporting status and every dataclass field, and "
             "the human line shows the level, code, first highlight and text of the same diagnostics", floor=6)
    import json as _json
    import posixpath
    from .c04 import FormatterBench
    from ..mainmodel import parse_human, parse_json
    from ..xeval import Raised
    fmts = prog.subclasses("_formatter")
    run.require(len(fmts) >= 2, "fewer than two formatters")
    weird = 'he said "hi" \\ back/slash \u00e9\u2603 {brace} %s'

    def build(b):
        files = []
        # (the directory name holds a byte that is not UTF-8, the way os.fsdecode hands it over: a lone surrogate)
        plan = [("z\udcffz/zz.c", [("Error", (9, 1)), ("Notice", (4, 7)), ("Error", (4, 2)), ("Error", (1, 1))]),
                ("aa.c", []),
                ("mm.h", [("Notice", (2, 2)), ("Error", (2, 1))]),
                ("z\udcffz/zz.c", [("Notice", (5, 5))])]    # the same path mentioned twice: two File objects, two entries
        for path, diags in plan:
            ds = []
            for i, (lv, pos) in enumerate(diags):
                if i == 1:
                    # (the second highlight carries a hint, as the lexer's "perhaps you forgot a quote" ones do: the position
                    # shown is still the first highlight's, the one the diagnostics are ordered by)
                    ds.append(b.error("CUSTOM_CODE", weird, level=lv, positions=(pos, (pos[0], pos[1] + 3)),
                                      hints=(None, "Perhaps you forgot a quote?")))
                elif i in (0, 2) and diags is not plan[0][1] or i == 2:
                    # the same code with a text of its own at every occurrence (the lexer's BAD_LEXEME names the character):
                    # what is shown for a diagnostic is a function of that diagnostic, not of the code's first occurrence
                    ch = "$@`#"[(len(files) + i) % 4]
                    ds.append(b.error("BAD_LEXEME", f"No matchable token for '{ch}' lexeme", level=lv, positions=(pos,)))
                else:
                    ds.append(b.error(("TOO_MANY_LINES", "SPC_INSTEAD_TAB", "INVALID_HEADER", "TOO_MANY_ARGS")[i % 4], level=lv, positions=(pos,)))
            files.append(b.real_file(path, ds))
        return files, plan

    outs = {}
    problems = {}
    try:
        for c in fmts:
            b = FormatterBench(prog)
            files, plan = build(b)
            try:
                outs[c.name] = b.render(c.name, files, use_colors=False)
            except Raised as r:
                outs[c.name] = None
                problems[c.name] = f"the formatter raises {r.value!r}"
    except Unsupported as e:
        raise Undecided(f"a formatter is outside the evaluable subset: {e}")
    b0 = FormatterBench(prog)
    _, plan = build(b0)
    want_names = [p for p, _ in plan]
    want_diags = [sorted((pos, lv) for lv, pos in d) for p, d in plan]

    def parsed(c):
        out = outs.get(c.name)
        if out is None:
            return None, [problems.get(c.name, "no output")], 0
        if c.name.startswith("JSON") or out.lstrip().startswith("{"):
            f, stray, ndocs = parse_json(out)
            return f, stray, ndocs
        f, stray = parse_human(out)
        return f, stray, None

    for c in fmts:
        m = c.methods.get("__str__") or prog.method(c.name, "__str__")
        run.require(m is not None, f"{c.key} has no __str__")
        files, stray, _ = parsed(c)
        names = [posixpath.basename(str(n)) for n, _, _ in files] if files is not None else None
        ok = files is not None and names == [posixpath.basename(p) for p in want_names]
        run.ob("R-8.5", f"{m.key}::files-once-in-order", ok,
               f"formatter does not iterate self.files exactly once, unfiltered and in order (files reported: {names}; {problems.get(c.name, '')})",
               m.node)
        bad = None
        if files is None:
            bad = problems.get(c.name)
        else:
            for i, (n, st, diags) in enumerate(files):
                got = [((ln, col), lv) for lv, code, ln, col, txt in diags]
                want = want_diags[i] if i < len(want_diags) and names == [posixpath.basename(p) for p in want_names] else None
                if want is not None and got != want:
                    bad = bad or f"{posixpath.basename(str(n))}: diagnostics shown as {got}, file.errors hands out {want}"
        run.ob("R-8.5", f"{m.key}::errors-by-iteration", bad is None,
               f"formatter obtains the diagnostics other than by plain iteration of file.errors (sorted/filtered/indexed view): {bad}", m.node)
    # the unsorted container is private: its attribute name is taken from an interpreted Errors() (it may be renamed)
    outside = []
    try:
        probe = FormatterBench(prog).ev.instantiate("Errors", [], {})
        inner_names = {k for k, v in probe.__dict__.items() if isinstance(v, list)} or {"_inner"}
    except (Raised, Unsupported):
        inner_names = {"_inner"}
    for fn in prog.fns:
        for n in walk_fn(fn.node):
            if isinstance(n, ast.Attribute) and n.attr in inner_names and not (fn.cls is not None and fn.cls.name == "Errors") \
                    and (n.attr.startswith("_") or "errors" in text(n.value)):
                outside.append((fn, n))
    run.ob("R-8.5", "errors.py::Errors::_inner-private", not outside,
           "Errors._inner (the unsorted list) is read outside class Errors: " + ", ".join(f.key for f, _ in outside[:3]),
           outside[0][1] if outside else None)
    jc = prog.cls("JSONErrorsFormatter")
    js = prog.method("JSONErrorsFormatter", "__str__")
    jout = outs.get("JSONErrorsFormatter")
    bad = None
    doc = None
    if jout is None:
        bad = problems.get("JSONErrorsFormatter", "no output")
    else:
        try:
            doc = _json.loads(jout)
        except ValueError as e:
            bad = f"not a JSON document: {e}"
        if bad is None and not jout.endswith("\n"):
            bad = "the document is not followed by a newline"
        if bad is None:
            try:
                jout.encode("utf-8")
            except UnicodeEncodeError as e:
                bad = (f"the document cannot be written out ({e.reason} at offset {e.start}): a path with a byte that is not UTF-8 "
                       f"is exported unescaped, printing the report fails and no JSON comes out")
    run.ob("R-8.5", f"{js.key}::valid-json-by-construction", bad is None,
           f"the JSON formatter's result is not one valid JSON document (+ newline) for texts with quotes, backslashes and "
           f"non-ASCII letters: {bad}", js.node)
    bad = None
    efields = _dataclass_fields(prog.cls("Error"))
    hfields = _dataclass_fields(prog.cls("Highlight"))
    if doc is None:
        bad = "no document"
    else:
        fl = doc.get("files") if isinstance(doc, dict) else None
        if not isinstance(fl, list) or len(fl) != len(plan):
            bad = "no `files` list with one entry per file"
        else:
            for entry, (path, diags) in zip(fl, plan):
                want_status = "Error" if any(lv == "Error" for lv, _ in diags) else "OK"
                if entry.get("status") != want_status:
                    bad = bad or f"{path}: status {entry.get('status')!r}, expected {want_status!r}"
                for e in entry.get("errors", []):
                    if set(e) != efields:
                        bad = bad or f"{path}: a diagnostic is exported with the fields {sorted(e)}, Error has {sorted(efields)}"
                    for h in e.get("highlights", []):
                        if set(h) != hfields:
                            bad = bad or f"{path}: a highlight is exported with the fields {sorted(h)}"
                if weird not in [e.get("text") for e in entry.get("errors", [])] and any(True for _ in diags[1:2]):
                    bad = bad or f"{path}: the text of a diagnostic does not survive the export"
    run.ob("R-8.5", f"{js.key}::fields", bad is None,
           f"the JSON formatter does not export asdict(error) and errors.status: {bad}", js.node)
    hm = prog.method("HumanizedErrorsFormatter", "__str__")
    hf, hstray, _ = parsed(prog.cls("HumanizedErrorsFormatter"))
    jf, _, _ = parsed(jc)
    bad = None
    if hf is None or jf is None:
        bad = problems.get("HumanizedErrorsFormatter") or problems.get("JSONErrorsFormatter")
    else:
        if hstray:
            bad = f"lines that are neither a verdict nor a diagnostic: {hstray[:2]}"
        a_ = [(posixpath.basename(str(n)), st, d) for n, st, d in hf]
        b_ = [(posixpath.basename(str(n)), st, d) for n, st, d in jf]
        if a_ != b_ and bad is None:
            diff = next((x for x, y in zip(a_, b_) if x != y), None)
            bad = f"the two reports differ: human {diff}"
    run.ob("R-8.5", f"{hm.key}::fields-subset-of-json", bad is None,
           f"the human formatter prints something asdict() does not export, or not the first highlight: {bad}", hm.node)


def rule_same_names(run, prog, rid="R-8.9"):
    run.rule(rid, "both reports name a file by the name it was selected by: __main__ interpreted on a virtual tree in which `inc/api.h` "
             "is a symbolic link to `inc/api_v2.h` (named directly, found in its directory, next to an ordinary file), in the human "
             "and in the JSON format: the files of the two reports have the same base names in the same order", floor=1)
    import posixpath
    from .c16 import TREE, _Runs
    from ..mainmodel import parse_human, parse_json
    main = prog.fn("__main__.py::main")
    run.require(main is not None, "anchor vanished: __main__.main")
    link_tree = {"inc": {"api_v2.h": TREE["zz.c"], "api.h": ("->", "api_v2.h")}, "main.c": TREE["zz.c"]}
    runs = _Runs(prog)
    bad, n = None, 0
    for args in (["inc/api.h"], ["inc"], ["main.c", "inc/api.h"]):
        n += 1
        oh = runs.run(args, tree=link_tree)
        oj = runs.run(args, extra=[("-f", ["json"])], tree=link_tree)
        if oh.crash is not None or oj.crash is not None:
            continue                              # a crash is reported by R-4.x / R-16.x
        hf, _ = parse_human(oh.stdout)
        jf, _, _ = parse_json(oj.stdout)
        hn = [posixpath.basename(str(x[0])) for x in hf]
        jn = [posixpath.basename(str(x[0])) for x in (jf or [])]
        if hn != jn and bad is None:
            bad = (args, hn, jn)
    run.ob(rid, f"{main.key}::same-names-in-both-formats", bad is None,
           (f"arguments {bad[0]} (inc/api.h is a link to api_v2.h): the human report names {bad[1]}, the JSON report {bad[2]}: the two "
            f"formats do not describe the same files") if bad else "", main.node, evaluations=n)


def _dataclass_fields(c) -> Set[str]:
    return {st.target.id for st in c.node.body if isinstance(st, ast.AnnAssign) and isinstance(st.target, ast.Name)}


def _writes_stdout(call, fn) -> bool:
    """A print goes to stdout unless its file= argument is provably something else: sys.stderr, or a local that is only
    ever bound to a fresh in-memory buffer (io.StringIO())."""
    from ..fold import local_env
    f = next((k.value for k in call.keywords if k.arg == "file"), None)
    if f is None or (isinstance(f, ast.Constant) and f.value is None):
        return True
    if text(f) == "sys.stderr":
        return False
    if isinstance(f, ast.Name):
        e = local_env(fn).get(f.id)
        if e is not None and isinstance(e, ast.Call) and text(e.func) in ("io.StringIO", "StringIO") and not e.args:
            return False
        if e is not None and text(e) == "sys.stderr":
            return False
    return True


def rule_prints(run, prog):
    run.rule("R-8.6", "stdout discipline: every print outside __main__ is unreachable when the debug level is 0 (CFG "
             "reachability with the outcomes of pure debug-level tests fixed at debug == 0)", floor=8)
    n_prints = 0
    from .c16 import discover_flags
    discover_flags(prog)                      # the name of the Context attribute holding the -d level
    for fn in prog.fns:
        if fn.mod.rel == "__main__.py":
            continue
        prints = [n for n in walk_fn(fn.node) if isinstance(n, ast.Call) and text(n.func) in ("print", "sys.stdout.write", "pprint")
                  and _writes_stdout(n, fn)]
        if not prints:
            continue
        g = cfg_of(fn)
        from .c16 import _value_when_debug, debug_aliases
        aliases = debug_aliases(fn)
        blocked = {}
        for node in g.nodes:
            if node.kind == "test":
                v = _value_when_debug(node.ast, 0, aliases)
                if v is not None:
                    blocked[node.id] = "F" if v else "T"

        def ok_edge(n, m, lab):
            if lab == "exc":
                return False
            return not (n in blocked and lab == blocked[n])

        reach = g.reachable(g.entry, edge_filter=ok_edge)
        for p in prints:
            n_prints += 1
            pid = _cfg_node_of_expr(g, p)
            run.ob("R-8.6", f"{fn.key}::print[{text(p.args[0], 24) if p.args else ''}]", pid not in reach,
                   "print reachable with debug == 0: normal-mode output is no longer only main's report (and -f json is "
                   "not JSON any more)", p)
    run.require(n_prints >= 4, f"only {n_prints} print sites found outside __main__ (floor 4)")


def check(run, prog):
    rule_catalogue(run, prog)
    rule_levels(run, prog)
    rule_positioned(run, prog)
    rule_order(run, prog)
    rule_formatters(run, prog)
    rule_prints(run, prog)
    from .c09_linesplit import rule_line_split
    rule_line_split(run, prog, "R-8.7")
    from .c08_container import rule_container_keeps_all
    rule_container_keeps_all(run, prog, "R-8.8")
    rule_same_names(run, prog)               # R-8.9
