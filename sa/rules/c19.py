"""C19 — diagnostics are local: unrelated text only shifts them (partial).  DESIGN.md §4.19."""
from __future__ import annotations

import ast
from typing import List, Optional, Set

from ..cfg import cfg_of
from ..facts import registry_model
from ..fold import fold_in_fn
from ..model import AnalysisError, Fn, ancestors, parent, text, walk_fn
from .c05 import _cfg_node_of_expr

POSITION_CALLS = ("Highlight", "H", "Token", "Error", "add_highlight", "from_token")


def _line_reads(prog):
    out = []
    # attributes that remember a line number
    line_attrs = set()
    for fn in prog.fns:
        for n in walk_fn(fn.node):
            if isinstance(n, ast.Assign) and (text(n.value).endswith(".pos[0]") or text(n.value).endswith(".lineno")):
                for t in n.targets:
                    if isinstance(t, ast.Attribute) and t.attr not in ("lineno",):
                        line_attrs.add(t.attr)
    for fn in prog.fns:
        rel = fn.mod.rel
        if not (rel.startswith("rules/") or rel in ("context.py", "registry.py")):
            continue
        for n in walk_fn(fn.node):
            if isinstance(n, ast.Subscript) and isinstance(n.ctx, ast.Load) and isinstance(n.slice, ast.Constant) and n.slice.value == 0 \
                    and _is_pos(fn, n.value):
                out.append((fn, n))                     # X.pos[0]   (also through `p = X.pos; p[0]`)
            elif isinstance(n, ast.Attribute) and (n.attr == "lineno" or n.attr in line_attrs) and isinstance(n.ctx, ast.Load):
                out.append((fn, n))
            elif isinstance(n, (ast.Assign, ast.For, ast.comprehension)):
                # line, column = X.pos   /   for line, column in (t.pos for ...): every use of `line` is a line read
                tgts = n.targets if isinstance(n, ast.Assign) else [n.target]
                val = n.value if isinstance(n, ast.Assign) else None
                for t in tgts:
                    if isinstance(t, (ast.Tuple, ast.List)) and len(t.elts) == 2 and isinstance(t.elts[0], ast.Name) \
                            and val is not None and _is_pos(fn, val):
                        out += [(fn, u) for u in _uses_reached(fn, n, t.elts[0].id)]
    return out


def _is_pos(fn, e) -> bool:
    from ..dataflow import expand_aliases
    x = expand_aliases(fn, e)
    return isinstance(x, ast.Attribute) and x.attr == "pos"


def _uses_reached(fn, def_stmt, name: str):
    """Load occurrences of *name* in fn that the binding made by *def_stmt* reaches."""
    from ..dataflow import _rd_of, cfg_node_of
    g, rd = _rd_of(fn)
    d = cfg_node_of(g, def_stmt)
    out = []
    for u in walk_fn(fn.node):
        if isinstance(u, ast.Name) and u.id == name and isinstance(u.ctx, ast.Load):
            at = cfg_node_of(g, u)
            if d is None or at is None or d in rd.get(at, {}).get(name, set()):
                out.append(u)
    return sorted(out, key=lambda x: (x.lineno, x.col_offset))


def _role_of_line(fn: Fn, node, depth=0) -> List[tuple]:
    """Roles of a line-number value: POSITION / SAME_LINE / MESSAGE / violation text."""
    if depth > 6:
        return [("?", "too deep")]
    p = parent(node)
    for a in ancestors(node):
        if isinstance(a, ast.Raise) or (isinstance(a, ast.Call) and (text(a.func) == "print" or text(a.func).endswith("dprint"))):
            return [("MESSAGE", None)]
        if isinstance(a, ast.stmt):
            break
    if isinstance(p, ast.keyword) and p.arg == "start" and isinstance(parent(p), ast.Call) and text(parent(p).func) == "enumerate":
        loop = parent(parent(p))
        if isinstance(loop, (ast.For, ast.comprehension)) and isinstance(loop.target, (ast.Tuple, ast.List)) and loop.target.elts:
            iv = loop.target.elts[0]
            out = []
            if isinstance(iv, ast.Name):
                for x in walk_fn(fn.node):
                    if isinstance(x, ast.Name) and x.id == iv.id and isinstance(x.ctx, ast.Load):
                        out += _role_of_line(fn, x, depth + 1)
            return out or [("POSITION", "unused index")]
        return [("?", "enumerate(start=) not in a for loop")]
    if isinstance(p, ast.Call) and (any(a is node for a in p.args) or any(k.value is node for k in p.keywords)):
        f = text(p.func).split(".")[-1]
        if f in POSITION_CALLS:
            return [("POSITION", f)]
        if f in ("str", "repr"):
            return [("MESSAGE", "converted to text")]
        if f == "format" and isinstance(p.func, ast.Attribute) and isinstance(p.func.value, ast.Constant) and isinstance(p.func.value.value, str):
            return [("MESSAGE", "str.format argument")]
        if isinstance(p.func, ast.Attribute) and p.func.attr in ("add", "append", "discard", "remove", "count", "index", "setdefault",
                                                                 "get", "__contains__") and _local_container(fn, p.func.value):
            # remembered in / looked up in a container that lives for this run() only: equality between line numbers of the
            # same statement (report once per line), invariant when every line moves by the same amount
            return [("SAME_LINE", f"{p.func.attr} on the local container {text(p.func.value)}")]
        return [("?", f"argument of {text(p.func)}")]
    if isinstance(p, ast.Starred):
        return _role_of_line(fn, p, depth + 1)
    if isinstance(p, ast.Tuple):
        gp = parent(p)
        if isinstance(gp, ast.Assign) and gp.value is p and any(isinstance(t, ast.Attribute) and t.attr == "pos" for t in gp.targets):
            return [("POSITION", "token.pos")]
        return _role_of_line(fn, p, depth + 1)
    if isinstance(p, ast.Subscript) and p.slice is node:
        return [("SAME_LINE", f"key of {text(p.value)}")]
    if isinstance(p, ast.Compare) and len(p.ops) == 1:
        other = p.comparators[0] if p.left is node else p.left
        op = p.ops[0]
        const = fold_in_fn(other, fn, default=None)
        if (isinstance(const, (dict, list, set, frozenset, tuple)) and isinstance(other, ast.Name)) or _local_container(fn, other):
            const = None            # a local container (filled with line numbers at run time), not a constant
        if isinstance(op, (ast.In, ast.NotIn, ast.Eq, ast.NotEq)) and const is None:
            return [("SAME_LINE", text(other))]
        return [("ABSOLUTE", f"`{text(p)}`: a line number is compared with a constant / ordered")]
    if isinstance(p, ast.BinOp):
        if isinstance(p.op, ast.Sub):
            other = p.right if p.left is node else p.left
            kind = _line_valued(other)
            if kind == "line":
                return [("DIFFERENCE", text(p))]            # line - line: invariant under insertion of lines above both
            if kind == "maybe-constant":
                return [("ABSOLUTE", f"`{text(p)}`: a line number minus `{text(other)}`, which is a line number on some paths "
                                     f"but a constant default on others (then the result is the absolute line)")]
        if isinstance(p.op, (ast.Add, ast.Sub)):
            r = _role_of_line(fn, p, depth + 1)
            return r
        return [("ABSOLUTE", f"`{text(p)}`: arithmetic on a line number")]
    if isinstance(p, (ast.FormattedValue, ast.JoinedStr)):
        # formatted into a piece of text: whatever is done with the text afterwards (joined, printed, stored as a message),
        # the number itself is only shown
        return [("MESSAGE", "formatted into a string")]
    if isinstance(p, ast.BinOp) and isinstance(p.op, ast.Mod) and (p.right is node or (isinstance(p.right, ast.Tuple) and node in p.right.elts)) \
            and isinstance(p.left, ast.Constant) and isinstance(p.left.value, str):
        return [("MESSAGE", "%-formatted into a string")]
    if isinstance(p, ast.Assign) and p.value is node and any(isinstance(t, ast.Attribute) for t in p.targets):
        return [("STORE", text(p.targets[0]))]       # remembered in an attribute: its reads are line reads too (see _line_reads)
    if isinstance(p, ast.Assign) and p.value is node and len(p.targets) == 1 and isinstance(p.targets[0], ast.Name):
        out = []
        for x in walk_fn(fn.node):
            if isinstance(x, ast.Name) and x.id == p.targets[0].id and isinstance(x.ctx, ast.Load) and x.lineno >= p.lineno:
                out += _role_of_line(fn, x, depth + 1)
        return out
    if isinstance(p, ast.keyword):
        gp = parent(p)
        if isinstance(gp, ast.Call) and text(gp.func).split(".")[-1] in POSITION_CALLS:
            return [("POSITION", text(gp.func))]
    if isinstance(p, (ast.If, ast.While, ast.BoolOp, ast.UnaryOp)):
        return [("ABSOLUTE", "truthiness of a line number")]
    return [("?", type(p).__name__)]


def _local_container(fn: Fn, e) -> bool:
    """*e* is a local of *fn* whose every binding creates a fresh empty container ({} / [] / set() / dict() / list() / a
    collections.* constructor without arguments): it holds nothing but what this activation puts into it."""
    if not isinstance(e, ast.Name) or e.id in fn.params:
        return False
    defs = []
    for n in walk_fn(fn.node):
        if isinstance(n, ast.Assign) and any(isinstance(x, ast.Name) and x.id == e.id for t in n.targets for x in ast.walk(t)):
            defs.append(n.value if len(n.targets) == 1 and isinstance(n.targets[0], ast.Name) else None)
        elif isinstance(n, (ast.AugAssign, ast.AnnAssign)) and isinstance(n.target, ast.Name) and n.target.id == e.id:
            defs.append(n.value if isinstance(n, ast.AnnAssign) else None)
        elif isinstance(n, (ast.For, ast.comprehension)) and any(isinstance(x, ast.Name) and x.id == e.id for x in ast.walk(n.target)):
            defs.append(None)

    def fresh(v) -> bool:
        if isinstance(v, (ast.List, ast.Set, ast.Tuple)):
            return not v.elts
        if isinstance(v, ast.Dict):
            return not v.keys
        return isinstance(v, ast.Call) and not v.args and not v.keywords and text(v.func).split(".")[-1] in (
            "set", "dict", "list", "OrderedDict", "defaultdict", "deque", "Counter")
    return bool(defs) and all(v is not None and fresh(v) for v in defs)


def _line_valued(e) -> str:
    """'line' if the expression always holds a line number, 'maybe-constant' if it is an attribute that is also
    initialised to a constant, 'other' otherwise."""
    t = text(e)
    if t.endswith(".pos[0]") or t.endswith(".lineno"):
        return "line"
    if isinstance(e, ast.Attribute):
        from ..model import program
        prog = program()
        vals = []
        for f in prog.fns:
            for n in walk_fn(f.node):
                if isinstance(n, ast.Assign):
                    for tg in n.targets:
                        if isinstance(tg, ast.Attribute) and tg.attr == e.attr:
                            vals.append(n.value)
        if vals:
            kinds = {("line" if (text(v).endswith(".pos[0]") or text(v).endswith(".lineno")) else
                      "const" if isinstance(v, ast.Constant) else "other") for v in vals}
            if kinds == {"line"}:
                return "line"
            if "line" in kinds and "const" in kinds and "other" not in kinds:
                return "maybe-constant"
    return "other"


def rule_lines_opaque(run, prog):
    run.rule("R-19.1", "TAINT line coordinate: every read of a token's / highlight's line number in rules, Context and the "
             "registry is used as a POSITION (handed to a Highlight / Token / Error), for a SAME-LINE test against another "
             "line number, or in a MESSAGE; never compared with a constant, ordered or computed with", floor=3)
    n = 0
    for fn, node in _line_reads(prog):
        n += 1
        roles = _role_of_line(fn, node)
        bad = [d for r, d in roles if r in ("ABSOLUTE", "?")]
        run.ob("R-19.1", f"{fn.key}::line-read[{text(node, 40)}]", not bad,
               "a rule depends on the absolute line number: " + "; ".join(str(b) for b in bad)
               + " - putting the 11 header lines (or any line) in front changes its answer", node,
               roles=[f"{r}:{d}" for r, d in roles])
    run.require(n >= 3, f"only {n} line-number reads found (floor 3)")


ASSUME = None   # set per evaluation: the kind of the last statement


_UNK = object()          # unknown value
_SOME = object()         # a non-empty container / positive number of unknown content


def _callfree(e) -> bool:
    return not any(isinstance(x, (ast.Call, ast.Await, ast.Yield, ast.YieldFrom, ast.NamedExpr, ast.Lambda)) for x in ast.walk(e))


def _pe(e, last: str, assume_global: bool):
    """Value of *e* under the assumption: the statement history is not empty and its last element equals the string *last*;
    (assume_global) the current scope is the GlobalScope.  A Python value, _SOME (truthy, content unknown) or _UNK."""
    if isinstance(e, ast.Constant):
        return e.value
    t = text(e)
    if t in ("context.history[-1]", "self.history[-1]", "context.history[len(context.history) - 1]"):
        return last
    if t in ("context.history", "self.history", "len(context.history)", "len(self.history)"):
        return _SOME
    if assume_global and t in ("context.scope.name", "self.scope.name", "type(context.scope).__name__"):
        return "GlobalScope"
    if isinstance(e, (ast.Tuple, ast.List, ast.Set)):
        vals = [_pe(x, last, assume_global) for x in e.elts]
        return _UNK if any(v is _UNK or v is _SOME for v in vals) else tuple(vals)
    if isinstance(e, ast.UnaryOp) and isinstance(e.op, ast.Not):
        v = _pe(e.operand, last, assume_global)
        return _UNK if v is _UNK else (False if v is _SOME else not v)
    if isinstance(e, ast.BoolOp):
        vals = [_pe(v, last, assume_global) for v in e.values]
        truth = [None if v is _UNK else True if v is _SOME else bool(v) for v in vals]
        if isinstance(e.op, ast.And):
            if any(x is False for x in truth):
                return False
            if all(x is True for x in truth):
                return vals[-1] if vals[-1] is not _SOME else True
            # known-true operands drop out; the value is that of the rest
            return _UNK
        if any(x is True for x in truth):
            # the first truthy operand decides only if everything before it is known false
            for v, x in zip(vals, truth):
                if x is True:
                    return v if v is not _SOME else True
                if x is None:
                    return _UNK
        if all(x is False for x in truth):
            return vals[-1]
        return _UNK
    if isinstance(e, ast.IfExp):
        c = _pe(e.test, last, assume_global)
        if c is _UNK:
            a, b = _pe(e.body, last, assume_global), _pe(e.orelse, last, assume_global)
            return a if (a is not _UNK and a is not _SOME and a == b) else _UNK
        return _pe(e.body if (c is _SOME or c) else e.orelse, last, assume_global)
    if isinstance(e, ast.Compare) and len(e.ops) == 1:
        L, op, R = e.left, e.ops[0], e.comparators[0]
        if assume_global and text(L) in ("type(context.scope)", "type(self.scope)", "context.scope.__class__") and text(R) == "GlobalScope":
            if isinstance(op, (ast.Is, ast.Eq)):
                return True
            if isinstance(op, (ast.IsNot, ast.NotEq)):
                return False
        a, b = _pe(L, last, assume_global), _pe(R, last, assume_global)
        if a is _SOME and isinstance(b, int) and not isinstance(b, bool):
            # len(history) against a constant: the history holds at least one element
            if isinstance(op, ast.Gt) and b <= 0 or isinstance(op, ast.GtE) and b <= 1 or isinstance(op, ast.NotEq) and b == 0:
                return True
            if isinstance(op, ast.Eq) and b == 0 or isinstance(op, ast.Lt) and b <= 1 or isinstance(op, ast.LtE) and b <= 0:
                return False
            return _UNK
        if a is _SOME and isinstance(op, (ast.Eq, ast.NotEq)) and b == ():
            return isinstance(op, ast.NotEq)                 # history != []
        if a is _UNK or b is _UNK or a is _SOME or b is _SOME:
            return _UNK
        try:
            if isinstance(op, ast.Eq):
                return a == b
            if isinstance(op, ast.NotEq):
                return a != b
            if isinstance(op, ast.In):
                return a in b
            if isinstance(op, ast.NotIn):
                return a not in b
            if isinstance(op, ast.Is):
                return a is b if (a is None or b is None) else _UNK
            if isinstance(op, ast.IsNot):
                return a is not b if (a is None or b is None) else _UNK
        except TypeError:
            return _UNK
        return _UNK
    if assume_global and isinstance(e, ast.Call) and text(e.func) == "isinstance" and len(e.args) == 2 \
            and text(e.args[0]) in ("context.scope", "self.scope") and text(e.args[1]) == "GlobalScope":
        return True
    return _UNK


def _test_value(test, last: str, assume_global: bool = True, fn=None) -> Optional[bool]:
    """Truth of a test under the assumption: context.history[-1] == last, the current scope is the GlobalScope.
    With *fn* (the function the test belongs to) local aliases such as `history = context.history`, `last = history[-1]`,
    `previous = history[-1] if history else None`, `scope = context.scope` are seen through (reaching definitions), and
    constants are folded (names of tuples / strings).  None = not decided."""
    if fn is not None:
        from ..dataflow import expand_aliases
        test = _fold_constants(fn, expand_aliases(fn, _expand_quantifiers(fn, test), accept=_callfree_or_len))
    v = _pe(test, last, assume_global)
    if v is _UNK:
        return None
    return True if v is _SOME else bool(v)


def _expand_quantifiers(fn, test):
    """`any(<test over x> for x in T)` / `all(...)` with T a foldable finite tuple of strings is the disjunction / conjunction
    of the instances: rewritten so, so that a chain of comparisons and its comprehension form read alike."""
    from ..dataflow import _clone

    class Sub(ast.NodeTransformer):
        def __init__(self, name, value):
            self.name, self.value = name, value

        def visit_Name(self, node):
            if node.id == self.name and isinstance(node.ctx, ast.Load):
                return ast.copy_location(ast.Constant(self.value), node)
            return node
    repl = {}
    for c in ast.walk(test):
        if isinstance(c, ast.Call) and isinstance(c.func, ast.Name) and c.func.id in ("any", "all") and len(c.args) == 1 \
                and isinstance(c.args[0], (ast.GeneratorExp, ast.ListComp)) and len(c.args[0].generators) == 1:
            gen = c.args[0].generators[0]
            if gen.ifs or not isinstance(gen.target, ast.Name):
                continue
            vals = fold_in_fn(gen.iter, fn, default=None)
            if not (isinstance(vals, (tuple, list, set, frozenset)) and vals and all(isinstance(v, str) for v in vals)) or len(vals) > 16:
                continue
            import copy
            parts = [ast.fix_missing_locations(Sub(gen.target.id, v).visit(copy.deepcopy(c.args[0].elt))) for v in sorted(vals)]
            repl[id(c)] = ast.BoolOp(ast.Or() if c.func.id == "any" else ast.And(), parts)
    if not repl:
        return test
    return _clone(test, repl)


def _callfree_or_len(e) -> bool:
    """Side-effect-free expressions a local may stand for: no calls except len(<path>)."""
    for x in ast.walk(e):
        if isinstance(x, ast.Call) and not (isinstance(x.func, ast.Name) and x.func.id == "len" and len(x.args) == 1):
            return False
        if isinstance(x, (ast.Await, ast.Yield, ast.YieldFrom, ast.NamedExpr, ast.Lambda, ast.ListComp, ast.GeneratorExp,
                          ast.SetComp, ast.DictComp)):
            return False
    return True


def _fold_constants(fn, test):
    """Right-hand sides of comparisons that are names / attribute reads of folded string or tuple constants are replaced
    by literals, so that `history[-1] in SKIPPED` (SKIPPED hoisted to module level) reads like the literal form."""
    repl = {}
    for c in ast.walk(test):
        if isinstance(c, ast.Compare) and len(c.ops) == 1:
            r = c.comparators[0]
            if isinstance(r, (ast.Name, ast.Attribute, ast.BinOp)):
                v = fold_in_fn(r, fn, default=None)
                if isinstance(v, str):
                    repl[id(r)] = ast.Constant(v)
                elif isinstance(v, (tuple, list, set, frozenset)) and all(isinstance(x, str) for x in v):
                    repl[id(r)] = ast.Tuple([ast.Constant(x) for x in sorted(v)], ast.Load())
    if not repl:
        return test
    from ..dataflow import _clone
    return _clone(test, repl)


def _context_locals(fn) -> Set[str]:
    """Locals of *fn* that denote (part of) the context: bound from a path / argument-less method call rooted at
    `context` or at another such local (`sc = context.scope`, `sc = sc.outer()`, `scope = context.scope`)."""
    from ..dataflow import is_path
    derived: Set[str] = set()

    def root(e):
        while isinstance(e, (ast.Attribute, ast.Subscript)):
            e = e.value
        return e.id if isinstance(e, ast.Name) else None

    changed = True
    while changed:
        changed = False
        for n in walk_fn(fn.node):
            if isinstance(n, ast.Assign) and len(n.targets) == 1 and isinstance(n.targets[0], ast.Name):
                v = n.value
                if isinstance(v, ast.Call) and not v.args and not v.keywords and isinstance(v.func, ast.Attribute):
                    v = v.func.value
                if is_path(v) and not isinstance(v, ast.Name) or isinstance(v, ast.Name) and v.id in derived:
                    r = root(v)
                    if (r == "context" or r in derived) and n.targets[0].id not in derived:
                        derived.add(n.targets[0].id)
                        changed = True
    return derived


def _is_context_store(t, derived: Set[str]) -> bool:
    if not isinstance(t, ast.Attribute):
        return False
    e = t.value
    while isinstance(e, (ast.Attribute, ast.Subscript)):
        e = e.value
    return isinstance(e, ast.Name) and (e.id in ("context", "sc") or e.id in derived)


ALLOWED_ATTRS = {"lines", "header", "header_started", "header_parsed", "tkn_scope", "state", "comment", "hash"}


def _header_attrs(prog, fn):
    """CheckHeader's own state (whatever its attributes are called: R-13.4 owns their discovery), exempt inside check_header.py."""
    if fn.mod.rel != "rules/check_header.py":
        return set()
    from .c13 import header_state_attrs
    return header_state_attrs(prog)


def rule_transparent(run, prog):
    run.rule("R-19.3", "comments and empty lines are transparent at file level: Context.update returns before any scope "
             "store when the last statement is IsEmptyLine / IsComment / IsPreprocessorStatement; IsComment and IsEmptyLine "
             "store nothing into the context; in every check that can run after a comment or an empty line, each store to "
             "context / scope state (other than the line counter and CheckHeader's own flags) is unreachable under the "
             "assumption `last statement is a comment (resp. an empty line), scope is the GlobalScope`", floor=8)
    up = prog.method("Context", "update")
    run.require(up is not None, "anchor vanished: Context.update")
    g = cfg_of(up)
    stores = [n for n in walk_fn(up.node) if isinstance(n, (ast.Assign, ast.AugAssign)) and any(
        isinstance(t, ast.Attribute) and text(t.value) == "self" for t in (n.targets if isinstance(n, ast.Assign) else [n.target]))]
    run.require(len(stores) >= 3, "anchor vanished: stores of Context.update")
    for last in ("IsEmptyLine", "IsComment", "IsPreprocessorStatement"):
        blocked = {}
        for node in g.nodes:
            if node.kind == "test":
                v = _test_value(_strip_len_guard(node.ast, up), last, fn=up)
                if v is not None:
                    blocked[node.id] = "F" if v else "T"
        reach = g.reachable(g.entry, follow_exc=False, edge_filter=lambda n, m, lab: not (n in blocked and lab == blocked[n]))
        hit = [s for s in stores if g.nid(s) in reach]
        run.ob("R-19.3", f"{up.key}::transparent[{last}]", not hit,
               f"Context.update can change the scope after a {last} statement: " + ", ".join(text(s, 40) for s in hit[:3]),
               hit[0] if hit else up.node)
    rm = registry_model(prog)
    for cname in ("IsComment", "IsEmptyLine"):
        m = prog.method(cname, "run")
        bad = [n for n in walk_fn(m.node) if isinstance(n, (ast.Assign, ast.AugAssign)) and any(
            isinstance(t, ast.Attribute) and text(t).startswith("context.") for t in (n.targets if isinstance(n, ast.Assign) else [n.target]))]
        run.ob("R-19.3", f"{m.key}::no-context-store", not bad,
               f"{cname}.run stores into the context: " + ", ".join(text(b, 40) for b in bad[:3]), bad[0] if bad else m.node)
    n_checks = 0
    for c in rm.checks:
        slots = set(rm.live_slots(c.name))
        lasts = [k for k in ("IsComment", "IsEmptyLine") if k in slots or "_rule" in slots]
        if not lasts:
            continue
        for m in c.methods.values():
            st = []
            derived = _context_locals(m)
            for n in walk_fn(m.node):
                if isinstance(n, (ast.Assign, ast.AugAssign)):
                    for t in (n.targets if isinstance(n, ast.Assign) else [n.target]):
                        for sub in ([t] + (list(t.elts) if isinstance(t, (ast.Tuple, ast.List)) else [])):
                            if _is_context_store(sub, derived) and sub.attr not in (ALLOWED_ATTRS | _header_attrs(prog, m)) and not any(n is x for x in st):
                                st.append(n)
            if not st:
                continue
            n_checks += 1
            gg = cfg_of(m)
            for last in lasts:
                blocked = {}
                for node in gg.nodes:
                    if node.kind == "test":
                        v = _test_value(_strip_len_guard(node.ast, m), last, fn=m)
                        if v is not None:
                            blocked[node.id] = "F" if v else "T"
                reach = gg.reachable(gg.entry, follow_exc=False, edge_filter=lambda n, m_, lab: not (n in blocked and lab == blocked[n]))
                hit = [s for s in st if gg.nid(s) in reach]
                run.ob("R-19.3", f"{m.key}::transparent[{last}]", not hit,
                       f"{c.name} can change shared context/scope state right after a {last} statement at file level: "
                       + ", ".join(text(s, 50) for s in hit[:3]) + " - inserting such a line changes later diagnostics",
                       hit[0] if hit else m.node)
    run.require(n_checks >= 1, "no storing check found that runs after comments / empty lines (expected CheckLineIndent)")


def _strip_len_guard(test, fn=None):
    """`len(self.history) > 0 and (...)` -> `(...)`: the length guard holds whenever a statement has been recognised."""
    if fn is not None:
        from ..dataflow import expand_aliases
        test = expand_aliases(fn, test)
    if isinstance(test, ast.BoolOp) and isinstance(test.op, ast.And) and len(test.values) == 2 \
            and text(test.values[0]).replace("self.", "context.") in ("len(context.history) > 0", "len(context.history) >= 1",
                                                                       "len(context.history) != 0", "context.history"):
        return test.values[1]
    return test


def check(run, prog):
    rule_lines_opaque(run, prog)
    from .c13 import rule_isolation
    rule_isolation(run, prog)                 # R-19.2 = R-13.4
    rule_transparent(run, prog)
    from .c03 import rule_counters, rule_thresholds
    try:
        rule_thresholds(run, prog)            # R-19.4 = R-3.1 / R-3.2 (fifth-function boundary among them)
    except AnalysisError as e:
        run.rule("R-3.1", "see C03", floor=0)
        run.note(f"R-3.1 could not be evaluated here (decided under C03): {e}")
    rule_counters(run, prog)
    from .c19_lookback import rule_lookback
    rule_lookback(run, prog)             # R-19.5
    from .c19_toplevel_comment import rule_toplevel_comment
    rule_toplevel_comment(run, prog)     # R-19.6
    from .c14_history import rule_history_append_only
    rule_history_append_only(run, prog, "R-19.7")
    from .c19_comment_before_brace import rule_comment_before_brace
    rule_comment_before_brace(run, prog)  # R-19.8
