"""C14 — include-guard validation follows the file name (partial).  DESIGN.md §4.14."""
from __future__ import annotations

import ast
from typing import List, Optional, Tuple

from ..cfg import cfg_of
from ..facts import emission_sites, registry_model, trivially_dead, value_set, live_function_keys
from ..fold import try_fold
from ..minieval import Unsupported
from ..model import AnalysisError, ancestors, parent, text, walk_fn
from .c05 import _cfg_node_of_expr

PROT_CODES = ["HEADER_PROT_ALL", "HEADER_PROT_ALL_AF", "HEADER_PROT_MULT", "HEADER_PROT_NAME", "HEADER_PROT_NODEF",
              "HEADER_PROT_UPPER"]
GUARD_HINT = {
    "HEADER_PROT_UPPER": (".upper()", "the macro equals the expected symbol up to case"),
    "HEADER_PROT_NODEF": ("has_macro_defined", "the expected symbol was never #defined"),
    "HEADER_PROT_MULT": ("protected", "a guard was already closed"),
    "HEADER_PROT_ALL": ("history", "something precedes the #ifndef"),
    "HEADER_PROT_ALL_AF": ("peek_token", "something follows the closing #endif"),
}


def call_chain(e) -> Tuple[Optional[str], List[Tuple[str, List[str]]]]:
    """`base.m1(a).m2(b)` -> ("base", [("m1", ["a"]), ("m2", ["b"])])."""
    chain = []
    while isinstance(e, ast.Call) and isinstance(e.func, ast.Attribute):
        chain.append((e.func.attr, [text(a) for a in e.args] + [f"{k.arg}={text(k.value)}" for k in e.keywords]))
        e = e.func.value
    return text(e), list(reversed(chain))


OPENERS = {"if", "ifdef", "ifndef"}
CLOSERS = {"endif"}


def _directive_context(prog, f, n):
    """Directive spellings under which statement *n* of IsPreprocessorStatement executes: the `check_<direc>` handler it
    is in, or constant tests on `direc` around it in run(); None = not tied to a directive (any)."""
    if f.cls is None or f.cls.name != "IsPreprocessorStatement":
        return None
    if f.name.startswith("check_"):
        return {f.name[len("check_"):]}
    out = None
    for a in ancestors(n):
        if isinstance(a, ast.If) and isinstance(a.test, ast.Compare) and len(a.test.ops) == 1 and text(a.test.left) == "direc":
            in_body = any(x is n or any(y is n for y in ast.walk(x)) for x in a.body)
            v = try_fold(a.test.comparators[0], f.mod)
            vals = {v} if isinstance(v, str) else set(v) if isinstance(v, (tuple, list, set, frozenset)) else None
            op = a.test.ops[0]
            if vals is not None and in_body and isinstance(op, (ast.Eq, ast.In)):
                out = vals if out is None else out & vals
    return out


def rule_nesting_state(run, prog, fn):
    run.rule("R-14.5", "pairing: every piece of preprocessor state that the guard check reads and that a conditional-opening "
             "directive (#if / #ifdef / #ifndef) writes is also written by the closing directive (#endif) -- state that "
             "follows the nesting must be restored when a nested conditional closes (a single slot set on open describes "
             "the last conditional opened, not the one being closed)", floor=1)
    reads = set()
    for n in walk_fn(fn.node):
        if isinstance(n, ast.Attribute) and isinstance(n.ctx, ast.Load) and text(n.value) in ("context.preproc", "context"):
            reads.add((text(n.value), n.attr))
    # attributes of the PreProcessors object reached through its own methods (has_macro_defined reads self.macros ...)
    pp = prog.classes.get("PreProcessors")
    n_ob = 0
    for base, attr in sorted(reads):
        if base == "context" and attr in ("preproc", "file", "history", "tokens", "scope"):
            continue
        if pp is not None and base == "context.preproc" and attr in pp.methods and not any(
                "property" in d for d in pp.methods[attr].decorators):
            continue                                  # a method call, not state
        writes = []
        for f in prog.fns:
            for n in walk_fn(f.node):
                tg = n.targets if isinstance(n, ast.Assign) else [n.target] if isinstance(n, (ast.AugAssign, ast.AnnAssign)) else []
                hit = any(isinstance(t, ast.Attribute) and t.attr in (attr, "_" + attr) and
                          (text(t.value).endswith("preproc") if base == "context.preproc" else text(t.value) == "context")
                          for t in tg)
                if not hit and isinstance(n, ast.Call) and isinstance(n.func, ast.Attribute) \
                        and n.func.attr in ("append", "extend", "pop", "remove", "clear", "insert", "add", "discard", "update") \
                        and isinstance(n.func.value, ast.Attribute) and n.func.value.attr == attr \
                        and (text(n.func.value.value).endswith("preproc") if base == "context.preproc" else text(n.func.value.value) == "context"):
                    hit = True
                if hit:
                    writes.append((f, n, _directive_context(prog, f, n)))
        opens = [(f, n) for f, n, d in writes if d is not None and d & OPENERS]
        closes = [(f, n) for f, n, d in writes if d is not None and d & CLOSERS]
        n_ob += 1
        run.ob("R-14.5", f"{fn.key}::state[{base}.{attr}]", not opens or bool(closes),
               f"{base}.{attr} is read by the guard check and written when a conditional opens ("
               + ", ".join(f"{f.name}:{n.lineno}" for f, n in opens[:3]) + ") but never when one closes (#endif): after a nested "
               "conditional it still describes the nested one, so the closing #endif of the guard is misjudged",
               opens[0][1] if opens else fn.node, opening_writes=len(opens), closing_writes=len(closes))
    run.require(n_ob >= 2, f"only {n_ob} state attributes read by the guard check (expected preproc.indent, protected)")


# ---------------------------------------------------------------------------------------- the guard check, observed
def expected_guard(basename: str) -> str:
    return basename.upper().replace(".", "_")


def eval_protection(prog) -> dict:
    """CheckPreprocessorProtection.run interpreted (minieval, stub context) on `#ifndef X` / `#endif` statements for several
    header names: {"derivation": [...], "h_only": [...], "handlers": {code: [...]}} -- lists of problems.  Raises
    minieval.Unsupported when run() is outside the interpreter's subset."""
    from ..minieval import Obj
    from ..stubrun import RUNTIME_ERRORS, StubContext, default_object, line_tokens, run_rule
    out = {"derivation": [], "h_only": [], "handlers": {c: [] for c in PROT_CODES}}
    cls = "CheckPreprocessorProtection"

    def stmt(direc, macro=None, tail=()):
        ks = ["HASH", ("IDENTIFIER", direc)]
        if macro is not None:
            ks += ["SPACE", ("IDENTIFIER", macro)]
        ks += ["NEWLINE"] + list(tail)
        return line_tokens(ks)

    def run(basename, tokens, *, indent, protected=False, history=("IsPreprocessorStatement",), macros=()):
        sc = StubContext(prog, tokens, history=list(history), basename=basename, protected=protected)
        try:
            sc.obj.preproc = default_object(prog, "PreProcessors", sc)      # whatever state the class declares today
        except RUNTIME_ERRORS:
            pass
        sc.obj.preproc.indent = indent
        sc.obj.preproc._indent = indent
        sc.obj.preproc.macros = [Obj("Macro", name=m, is_func=False) for m in macros]
        try:
            run_rule(prog, cls, sc)
        except RUNTIME_ERRORS as e:
            raise Unsupported(f"the check fails on a stub statement: {type(e).__name__}: {e}")
        return [c for c in sc.codes() if c.startswith("HEADER_PROT_")], sc.obj

    for base in ("foo.h", "my_lib.v2.h", "a.h", "libft_bonus.h", "my-lib.h"):
        want = expected_guard(base)
        got, _ = run(base, stmt("ifndef", want), indent=1)
        if got:
            out["derivation"].append(f"{base}: `#ifndef {want}` is reported {got}")
        for wrong, why in ((want.lower(), "HEADER_PROT_UPPER"), (want.capitalize(), "HEADER_PROT_UPPER"),
                           (base.upper(), "HEADER_PROT_NAME") if "." not in want else (want + "_", "HEADER_PROT_NAME"),
                           (want + "_", "HEADER_PROT_NAME"), ("_" + want, "HEADER_PROT_NAME"),
                           (base.rsplit(".", 1)[0].upper(), "HEADER_PROT_NAME"), (want.replace("_", ""), "HEADER_PROT_NAME"),
                           ("GUARD_H", "HEADER_PROT_NAME")):
            if wrong == want:
                continue
            got, _ = run(base, stmt("ifndef", wrong), indent=1)
            if got != [why]:
                msg = f"{base}: `#ifndef {wrong}` (expected symbol {want}) is reported {got or 'not at all'}, expected {why}"
                out["handlers"][why].append(msg)
                if not got and why == "HEADER_PROT_NAME":
                    out["derivation"].append(msg)
        # .c: never
        cbase = base[:-2] + ".c"
        for toks, kw in ((stmt("ifndef", "WRONG_NAME"), dict(indent=1)), (stmt("ifndef", want), dict(indent=1, protected=True)),
                         (stmt("endif", None, ["INT", "SPACE", ("IDENTIFIER", "x"), "SEMI_COLON", "NEWLINE"]), dict(indent=0)),
                         (stmt("ifndef", "X_H"), dict(indent=1, history=("IsVarDeclaration", "IsPreprocessorStatement")))):
            got, _ = run(cbase, toks, **kw)
            if got:
                out["h_only"].append(f"{cbase}: a guard diagnostic {got} is emitted for a .c file")
        # doubled guard
        got, _ = run(base, stmt("ifndef", want), indent=1, protected=True)
        if "HEADER_PROT_MULT" not in got:
            out["handlers"]["HEADER_PROT_MULT"].append(f"{base}: a second `#ifndef {want}` after the guard was closed is reported {got or 'not at all'}")
        # declarations before the guard
        got, _ = run(base, stmt("ifndef", want), indent=1, history=("IsComment", "IsVarDeclaration", "IsEmptyLine", "IsPreprocessorStatement"))
        if "HEADER_PROT_ALL" not in got:
            out["handlers"]["HEADER_PROT_ALL"].append(f"{base}: a declaration before `#ifndef {want}` is reported {got or 'not at all'}")
        got, _ = run(base, stmt("ifndef", want), indent=1, history=("IsComment", "IsEmptyLine", "IsComment", "IsPreprocessorStatement"))
        if got:
            out["handlers"]["HEADER_PROT_ALL"].append(f"{base}: comments and empty lines before `#ifndef {want}` are reported {got}")
        # closing #endif
        tail = ["NEWLINE", "INT", "TAB", ("IDENTIFIER", "x"), "SEMI_COLON", "NEWLINE"]
        got, ctx = run(base, stmt("endif", None, tail), indent=0, macros=(want,))
        if got != ["HEADER_PROT_ALL_AF"]:
            out["handlers"]["HEADER_PROT_ALL_AF"].append(f"{base}: a declaration after the closing #endif is reported {got or 'not at all'}")
        if ctx.protected is not True:
            out["handlers"]["HEADER_PROT_ALL_AF"].append(f"{base}: the closing #endif does not mark the header as protected")
        got, _ = run(base, stmt("endif", None, [("COMMENT", "// end"), "NEWLINE"]), indent=0, macros=(want,))
        if got:
            out["handlers"]["HEADER_PROT_ALL_AF"].append(f"{base}: a comment after the closing #endif is reported {got}")
        got, _ = run(base, stmt("endif"), indent=0, macros=("OTHER_H",))
        if got != ["HEADER_PROT_NODEF"]:
            out["handlers"]["HEADER_PROT_NODEF"].append(f"{base}: a guard whose symbol {want} was never #defined is reported {got or 'not at all'}")
        got, _ = run(base, stmt("endif"), indent=1, macros=())
        if got:
            out["handlers"]["HEADER_PROT_NODEF"].append(f"{base}: the #endif of a nested conditional (depth 1) is reported {got}")
    for k in ("derivation", "h_only"):
        out[k] = sorted(set(out[k]), key=out[k].index)
    for c in out["handlers"]:
        out["handlers"][c] = sorted(set(out["handlers"][c]), key=out["handlers"][c].index)
    return out



def _unit_step(n) -> int:
    """+1 / -1 for `x += 1`, `x -= 1`, `x = x + 1`, `x = x - 1`, `x += -1`; 0 otherwise."""
    def const(e):
        if isinstance(e, ast.Constant) and isinstance(e.value, int):
            return e.value
        if isinstance(e, ast.UnaryOp) and isinstance(e.op, ast.USub) and isinstance(e.operand, ast.Constant):
            return -e.operand.value
        return None
    if isinstance(n, ast.AugAssign) and isinstance(n.op, (ast.Add, ast.Sub)) and const(n.value) is not None:
        k = const(n.value) * (1 if isinstance(n.op, ast.Add) else -1)
        return k if k in (1, -1) else 0
    if isinstance(n, ast.Assign) and len(n.targets) == 1 and isinstance(n.value, ast.BinOp) and isinstance(n.value.op, (ast.Add, ast.Sub)):
        t = text(n.targets[0])
        a, b = n.value.left, n.value.right
        if text(a) == t and const(b) is not None:
            k = const(b) * (1 if isinstance(n.value.op, ast.Add) else -1)
            return k if k in (1, -1) else 0
        if text(b) == t and const(a) == 1 and isinstance(n.value.op, ast.Add):
            return 1
    return 0


def _setter_clamps(setter) -> bool:
    """The indent setter interpreted for a few values: stores max(0, value)."""
    from ..minieval import Evaluator, Obj
    try:
        for v in (-5, -1, 0, 1, 7):
            me = Obj("PreProcessors")          # whatever the backing attribute is called: the setter creates it
            ev = Evaluator({})
            ev.invoke(setter.node, [me, v], {})
            stored = [x for k, x in me.__dict__.items() if k not in ("_cls",) and isinstance(x, int) and not isinstance(x, bool)]
            if stored != [max(0, v)]:
                return False
        return True
    except (Unsupported, LookupError, TypeError, ValueError, AttributeError):
        return False



def _file_init_observed(prog, fi) -> bool:
    """File.__init__ interpreted on stub paths: basename / name / type are the last path component and its split."""
    import os.path
    from ..minieval import Evaluator, Obj
    try:
        for path, want in (("dir/sub/foo.h", ("foo.h", "foo", ".h")), ("a.c", ("a.c", "a", ".c")), ("/x/my.lib.h", ("my.lib.h", "my.lib", ".h"))):
            pathmod = Obj("module", _native={"basename": os.path.basename, "splitext": os.path.splitext, "split": os.path.split,
                                             "dirname": os.path.dirname, "join": os.path.join})
            ev = Evaluator({}, modules={"os": {"path": pathmod}})
            ev.globals["Errors"] = lambda *a, **k: Obj("Errors")
            # the path helpers however the module imports them: `from os.path import basename`, `import os.path as osp`,
            # `from os import path`, pathlib.PurePath
            import pathlib
            for alias, (src, orig) in fi.mod.imports.items():
                if src in ("os.path", "posixpath") and orig is not None and hasattr(os.path, orig):
                    ev.globals[alias] = getattr(os.path, orig)
                elif src in ("os.path", "posixpath") and orig is None and alias != "os":
                    ev.modules[alias] = {k: getattr(os.path, k) for k in ("basename", "splitext", "split", "dirname", "join")}
                elif src == "os" and orig == "path":
                    ev.modules[alias] = {k: getattr(os.path, k) for k in ("basename", "splitext", "split", "dirname", "join")}
                elif src == "pathlib" and orig in ("Path", "PurePath", "PurePosixPath"):
                    ev.globals[alias] = pathlib.PurePosixPath
            me = Obj("File")
            ev.invoke(fi.node, [me, path], {})
            if (me.__dict__.get("basename"), me.__dict__.get("name"), me.__dict__.get("type")) != want:
                return False
        return True
    except (Unsupported, LookupError, TypeError, ValueError, AttributeError):
        return False



def check(run, prog):
    cp = prog.cls("CheckPreprocessorProtection")
    fn = cp.methods.get("run")
    run.require(fn is not None, "anchor vanished: CheckPreprocessorProtection.run")
    g = cfg_of(fn)
    _ev = {}

    def observed():
        """The behaviour of run() on stub statements (computed once; None when it cannot be interpreted)."""
        if "r" not in _ev:
            try:
                _ev["r"] = eval_protection(prog)
            except Unsupported as ex:
                _ev["r"] = None
                run.note(f"CheckPreprocessorProtection.run cannot be interpreted on stub statements ({ex}); syntactic forms only")
        return _ev["r"]

    def rescued(part, code=None) -> bool:
        """The syntactic form was not recognised: does the behaviour on stub statements show the obligation holds?"""
        r = observed()
        if r is None:
            return False
        probs = r[part] if code is None else r[part][code]
        if not probs:
            run.note(f"R-14: form not recognised for {part}{'/' + code if code else ''}, but run() interpreted on stub "
                     f"`#ifndef` / `#endif` statements of five header names behaves as required: accepted")
        return not probs

    # ---- R-14.1 ---------------------------------------------------------------------------------
    run.rule("R-14.1", "derivation chain: the symbol the guard macro is compared with derives from context.file.basename "
             "through exactly upper() and replace('.', '_'); File.basename is the base name of the path", floor=3)
    # names compared with the macro token's value
    macro_names = {n.targets[0].id for n in walk_fn(fn.node) if isinstance(n, ast.Assign) and len(n.targets) == 1
                   and isinstance(n.targets[0], ast.Name) and text(n.value).endswith(".value") and "peek_token" in text(n.value)}
    compared = set()
    for n in walk_fn(fn.node):
        if isinstance(n, ast.Compare) and len(n.ops) == 1 and isinstance(n.ops[0], (ast.Eq, ast.NotEq)):
            sides = [n.left, n.comparators[0]]
            for a, b in (sides, sides[::-1]):
                if any(isinstance(x, ast.Name) and x.id in macro_names for x in ast.walk(a)) and isinstance(b, ast.Name):
                    compared.add(b.id)
                elif any(isinstance(x, ast.Name) and x.id in macro_names for x in ast.walk(a)) and not isinstance(b, ast.Name):
                    compared.add("<expr>" + text(b))
        if isinstance(n, ast.Call) and isinstance(n.func, ast.Attribute) and n.func.attr == "has_macro_defined" and n.args:
            compared.add(n.args[0].id if isinstance(n.args[0], ast.Name) else "<expr>" + text(n.args[0]))
    run.ob("R-14.1", f"{fn.key}::single-expected-symbol",
           (len(compared) == 1 and not next(iter(compared)).startswith("<expr>")) or rescued("derivation"),
           f"the macro is compared with {sorted(compared)}: expected one local holding the symbol derived from the file name",
           fn.node)
    gname = next(iter(compared)) if compared else "guard"
    defs = [n for n in walk_fn(fn.node) if isinstance(n, ast.Assign) and any(isinstance(t, ast.Name) and t.id == gname for t in n.targets)]
    ok = len(defs) == 1
    why = "no single definition"
    if ok:
        base, chain = call_chain(defs[0].value)
        # inline one level of helper:  guard = expected_guard(context.file.basename)
        if not chain and isinstance(defs[0].value, ast.Call) and isinstance(defs[0].value.func, (ast.Name, ast.Attribute)):
            from ..calls import callgraph
            for c in callgraph(prog).calls_of.get(fn.key, []):
                if c.node is defs[0].value and len(c.targets) == 1 and len(defs[0].value.args) == 1:
                    h = c.targets[0]
                    rets = [x for x in walk_fn(h.node) if isinstance(x, ast.Return)]
                    if len(rets) == 1 and rets[0].value is not None:
                        b2, chain = call_chain(rets[0].value)
                        pnames = [p for p in h.params if p not in ("self", "cls")]
                        base = text(defs[0].value.args[0]) if pnames and b2 == pnames[0] else b2
        meths = sorted(m for m, _ in chain)
        rep = [a for m, a in chain if m == "replace"]
        ok = base == "context.file.basename" and meths == ["replace", "upper"] and rep and rep[0] == ["'.'", "'_'"]
        why = f"derived as {text(defs[0].value)}"
    run.ob("R-14.1", f"{fn.key}::expected-symbol-derivation", ok or rescued("derivation"),
           f"the expected guard symbol is not basename.upper().replace('.', '_') ({why})", defs[0] if defs else fn.node)
    fi = prog.method("File", "__init__")
    ok = any(isinstance(n, ast.Assign) and text(n.targets[0]) == "self.basename" and text(n.value) == "os.path.basename(path)"
             for n in walk_fn(fi.node))
    ok2 = any(isinstance(n, ast.Assign) and text(n.targets[0]) == "(self.name, self.type)" and
              text(n.value) == "os.path.splitext(self.basename)" for n in walk_fn(fi.node))
    if not (ok and ok2):
        ok = ok2 = _file_init_observed(prog, fi)
    run.ob("R-14.1", f"{fi.key}::basename-and-type", ok and ok2,
           "File.basename / File.type are not os.path.basename(path) / the extension of the base name", fi.node)

    # ---- R-14.2 ------------------------------------------------------------------------------------
    run.rule("R-14.2", "dominance: every HEADER_PROT_* emission is reachable only through the `.h` outcome of a test on "
             "context.file.type", floor=4)
    h_edges = {}
    from ..dataflow import expand_aliases
    from ..fold import fold_in_fn
    for node in g.nodes:
        if node.kind != "test":
            continue
        t = expand_aliases(fn, node.ast)
        neg = False
        while isinstance(t, ast.UnaryOp) and isinstance(t.op, ast.Not):
            t, neg = t.operand, not neg
        if isinstance(t, ast.Compare) and len(t.ops) == 1:
            L, op, R = t.left, t.ops[0], t.comparators[0]
            if text(L) != "context.file.type" and text(R) == "context.file.type" and isinstance(op, (ast.Eq, ast.NotEq)):
                L, R = R, L
            if text(L) == "context.file.type":
                v = fold_in_fn(R, fn, default=None)
                only_h = v == ".h" or (isinstance(v, (tuple, list, set, frozenset)) and set(v) == {".h"})
                if only_h and isinstance(op, (ast.Eq, ast.In)):
                    h_edges[node.id] = "F" if neg else "T"
                elif only_h and isinstance(op, (ast.NotEq, ast.NotIn)):
                    h_edges[node.id] = "T" if neg else "F"
    live = live_function_keys(prog)
    by_code = {}
    for e in emission_sites(prog):
        if e.code_expr is None or (e.fn.cls is not None and e.fn.cls.name == "Context") or e.fn.mod.rel == "errors.py":
            continue
        vs = value_set(prog, e.fn, e.code_expr) or set()
        for v in vs:
            if v.startswith("HEADER_PROT_"):
                by_code.setdefault(v, []).append(e)
    for code in PROT_CODES:
        for e in by_code.get(code, []):
            if e.fn is not fn:
                run.ob("R-14.2", f"{e.fn.key}::h-only[{code}]", False,
                       f"{code} is emitted outside CheckPreprocessorProtection.run, not under its `.h` test", e.node)
                continue
            nid = _cfg_node_of_expr(g, e.node)
            leak = nid in g.reachable(g.entry, follow_exc=False,
                                      edge_filter=lambda n, m, lab: not (n in h_edges and lab == h_edges[n]))
            run.ob("R-14.2", f"{fn.key}::h-only[{code}]", (bool(h_edges) and not leak) or rescued("h_only"),
                   f"{code} can be emitted for a file whose type is not .h: .c files would get guard diagnostics", e.node)

    # ---- R-14.3 ---------------------------------------------------------------------------------------
    run.rule("R-14.3", "EMIT: each listed guard defect has a live handler under a guard that reads the matching state; and a "
             "header with declarations but no guard at all is handled by some check that runs at end of file", floor=7)
    for code in PROT_CODES:
        sites = [e for e in by_code.get(code, []) if e.fn.key in live and not trivially_dead(e.node)]
        ok = bool(sites)
        hint = GUARD_HINT.get(code)
        if ok and hint is not None:
            from .c03 import dominating_atoms
            ok = any(any(hint[0] in text(atom, 400) for atom, _, _ in dominating_atoms(e.fn, e.node)) or
                     any(isinstance(a, ast.If) and hint[0] in text(a.test) for a in ancestors(e.node)) for e in sites)
        if not ok and sites:
            ok = rescued("handlers", code)
        elif ok and observed() is not None and observed()["handlers"][code]:
            # the form is there, but on stub statements the diagnostic does not come out as specified.  The stubs set the
            # preprocessor state by hand; they are trusted for this code only if a sibling diagnostic of the same branch
            # (#ifndef branch / closing-#endif branch) behaves, i.e. the stub state does reach that branch
            group = next(g_ for g_ in (("HEADER_PROT_UPPER", "HEADER_PROT_NAME", "HEADER_PROT_MULT", "HEADER_PROT_ALL"),
                                       ("HEADER_PROT_ALL_AF", "HEADER_PROT_NODEF")) if code in g_)
            if any(not observed()["handlers"][c_] for c_ in group if c_ != code):
                ok = False
                observed_why = "; ".join(observed()["handlers"][code][:2])
                run.note(f"R-14.3 {code}: {observed_why}")
        run.ob("R-14.3", f"{cp.key}::handler[{code}]", ok,
               f"no live emission of {code}" + (f" under a test on `{hint[0]}` ({hint[1]})" if hint else "")
               + ("; on stub statements: " + "; ".join(observed()["handlers"][code][:2]) if observed() and observed()["handlers"][code] else ""),
               sites[0].node if sites else cp.node)
    # missing guard: an end-of-file handler
    rm = registry_model(prog)
    end_checks = [c for c in rm.checks if rm.flags[c.name].get("runs_on_end")]
    handler = None
    for e in [x for xs in by_code.values() for x in xs]:
        cls = e.fn.cls.name if e.fn.cls else None
        if cls in {c.name for c in end_checks}:
            handler = e
        if any(isinstance(a, ast.If) and ("is_ending()" in text(a.test) or
                                          ("peek_token" in text(a.test) and "is None" in text(a.test) and "protected" in text(a.test)))
               for a in ancestors(e.node)):
            handler = e
    run.ob("R-14.3", f"{cp.key}::handler[no guard at all]", handler is not None,
           "no check runs at end of file (slot _end / is_ending()) that could report a header which never opened a guard: "
           "context.protected is only consulted inside the #ifndef / #endif branches", cp.node,
           end_checks=[c.name for c in end_checks])

    # ---- R-14.4 -------------------------------------------------------------------------------------------
    run.rule("R-14.4", "state ownership: context.protected is written only by CheckPreprocessorProtection (and initialised by "
             "Context), preproc.indent only by IsPreprocessorStatement (+1 in if/ifdef/ifndef, -1 in endif; the setter clamps "
             "at 0), preproc.macros only by check_define", floor=4)
    wr = {"protected": [], "indent": [], "macros": []}
    for f in prog.fns:
        for n in walk_fn(f.node):
            tg = []
            if isinstance(n, ast.Assign):
                tg = n.targets
            elif isinstance(n, ast.AugAssign):
                tg = [n.target]
            for t in tg:
                if isinstance(t, ast.Attribute) and t.attr in ("protected", "indent", "_indent") and \
                        ("context" in text(t.value) or text(t.value) == "self"):
                    if t.attr == "indent" and "preproc" not in text(t.value) and text(t.value) != "self":
                        continue
                    if t.attr in ("indent", "_indent") and f.cls is not None and f.cls.name not in ("PreProcessors", "IsPreprocessorStatement") \
                            and "preproc" not in text(t.value):
                        continue
                    wr["protected" if t.attr == "protected" else "indent"].append((f, n))
            if isinstance(n, ast.Call) and isinstance(n.func, ast.Attribute) and n.func.attr in ("append", "extend", "remove", "clear", "insert") \
                    and text(n.func.value).endswith("preproc.macros"):
                wr["macros"].append((f, n))
    okp = wr["protected"] and all(f.key in ("context.py::Context.__init__", fn.key) for f, _ in wr["protected"])
    run.ob("R-14.4", "context.py::Context::protected-writers", bool(okp),
           "context.protected is written outside CheckPreprocessorProtection: " + ", ".join(f.key for f, _ in wr["protected"]), None)
    ind = [(f, n) for f, n in wr["indent"] if f.cls is not None and f.cls.name == "IsPreprocessorStatement"]
    other = [(f, n) for f, n in wr["indent"] if (f, n) not in ind and not (f.cls is not None and f.cls.name == "PreProcessors")]
    ups = sorted(f.name for f, n in ind if _unit_step(n) == 1)
    downs = sorted(f.name for f, n in ind if _unit_step(n) == -1)
    run.ob("R-14.4", "context.py::PreProcessors::indent-writers", not other and ups == ["check_if", "check_ifdef", "check_ifndef"]
           and downs == ["check_endif"] and len(ind) == 4,
           f"preproc.indent: +1 in {ups}, -1 in {downs}, other writers {[f.key for f, _ in other]}; expected +1 in "
           f"check_if/check_ifdef/check_ifndef and -1 in check_endif only", None)
    setter = [f for f in prog.fns if f.cls is not None and f.cls.name == "PreProcessors" and f.name == "indent"
              and any("setter" in d for d in f.decorators)]
    ok = len(setter) == 1 and any(isinstance(n, ast.Assign) and text(n.value) in ("max(0, value)", "max(value, 0)") for n in walk_fn(setter[0].node))
    if len(setter) == 1 and not ok:
        ok = _setter_clamps(setter[0])
    run.ob("R-14.4", "context.py::PreProcessors.indent::clamped", ok, "the conditional depth is not clamped at 0", setter[0].node if setter else None)
    okm = wr["macros"] and all(f.key == "rules/is_preprocessor_statement.py::IsPreprocessorStatement.check_define" for f, _ in wr["macros"])
    run.ob("R-14.4", "context.py::PreProcessors::macros-writers", bool(okm),
           "preproc.macros is modified outside check_define: " + ", ".join(f.key for f, _ in wr["macros"]), None)
    rule_nesting_state(run, prog, fn)
    from .c14_macro_removal import rule_macro_removal
    rule_macro_removal(run, prog)            # R-14.6
    from .c14_macro_removal import rule_macro_lookup
    rule_macro_lookup(run, prog)             # R-14.7
    from .c14_after_endif import rule_after_endif
    rule_after_endif(run, prog)              # R-14.8
    from .c14_history import rule_history_append_only
    rule_history_append_only(run, prog)      # R-14.9
    from .c14_after_endif import rule_before_ifndef
    rule_before_ifndef(run, prog)            # R-14.10
    # the guard verdict is a function of this file's name and text: no table shared between files (a memo keyed by the stem
    # makes foo.c and foo.h answer for each other)
    from .c06 import rule_shared_mutables
    rule_shared_mutables(run, prog, "R-14.11")
