"""R-5.10 (property C05, "no hang"): no regular expression of the package has exponential ambiguity.

Python's `re` is a backtracking matcher.  When a pattern has *exponential degree of ambiguity* (EDA: some state q of its
automaton has two different runs q -> q on the same word, e.g. `(?:\\d+'?)+`, `(a|a)*`, `(\\w+\\s?)+`) a subject on which the
overall match fails makes the matcher try all 2^n groupings: one `Pattern.match` call that does not return -- a hang without
any Python-level loop.  EDA is decidable on the automaton (Weber & Seidl 1991): in the product of the epsilon-free
automaton with itself (same input symbol on both components), some strongly connected component contains a diagonal pair
(q, q) and an off-diagonal pair (p, p'), p != p'.  The automaton is built from `re._parser`'s tree (anchors as epsilon);
ambiguity that comes only from different epsilon paths between the same two states (e.g. `(a?)*`) is not seen -- CPython
guards empty loop iterations itself.
"""
from __future__ import annotations

import ast
import re
import re._constants as sre_c       # type: ignore
import re._parser as sre_parse      # type: ignore
from typing import Dict, List, Optional, Set, Tuple

from ..fold import RegexConst, fold_in_fn, try_fold
from ..model import text, walk_fn
from ..regexlang import NFA, UNIVERSE, UnsupportedRegex, _build, _symbol_classes


def _strip_anchors(seq):
    """Copy of a parsed pattern without zero-width position assertions (they consume nothing)."""
    out = []
    for op, av in seq:
        if op is sre_c.AT or op is sre_c.ASSERT or op is sre_c.ASSERT_NOT:
            continue                      # zero-width: consume nothing (look-around only prunes runs)
        if op is sre_c.SUBPATTERN:
            out.append((op, (av[0], av[1], av[2], _strip_anchors(av[3]))))
        elif op is sre_c.BRANCH:
            out.append((op, (av[0], [_strip_anchors(b) for b in av[1]])))
        elif op in (sre_c.MAX_REPEAT, sre_c.MIN_REPEAT):
            out.append((op, (av[0], av[1], _strip_anchors(av[2]))))
        else:
            out.append((op, av))
    return out


def nfa_of(pattern: str, flags: int) -> NFA:
    tree = sre_parse.parse(pattern, flags)
    eff = flags | tree.state.flags
    nfa = NFA()
    end = _build(nfa, _strip_anchors(list(tree)), nfa.start, eff)
    nfa.accept = {end}
    return nfa


def eda_witness(nfa: NFA) -> Optional[Tuple[int, int, int]]:
    """(q, p, p') such that (q,q) and (p,p') with p != p' lie on one cycle of the squared automaton, or None."""
    n = nfa.n
    # useful states
    fwd: List[Set[int]] = [set() for _ in range(n)]
    for s in range(n):
        for t in nfa.eps[s]:
            fwd[s].add(t)
        for _, t in nfa.trans[s]:
            fwd[s].add(t)
    reach = {nfa.start}
    todo = [nfa.start]
    while todo:
        s = todo.pop()
        for t in fwd[s]:
            if t not in reach:
                reach.add(t)
                todo.append(t)
    back: List[Set[int]] = [set() for _ in range(n)]
    for s in range(n):
        for t in fwd[s]:
            back[t].add(s)
    co = set(nfa.accept)
    todo = list(co)
    while todo:
        s = todo.pop()
        for t in back[s]:
            if t not in co:
                co.add(t)
                todo.append(t)
    useful = reach & co
    reps = [sorted(c)[0] for c in _symbol_classes(nfa)]
    clos = {q: nfa.closure([q]) for q in useful}
    delta: Dict[int, Dict[str, Set[int]]] = {}
    for q in useful:
        d: Dict[str, Set[int]] = {}
        for p in clos[q]:
            for chars, r in nfa.trans[p]:
                if r in useful:
                    for rep in reps:
                        if rep in chars:
                            d.setdefault(rep, set()).add(r)
        delta[q] = d
    # only states that consume a character matter as pair components: keep all useful
    succ: Dict[Tuple[int, int], Set[Tuple[int, int]]] = {}

    def edges(pair):
        if pair in succ:
            return succ[pair]
        a, b = pair
        out = set()
        da, db = delta[a], delta[b]
        for rep, ra in da.items():
            rb = db.get(rep)
            if rb:
                for x in ra:
                    for y in rb:
                        out.add((x, y))
        succ[pair] = out
        return out
    # Tarjan over the part of the square reachable from the diagonal
    index: Dict[Tuple[int, int], int] = {}
    low: Dict[Tuple[int, int], int] = {}
    on = set()
    stack: List[Tuple[int, int]] = []
    counter = [0]
    for q0 in sorted(useful):
        root = (q0, q0)
        if root in index:
            continue
        work = [(root, iter(sorted(edges(root))))]
        index[root] = low[root] = counter[0]
        counter[0] += 1
        stack.append(root)
        on.add(root)
        while work:
            v, it = work[-1]
            advanced = False
            for w in it:
                if w not in index:
                    index[w] = low[w] = counter[0]
                    counter[0] += 1
                    stack.append(w)
                    on.add(w)
                    work.append((w, iter(sorted(edges(w)))))
                    advanced = True
                    break
                elif w in on:
                    low[v] = min(low[v], index[w])
            if advanced:
                continue
            work.pop()
            if work:
                u = work[-1][0]
                low[u] = min(low[u], low[v])
            if low[v] == index[v]:
                comp = []
                while True:
                    w = stack.pop()
                    on.discard(w)
                    comp.append(w)
                    if w == v:
                        break
                if len(comp) > 1 or v in edges(v):
                    diag = [c for c in comp if c[0] == c[1]]
                    off = [c for c in comp if c[0] != c[1]]
                    if diag and off:
                        return diag[0][0], off[0][0], off[0][1]
    return None


def patterns_of(prog):
    """(where, name, pattern, flags, node) for module-level compiled patterns and constant patterns given to re.* calls."""
    out = []
    for rel, mod in sorted(prog.mods.items()):
        for name, vals in mod.assigns.items():
            for v in vals:
                if isinstance(v, ast.expr):
                    rc = try_fold(v, mod)
                    if isinstance(rc, RegexConst):
                        out.append((rel, name, rc.pattern, rc.flags, v))
    for fn in prog.fns:
        for n in walk_fn(fn.node):
            if isinstance(n, ast.Call) and isinstance(n.func, ast.Attribute) and text(n.func.value) == "re" \
                    and n.func.attr in ("compile", "match", "search", "fullmatch", "findall", "finditer", "sub", "split") and n.args:
                p = fold_in_fn(n.args[0], fn, default=None)
                if isinstance(p, str):
                    fl = 0
                    for extra in list(n.args[1:]) + [k.value for k in n.keywords if k.arg == "flags"]:
                        f = fold_in_fn(extra, fn, default=None)
                        if isinstance(f, int) and not isinstance(f, bool) and n.func.attr in ("compile", "match", "search", "fullmatch"):
                            fl |= f
                    out.append((fn.mod.rel, f"{fn.qual}:{n.lineno}", p, fl, n))
                elif isinstance(p, RegexConst):
                    out.append((fn.mod.rel, f"{fn.qual}:{n.lineno}", p.pattern, p.flags, n))
    return out


def rule_regex_ambiguity(run, prog):
    run.rule("R-5.10", "no hang inside the regex engine: no regular expression of the package (module-level compiled patterns "
             "and constant patterns of re.* calls) has exponential degree of ambiguity -- decided on the squared automaton "
             "built from re._parser's tree (a diagonal and an off-diagonal pair on one cycle)", floor=4)
    pats = patterns_of(prog)
    seen = set()
    n = 0
    for rel, name, pat, flags, node in pats:
        key = f"{rel}::regex[{name}]"
        if key in seen:
            continue
        seen.add(key)
        try:
            nfa = nfa_of(pat, flags)
        except (UnsupportedRegex, re.error, RecursionError) as e:
            run.note(f"{key}: not analysed ({e})")
            continue
        n += 1
        w = eda_witness(nfa)
        run.ob("R-5.10", key, w is None,
               f"the pattern is exponentially ambiguous (automaton state {w[0] if w else '-'} can be re-entered along two different runs "
               f"on the same text, e.g. through states {w[1] if w else '-'} / {w[2] if w else '-'}): on a subject where the overall match "
               f"fails, one re call tries 2^n groupings -- a hang without a Python-level loop", node, states=nfa.n)
    run.require(n >= 4, f"only {n} regular expressions analysed (floor 4)")


def ambiguous_lexer_pattern(prog) -> Optional[str]:
    """Name of a regular expression of lexer/lexer.py that is exponentially ambiguous (R-5.10 reports it under C05), or None.
    Rules that feed long inputs through the tree's own patterns ask first: the analyser's interpreter runs those patterns with
    Python's re, and would hang with them."""
    for rel, name, pat, flags, node in patterns_of(prog):
        if rel != "lexer/lexer.py":
            continue
        try:
            if eda_witness(nfa_of(pat, flags)) is not None:
                return name
        except (UnsupportedRegex, re.error, RecursionError):
            continue
    return None
