"""C09 — token and diagnostic positions are true source positions (partial:
ownership, capture-before-consume, line-break pairing, tab stops).  DESIGN.md §4.9."""
from __future__ import annotations

import ast
from typing import Dict, List

from ..calls import lexer_parsers
from ..cfg import cfg_of
from ..fold import Unknown, fold_name
from ..lexsim import FlowEvaluator, LexerSim, RepoRaise, TokenStub
from ..minieval import Obj, Unsupported
from ..model import AnalysisError, Undecided, text, walk_fn
from .c05 import _cfg_node_of_expr, _pop_sites


def _stores(prog, attrs):
    """(fn, stmt, target) for every store to an attribute named in *attrs*."""
    out = []
    for fn in prog.fns:
        for n in walk_fn(fn.node):
            tgts = []
            if isinstance(n, ast.Assign):
                tgts = list(n.targets)
            elif isinstance(n, (ast.AugAssign, ast.AnnAssign)):
                tgts = [n.target]
            elif isinstance(n, ast.Delete):
                tgts = list(n.targets)
            flat = []
            for t in tgts:
                flat += list(t.elts) if isinstance(t, (ast.Tuple, ast.List)) else [t]
            for t in flat:
                if isinstance(t, ast.Attribute) and t.attr in attrs:
                    out.append((fn, n, t))
                if isinstance(t, ast.Subscript) and isinstance(t.value, ast.Attribute) and t.value.attr in attrs:
                    out.append((fn, n, t.value))
            if isinstance(n, ast.Call) and isinstance(n.func, ast.Name) and n.func.id == "setattr" and len(n.args) >= 2 \
                    and isinstance(n.args[1], ast.Constant) and n.args[1].value in attrs:
                out.append((fn, n, n))
    return out


def rule_ownership(run, prog):
    run.rule("R-9.1", "OWN: the lexer's position state (__pos, __line, __line_pos) is written only in Lexer.__init__, pop "
             "and get_next_token; Token.pos is never assigned after construction; Highlight.lineno/column only by "
             "constructors; Token objects are built only by the lexer", floor=4)
    allowed = {"lexer/lexer.py::Lexer.__init__", "lexer/lexer.py::Lexer.pop", "lexer/lexer.py::Lexer.get_next_token"}
    st = _stores(prog, {"__pos", "__line", "__line_pos", "_Lexer__pos", "_Lexer__line", "_Lexer__line_pos"})
    run.require(len(st) >= 8, "anchor vanished: stores to the lexer position state")
    bad = [(f, n) for f, n, _ in st if f.key not in allowed]
    run.ob("R-9.1", "lexer/lexer.py::Lexer::position-state-writers", not bad,
           "lexer position state written outside __init__/pop/get_next_token: " + ", ".join(f"{f.key}:{n.lineno}" for f, n in bad),
           bad[0][1] if bad else None, writers=sorted({f.key for f, _, _ in st}))
    seen_in = {}
    for fn, n, t in _stores(prog, {"pos"}):
        if fn.mod.rel == "lexer/tokens.py":
            continue
        # keyed by the function and the ordinal of the store in it (not by the name of the local that holds the token)
        k = seen_in[fn.key] = seen_in.get(fn.key, 0) + 1
        run.ob("R-9.1", f"{fn.key}::store[token.pos]" + (f"#{k}" if k > 1 else ""), False,
               f"{text(n)}: a token's position is overwritten after the lexer built it; every later diagnostic on the "
               f"same token is reported at the wrong place", n)
    hs = [(f, n, t) for f, n, t in _stores(prog, {"lineno", "column"}) if not (f.name in ("__init__", "__post_init__"))]
    run.ob("R-9.1", "errors.py::Highlight::position-immutable", not hs,
           "Highlight.lineno/column assigned outside a constructor: " + ", ".join(f"{f.key}:{n.lineno}" for f, n, _ in hs),
           hs[0][1] if hs else None)
    ctors = []
    for fn in prog.fns:
        for n in walk_fn(fn.node):
            if isinstance(n, ast.Call) and isinstance(n.func, ast.Name) and n.func.id == "Token":
                ctors.append((fn, n))
    outside = [(f, n) for f, n in ctors if f.mod.rel != "lexer/lexer.py"]
    run.ob("R-9.1", "lexer/tokens.py::Token::built-by-lexer-only", len(ctors) >= 12 and not outside,
           "Token objects are constructed outside the lexer (their position is not a source position): "
           + ", ".join(f.key for f, _ in outside), outside[0][1] if outside else None, constructions=len(ctors))
    # Token.lineno / column are pos[0] / pos[1]
    tk = prog.cls("Token")
    tmethods = {("Token", nm_): f.node for nm_, f in tk.methods.items()}
    for nm, idx in (("lineno", 0), ("column", 1)):
        m = prog.method("Token", nm)
        got = None
        if m is not None:
            try:
                ev = FlowEvaluator(tmethods, max_steps=5000)
                got = ev.invoke(m.node, [Obj("Token", type="IDENTIFIER", pos=(3, 7), value="ab")], {})
            except RepoRaise as r:
                got = f"raise {r.name}"
            except Unsupported as e:
                raise Undecided(f"Token.{nm} is outside the evaluable subset: {e}")
        ok = m is not None and any("property" in d for d in m.decorators) and got == (3, 7)[idx]
        run.ob("R-9.1", f"lexer/tokens.py::Token.{nm}", ok, f"Token.{nm} is not self.pos[{idx}] (a token at (3, 7) gives {got!r})",
               m.node if m else None)


def _is_line_pos_call(e) -> bool:
    return isinstance(e, ast.Call) and text(e.func) == "self.line_pos"


def rule_capture(run, prog):
    run.rule("R-9.2", "capture before consume: in every sub-parser the position given to each Token(...) comes from "
             "self.line_pos() evaluated at a point no pop() can precede on any path", floor=12)
    lp = prog.method("Lexer", "line_pos")
    run.require(lp is not None, "anchor vanished: Lexer.line_pos")
    # interpreted after popping "ab\ncd\te": the cursor is on line 2, column 7 (tab stop)
    try:
        sim = LexerSim(prog, "ab\ncd\tef")
        sim.call("pop", times=6)
        out = sim.call("line_pos")
        got = tuple(out.value) if out.kind == "ok" and isinstance(out.value, (tuple, list)) else out
        ok = got == (sim.line, sim.line_pos) and got == (2, 5)
    except Unsupported as e:
        raise Undecided(f"Lexer.line_pos / pop is outside the evaluable subset: {e}")
    run.ob("R-9.2", "lexer/lexer.py::Lexer.line_pos", ok, f"Lexer.line_pos does not return (line, column): {got!r} at line 2, column 5",
           lp.node)
    n_tok = 0
    for fn in lexer_parsers(prog):
        g = cfg_of(fn)
        pops = {_cfg_node_of_expr(g, p) for p in _pop_sites(fn)}
        pops.discard(None)
        # names bound from self.line_pos():   pos = self.line_pos()  /  pos = lineno, column = self.line_pos()
        captures: Dict[str, List[ast.AST]] = {}
        other_defs: Dict[str, List[ast.AST]] = {}
        halves: Dict[str, List] = {}            # name -> [(component index, assignment)] for `line, col = self.line_pos()`
        for n in walk_fn(fn.node):
            if isinstance(n, ast.Assign):
                for t in n.targets:
                    if isinstance(t, ast.Name):
                        (captures if _is_line_pos_call(n.value) else other_defs).setdefault(t.id, []).append(n)
                    elif isinstance(t, (ast.Tuple, ast.List)):
                        for i, e in enumerate(t.elts):
                            if isinstance(e, ast.Name):
                                if _is_line_pos_call(n.value) and len(t.elts) == 2:
                                    halves.setdefault(e.id, []).append((i, n))
                                else:
                                    other_defs.setdefault(e.id, []).append(n)
            elif isinstance(n, (ast.AugAssign, ast.AnnAssign, ast.NamedExpr)) and isinstance(n.target, ast.Name):
                if isinstance(n, ast.NamedExpr) and _is_line_pos_call(n.value):
                    captures.setdefault(n.target.id, []).append(n)
                else:
                    other_defs.setdefault(n.target.id, []).append(n)
            elif isinstance(n, ast.For):
                for x in ast.walk(n.target):
                    if isinstance(x, ast.Name):
                        other_defs.setdefault(x.id, []).append(n)
        for n in walk_fn(fn.node):
            if isinstance(n, ast.Call) and isinstance(n.func, ast.Name) and n.func.id == "Token":
                n_tok += 1
                parg = n.args[1] if len(n.args) > 1 else next((k.value for k in n.keywords if k.arg == "pos"), None)
                key = f"{fn.key}::Token[{text(n.args[0], 24) if n.args else ''}]"
                if parg is None:
                    run.ob("R-9.2", key, False, "Token built without a position", n)
                    continue
                cap_nodes = []
                if _is_line_pos_call(parg):
                    cap_nodes = [_cfg_node_of_expr(g, n)]
                    # a pop inside the same construction evaluated before the position? (argument order)
                    same = [p for p in _pop_sites(fn) if _cfg_node_of_expr(g, p) == cap_nodes[0] and
                            (p.lineno, p.col_offset) < (parg.lineno, parg.col_offset)]
                    if same:
                        run.ob("R-9.2", key, False, "a pop() is evaluated before self.line_pos() in the same expression", n)
                        continue
                elif isinstance(parg, ast.Name) and parg.id in captures and parg.id not in other_defs:
                    cap_nodes = [_cfg_node_of_expr(g, a) for a in captures[parg.id]]
                elif isinstance(parg, ast.Tuple) and len(parg.elts) == 2 and all(
                        isinstance(e, ast.Name) and e.id in halves and e.id not in other_defs and e.id not in captures
                        and all(i == k for i, _ in halves[e.id]) for k, e in enumerate(parg.elts)) \
                        and {id(a) for _, a in halves[parg.elts[0].id]} == {id(a) for _, a in halves[parg.elts[1].id]}:
                    # (line, col) rebuilt from the two halves of the same sample(s)
                    cap_nodes = [g.nid(a) for _, a in halves[parg.elts[0].id]]
                else:
                    run.ob("R-9.2", key, False,
                           f"the position argument `{text(parg)}` is not (only) a value of self.line_pos()", n)
                    continue
                late = [c for c in cap_nodes if any(g.can_reach(p, c) or p == c and not _is_line_pos_call(parg) for p in pops)]
                run.ob("R-9.2", key, not late,
                       "the token position is sampled after characters may already have been consumed (a pop() can "
                       "precede self.line_pos()): the token is reported at the position of a later character", n)
    run.require(n_tok >= 12, f"only {n_tok} Token constructions in the sub-parsers (floor 12)")


def rule_from_token(run, prog):
    run.rule("R-9.3", "Highlight.from_token, interpreted on a token at (line 3, column 7), builds a Highlight with lineno 3 and "
             "column 7 (whatever the spelling of the construction); Context.new_error/new_warning build their highlight with "
             "it from their token parameter", floor=2)
    ft = prog.method("Highlight", "from_token")
    run.require(ft is not None, "anchor vanished: Highlight.from_token")
    hl = prog.cls("Highlight")
    tk = prog.cls("Token")
    fields = [st.target.id for st in hl.node.body if isinstance(st, ast.AnnAssign) and isinstance(st.target, ast.Name)]
    methods = {}
    for c in (hl, tk):
        for nm, f in c.methods.items():
            methods[(c.name, nm)] = f.node
    got = None
    try:
        ev = FlowEvaluator(methods, max_steps=20000)
        ev.classes = {"Highlight": hl.node, "Token": tk.node}
        token = Obj("Token", type="IDENTIFIER", pos=(3, 7), value="ab")
        from ..minieval import ClassRef
        try:
            res = ev.invoke(ft.node, [ClassRef("Highlight"), token], {})
            got = (getattr(res, "lineno", None), getattr(res, "column", None)) if isinstance(res, Obj) else repr(res)
        except RepoRaise as r:
            got = f"raise {r.name}"
    except Unsupported as e:
        raise Undecided(f"Highlight.from_token is outside the evaluable subset: {e}")
    run.ob("R-9.3", f"{ft.key}::binding", got == (3, 7),
           f"Highlight.from_token does not pass (token.lineno, token.column) as (lineno, column): a token at (3, 7) gives {got!r}",
           ft.node, fields=fields)
    for nm in ("new_error", "new_warning"):
        m = prog.method("Context", nm)
        run.require(m is not None, f"anchor vanished: Context.{nm}")
        tparam = m.params[2] if len(m.params) > 2 else None
        ok = any(isinstance(n, ast.Call) and text(n.func).endswith("Highlight.from_token") and n.args and isinstance(n.args[0], ast.Name)
                 and n.args[0].id == tparam for n in walk_fn(m.node))
        run.ob("R-9.3", f"{m.key}::uses-from_token", ok, f"Context.{nm} does not position the diagnostic at its token", m.node)


def _ref_advance(line, col, raw, tri, di):
    """Independent model of the position after the raw text *raw* (splices, newlines, tab stops every 4, spellings)."""
    i = 0
    while i < len(raw):
        if raw.startswith("\\\n", i) or raw.startswith("??/\n", i):
            i += 2 if raw[i] == "\\" else 4
            line, col = line + 1, 1
            continue
        sp = next((k for k in list(tri) + list(di) if raw.startswith(k, i)), None)
        if sp is not None:
            i += len(sp)
            col += len(sp)
            continue
        ch = raw[i]
        i += 1
        if ch == "\n":
            line, col = line + 1, 1
        elif ch == "\t":
            col += 4 - (col - 1) % 4
        else:
            col += 1
    return line, col


def rule_linebreaks(run, prog):
    run.rule("R-9.4", "line-break bookkeeping: interpreting Lexer.pop on a newline and on one or two line splices (both "
             "spellings) followed by a plain character, a tab, a newline, a digraph or a trigraph -- for every combination of "
             "use_escape / use_spaces and two start columns -- and Lexer.get_next_token on splices between tokens (sub-parsers "
             "replaced by a stub that records the position it sees), the (line, column) and the offset reached are those of an "
             "independent model of the raw text", floor=3)
    dm = prog.mod("lexer/dictionary.py")
    try:
        tri, di = fold_name("trigraphs", dm), fold_name("digraphs", dm)
    except Unknown as e:
        raise AnalysisError(f"lexer tables do not fold: {e}")
    pop = prog.fn("lexer/lexer.py::Lexer.pop")
    gnt = prog.fn("lexer/lexer.py::Lexer.get_next_token")
    flags = [dict(), dict(use_escape=True), dict(use_spaces=True), dict(use_escape=True, use_spaces=True)]
    bad = {"newline": None, "splice": None, "gnt": None}
    n = {"newline": 0, "splice": 0, "gnt": 0}

    def run_pop(prefix, body, consumed, kw):
        sim = LexerSim(prog, " " * prefix + body)
        if prefix:
            sim.call("pop", times=prefix)
        out = sim.call("pop", **kw)
        want = _ref_advance(1, 1 + prefix, consumed, tri, di)
        got = (sim.line, sim.line_pos)
        ok = out.kind == "ok" and got == want and sim.pos == prefix + len(consumed)
        return ok, (body, kw, got, want, out, sim.pos, prefix + len(consumed))

    try:
        for prefix in (0, 2):
            for kw in flags:
                n["newline"] += 1
                ok, rec = run_pop(prefix, "\nz", "\n", kw)
                if not ok and bad["newline"] is None:
                    bad["newline"] = rec
                for sp in ("\\\n", "??/\n"):
                    for count in (1, 2):
                        for nxt in ("a", "\t", "\n", sorted(di)[0], sorted(tri)[0]):
                            if tri.get(nxt) == "\\":
                                continue
                            n["splice"] += 1
                            ok, rec = run_pop(prefix, sp * count + nxt + "z", sp * count + nxt, kw)
                            if not ok and bad["splice"] is None:
                                bad["splice"] = rec
            # a spelling cut in two by a splice (`<` splice `:`): whatever pop() decides to take, the position it leaves is the
            # position of the raw offset it leaves
            for sp in ("\\\n", "??/\n"):
                for d_ in sorted(di) + sorted(tri):
                    for cut in range(1, len(d_)):
                        body = d_[:cut] + sp + d_[cut:] + "z"
                        for kw in flags[:2]:
                            n["splice"] += 1
                            sim = LexerSim(prog, " " * prefix + body)
                            if prefix:
                                sim.call("pop", times=prefix)
                            out = sim.call("pop", **kw)
                            if out.kind != "ok":
                                continue
                            want = _ref_advance(1, 1 + prefix, body[:sim.pos - prefix], tri, di)
                            if (sim.line, sim.line_pos) != want and bad["splice"] is None:
                                bad["splice"] = (body, kw, (sim.line, sim.line_pos), want, out, sim.pos, sim.pos)
            for sp in ("\\\n", "??/\n"):
                for count in (1, 2, 3):
                    n["gnt"] += 1
                    sim = LexerSim(prog, " " * prefix + sp * count + "a")
                    if prefix:
                        sim.call("pop", times=prefix)
                    seen = []

                    def stub(me=None, sim=sim, seen=seen):
                        seen.append(((sim.line, sim.line_pos), sim.pos))
                        return TokenStub("T", (sim.line, sim.line_pos), None)
                    sim.me.__dict__["parsers"] = (stub,)
                    out = sim.call("get_next_token")
                    want = (_ref_advance(1, 1 + prefix, sp * count, tri, di), prefix + len(sp) * count)
                    if not (out.kind == "ok" and seen[:1] == [want]) and bad["gnt"] is None:
                        bad["gnt"] = (sp * count + "a", {}, seen[:1], want, out, sim.pos, want[1])
    except Unsupported as e:
        raise Undecided(f"Lexer.pop / get_next_token is outside the evaluable subset: {e}")

    from ..lexsim import parsers_hook_works
    try:
        hook = parsers_hook_works(prog)
    except Unsupported as e:
        raise Undecided(f"Lexer.get_next_token is outside the evaluable subset: {e}")
    if not hook:
        raise Undecided("get_next_token does not select its sub-parsers by walking self.parsers: the position a stub sub-parser "
                        "would see cannot be observed (pop's own bookkeeping is decided above)")
    # the bad-lexeme skip: no sub-parser takes the character, get_next_token reports it and moves on; wherever it lands, the
    # column there is the column of that raw offset (a skipped trigraph is three columns wide)
    bad_skip, n_skip = None, 0
    try:
        for prefix in (0, 2):
            for body in ("$a", "@ a", "`a", "\\a", "??/a", "??/ a", "$$a", "??/??/a"):
                n_skip += 1
                sim = LexerSim(prog, " " * prefix + body)
                if prefix:
                    sim.call("pop", times=prefix)
                seen = []
                start = prefix

                def stub2(me=None, sim=sim, seen=seen, start=start):
                    if sim.pos == start:
                        return None                    # nothing can start here
                    seen.append(((sim.line, sim.line_pos), sim.pos))
                    return TokenStub("T", (sim.line, sim.line_pos), None)
                sim.me.__dict__["parsers"] = (stub2,)
                out = sim.call("get_next_token")
                if out.kind != "ok" or not seen:
                    bad_skip = bad_skip or (body, None, None, out)
                    continue
                (got_lc, got_pos) = seen[0]
                want_lc = _ref_advance(1, 1 + prefix, (" " * prefix + body)[prefix:got_pos], {}, {})
                if got_lc != want_lc and bad_skip is None:
                    bad_skip = (body, got_lc, (want_lc, got_pos), out)
    except Unsupported as e:
        raise Undecided(f"Lexer.get_next_token is outside the evaluable subset: {e}")
    run.ob("R-9.4", f"{gnt.key}::bad-lexeme-skip", bad_skip is None,
           (f"after the unmatchable start of {bad_skip[0]!r} the next sub-parser round sees the position {bad_skip[1]} but stands at "
            f"(line, column) {(bad_skip[2] or (None, None))[0]} / offset {(bad_skip[2] or (None, None))[1]} of the raw text (result {bad_skip[3]!r}): every later token of the "
            f"line is reported at a wrong column") if bad_skip else "", gnt.node, evaluations=n_skip)

    def show(rec):
        body, kw, got, want, out, pos, wpos = rec
        return (f"on {body!r} {kw or ''} the position reached is {got} at offset {pos} (result {out!r}); the raw text puts it at "
                f"{want} / offset {wpos}: every following token on that line is reported at the wrong column")

    run.ob("R-9.4", f"{pop.key}::line-break[newline]", bad["newline"] is None,
           "after popping a newline " + (show(bad["newline"]) if bad["newline"] else ""), pop.node, evaluations=n["newline"])
    run.ob("R-9.4", f"{pop.key}::line-break[splice]", bad["splice"] is None,
           "after a line splice inside pop() " + (show(bad["splice"]) if bad["splice"] else ""), pop.node, evaluations=n["splice"])
    run.ob("R-9.4", f"{gnt.key}::line-break[splice]", bad["gnt"] is None,
           "after a line splice between two tokens " + (show(bad["gnt"]) if bad["gnt"] else ""), gnt.node, evaluations=n["gnt"])


def rule_no_stale_sample(run, prog):
    run.rule("R-9.6", "no stale position sample: in the functions that write the position state directly (pop, "
             "get_next_token) a local that holds a sample of it (line_pos(), __line, __line_pos) is never used on a path "
             "on which the state was written after the sample", floor=2)
    for key in ("lexer/lexer.py::Lexer.pop", "lexer/lexer.py::Lexer.get_next_token"):
        fn = prog.fn(key)
        g = cfg_of(fn)
        writes = set()
        for n in walk_fn(fn.node):
            if isinstance(n, (ast.Assign, ast.AugAssign)):
                tg = n.targets if isinstance(n, ast.Assign) else [n.target]
                flat = [e for t in tg for e in (t.elts if isinstance(t, (ast.Tuple, ast.List)) else [t])]
                if any(text(t).endswith(("__line", "__line_pos")) for t in flat):
                    writes.add(g.nid(n))
        writes.discard(None)
        samples = {}        # name -> [sample node ids]
        for n in walk_fn(fn.node):
            if isinstance(n, ast.Assign) and any(x in text(n.value) for x in ("self.line_pos()", "self.__line_pos", "self.__line")) \
                    and not isinstance(n.value, ast.Constant):
                for t in n.targets:
                    for x in (t.elts if isinstance(t, (ast.Tuple, ast.List)) else [t]):
                        if isinstance(x, ast.Name):         # locals only: a store to the state itself is not a sample
                            samples.setdefault(x.id, []).append(g.nid(n))
        bad = []
        for name, sids in samples.items():
            sid_set = {s_ for s_ in sids if s_ is not None}
            for u in walk_fn(fn.node):
                if isinstance(u, ast.Name) and u.id == name and isinstance(u.ctx, ast.Load):
                    uid = _cfg_node_of_expr(g, u)
                    if uid is None:
                        continue
                    # sample -> write -> use, without passing through a (re)sample
                    for w in writes:
                        # a write computed from the sample itself (`col += width - 1` with width the sample) does not make the
                        # sample stale: it is the update the sample was taken for
                        w_ast = g.nodes[w].ast
                        if w_ast is not None and any(isinstance(x, ast.Name) and x.id == name for x in ast.walk(w_ast)):
                            continue
                        if any(g.can_reach(s_, w, avoid=sid_set, follow_exc=False) or s_ == w for s_ in sid_set) and \
                                (w == uid and False or g.can_reach(w, uid, avoid=sid_set, follow_exc=False)):
                            bad.append((u, name, g.nodes[w].ast))
                            break
        uniq = {}
        for u, name, w in bad:
            uniq.setdefault(name, (u, w))
        run.ob("R-9.6", f"{fn.key}::no-stale-sample", not uniq,
               "a sampled position is used after the position state was rewritten: " + "; ".join(
                   f"`{nm}` used at line {u.lineno} after `{text(w, 40)}` (line {w.lineno})" for nm, (u, w) in uniq.items())
               + " - after a line splice inside a token the tab stop / the diagnostic is computed from the old column",
               next(iter(uniq.values()))[0] if uniq else fn.node, samples=sorted(samples))


def check(run, prog):
    rule_no_stale_sample(run, prog)
    rule_ownership(run, prog)
    rule_capture(run, prog)
    rule_from_token(run, prog)
    rule_linebreaks(run, prog)
    from .c03 import rule_tabstops
    # R-9.5 = R-3.3 (declared under its C03 name)
    rule_tabstops(run, prog)
    from .c09_linesplit import rule_line_split
    rule_line_split(run, prog, "R-9.7")
    # a stale cache of anything derived from the cursor shows the sub-parsers a character that is no longer there
    from .c12 import rule_position_caches
    rule_position_caches(run, prog, "R-9.8")
    from .c03_comment_layout import rule_comment_layout
    rule_comment_layout(run, prog, "R-9.9")
    from .c03_comment_layout import rule_literal_layout
    rule_literal_layout(run, prog, "R-9.10")
    from .c09_notice_positions import rule_escape_notice_positions
    rule_escape_notice_positions(run, prog)  # R-9.11
