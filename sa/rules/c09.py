"""C09 — token and diagnostic positions are true source positions (partial:
ownership, capture-before-consume, line-break pairing, tab stops).  DESIGN.md §4.9."""
from __future__ import annotations

import ast
from typing import Dict, List, Set

from ..calls import lexer_parsers
from ..cfg import cfg_of
from ..model import AnalysisError, ancestors, parent, text, walk_fn
from .c05 import _cfg_node_of_expr, _pop_sites


def _stores(prog, attrs):
    """(fn, stmt, target) for every store to an attribute named in *attrs*."""
    out = []
    for fn in prog.fns:
        for n in walk_fn(fn.node):
            tgts = []
            if isinstance(n, ast.Assign):
                tgts = list(n.targets)
            elif isinstance(n, (ast.AugAssign, ast.AnnAssign)):
                tgts = [n.target]
            elif isinstance(n, ast.Delete):
                tgts = list(n.targets)
            flat = []
            for t in tgts:
                flat += list(t.elts) if isinstance(t, (ast.Tuple, ast.List)) else [t]
            for t in flat:
                if isinstance(t, ast.Attribute) and t.attr in attrs:
                    out.append((fn, n, t))
                if isinstance(t, ast.Subscript) and isinstance(t.value, ast.Attribute) and t.value.attr in attrs:
                    out.append((fn, n, t.value))
            if isinstance(n, ast.Call) and isinstance(n.func, ast.Name) and n.func.id == "setattr" and len(n.args) >= 2 \
                    and isinstance(n.args[1], ast.Constant) and n.args[1].value in attrs:
                out.append((fn, n, n))
    return out


def rule_ownership(run, prog):
    run.rule("R-9.1", "OWN: the lexer's position state (__pos, __line, __line_pos) is written only in Lexer.__init__, pop "
             "and get_next_token; Token.pos is never assigned after construction; Highlight.lineno/column only by "
             "constructors; Token objects are built only by the lexer", floor=4)
    allowed = {"lexer/lexer.py::Lexer.__init__", "lexer/lexer.py::Lexer.pop", "lexer/lexer.py::Lexer.get_next_token"}
    st = _stores(prog, {"__pos", "__line", "__line_pos", "_Lexer__pos", "_Lexer__line", "_Lexer__line_pos"})
    run.require(len(st) >= 8, "anchor vanished: stores to the lexer position state")
    bad = [(f, n) for f, n, _ in st if f.key not in allowed]
    run.ob("R-9.1", "lexer/lexer.py::Lexer::position-state-writers", not bad,
           "lexer position state written outside __init__/pop/get_next_token: " + ", ".join(f"{f.key}:{n.lineno}" for f, n in bad),
           bad[0][1] if bad else None, writers=sorted({f.key for f, _, _ in st}))
    for fn, n, t in _stores(prog, {"pos"}):
        if fn.mod.rel == "lexer/tokens.py":
            continue
        run.ob("R-9.1", f"{fn.key}::store[{text(t)}]", False,
               f"{text(n)}: a token's position is overwritten after the lexer built it; every later diagnostic on the "
               f"same token is reported at the wrong place", n)
    hs = [(f, n, t) for f, n, t in _stores(prog, {"lineno", "column"}) if not (f.name in ("__init__", "__post_init__"))]
    run.ob("R-9.1", "errors.py::Highlight::position-immutable", not hs,
           "Highlight.lineno/column assigned outside a constructor: " + ", ".join(f"{f.key}:{n.lineno}" for f, n, _ in hs),
           hs[0][1] if hs else None)
    ctors = []
    for fn in prog.fns:
        for n in walk_fn(fn.node):
            if isinstance(n, ast.Call) and isinstance(n.func, ast.Name) and n.func.id == "Token":
                ctors.append((fn, n))
    outside = [(f, n) for f, n in ctors if f.mod.rel != "lexer/lexer.py"]
    run.ob("R-9.1", "lexer/tokens.py::Token::built-by-lexer-only", len(ctors) >= 12 and not outside,
           "Token objects are constructed outside the lexer (their position is not a source position): "
           + ", ".join(f.key for f, _ in outside), outside[0][1] if outside else None, constructions=len(ctors))
    # Token.lineno / column are pos[0] / pos[1]
    for nm, idx in (("lineno", 0), ("column", 1)):
        m = prog.method("Token", nm)
        ok = m is not None and len(m.node.body) >= 1 and isinstance(m.node.body[-1], ast.Return) \
            and text(m.node.body[-1].value) == f"self.pos[{idx}]"
        run.ob("R-9.1", f"lexer/tokens.py::Token.{nm}", ok, f"Token.{nm} is not self.pos[{idx}]", m.node if m else None)


def _is_line_pos_call(e) -> bool:
    return isinstance(e, ast.Call) and text(e.func) == "self.line_pos"


def rule_capture(run, prog):
    run.rule("R-9.2", "capture before consume: in every sub-parser the position given to each Token(...) comes from "
             "self.line_pos() evaluated at a point no pop() can precede on any path", floor=12)
    lp = prog.method("Lexer", "line_pos")
    ok = lp is not None and isinstance(lp.node.body[-1], ast.Return) and text(lp.node.body[-1].value) in (
        "(self.__line, self.__line_pos)",)
    run.ob("R-9.2", "lexer/lexer.py::Lexer.line_pos", ok, "Lexer.line_pos does not return (line, column)", lp.node if lp else None)
    n_tok = 0
    for fn in lexer_parsers(prog):
        g = cfg_of(fn)
        pops = {_cfg_node_of_expr(g, p) for p in _pop_sites(fn)}
        pops.discard(None)
        # names bound from self.line_pos():   pos = self.line_pos()  /  pos = lineno, column = self.line_pos()
        captures: Dict[str, List[ast.AST]] = {}
        other_defs: Dict[str, List[ast.AST]] = {}
        for n in walk_fn(fn.node):
            if isinstance(n, ast.Assign):
                for t in n.targets:
                    if isinstance(t, ast.Name):
                        (captures if _is_line_pos_call(n.value) else other_defs).setdefault(t.id, []).append(n)
        for n in walk_fn(fn.node):
            if isinstance(n, ast.Call) and isinstance(n.func, ast.Name) and n.func.id == "Token":
                n_tok += 1
                parg = n.args[1] if len(n.args) > 1 else next((k.value for k in n.keywords if k.arg == "pos"), None)
                key = f"{fn.key}::Token[{text(n.args[0], 24) if n.args else ''}]"
                if parg is None:
                    run.ob("R-9.2", key, False, "Token built without a position", n)
                    continue
                cap_nodes = []
                if _is_line_pos_call(parg):
                    cap_nodes = [_cfg_node_of_expr(g, n)]
                    # a pop inside the same construction evaluated before the position? (argument order)
                    same = [p for p in _pop_sites(fn) if _cfg_node_of_expr(g, p) == cap_nodes[0] and
                            (p.lineno, p.col_offset) < (parg.lineno, parg.col_offset)]
                    if same:
                        run.ob("R-9.2", key, False, "a pop() is evaluated before self.line_pos() in the same expression", n)
                        continue
                elif isinstance(parg, ast.Name) and parg.id in captures and parg.id not in other_defs:
                    cap_nodes = [g.nid(a) for a in captures[parg.id]]
                else:
                    run.ob("R-9.2", key, False,
                           f"the position argument `{text(parg)}` is not (only) a value of self.line_pos()", n)
                    continue
                late = [c for c in cap_nodes if any(g.can_reach(p, c) or p == c and not _is_line_pos_call(parg) for p in pops)]
                run.ob("R-9.2", key, not late,
                       "the token position is sampled after characters may already have been consumed (a pop() can "
                       "precede self.line_pos()): the token is reported at the position of a later character", n)
    run.require(n_tok >= 12, f"only {n_tok} Token constructions in the sub-parsers (floor 12)")


def rule_from_token(run, prog):
    run.rule("R-9.3", "Highlight.from_token binds token.lineno -> lineno and token.column -> column (argument-to-field "
             "binding resolved by position and name); Context.new_error/new_warning build their highlight with it", floor=2)
    ft = prog.method("Highlight", "from_token")
    run.require(ft is not None, "anchor vanished: Highlight.from_token")
    fields = [st.target.id for st in prog.cls("Highlight").node.body if isinstance(st, ast.AnnAssign) and isinstance(st.target, ast.Name)]
    calls = [n for n in walk_fn(ft.node) if isinstance(n, ast.Call) and text(n.func) in ("cls", "Highlight")]
    ok = len(calls) == 1
    if ok:
        c = calls[0]
        bound = {}
        for i, a in enumerate(c.args):
            if i < len(fields):
                bound[fields[i]] = text(a)
        for k in c.keywords:
            bound[k.arg] = text(k.value)
        ok = bound.get("lineno") == "token.lineno" and bound.get("column") == "token.column"
    run.ob("R-9.3", f"{ft.key}::binding", ok,
           "Highlight.from_token does not pass (token.lineno, token.column) as (lineno, column)", ft.node, fields=fields)
    for nm in ("new_error", "new_warning"):
        m = prog.method("Context", nm)
        ok = any(isinstance(n, ast.Call) and text(n.func) == "Highlight.from_token" and n.args and text(n.args[0]) == "tkn"
                 for n in walk_fn(m.node))
        run.ob("R-9.3", f"{m.key}::uses-from_token", ok, f"Context.{nm} does not position the diagnostic at its token", m.node)


def rule_linebreaks(run, prog):
    run.rule("R-9.4", "line-break bookkeeping (reaching definitions): every `__line += 1` is paired with `__line_pos = K` in "
             "the same suite; K = 0 when the column of the break character itself is still added afterwards with the `size` "
             "that was read before the break, K = 1 when `size` is re-read after the break (or nothing is added)", floor=3)
    n_sites = 0
    for key in ("lexer/lexer.py::Lexer.pop", "lexer/lexer.py::Lexer.get_next_token"):
        fn = prog.fn(key)
        g = cfg_of(fn)
        size_defs = set()
        adds = set()
        for n in walk_fn(fn.node):
            if isinstance(n, (ast.Assign, ast.NamedExpr, ast.AugAssign)):
                tg = n.targets if isinstance(n, ast.Assign) else [n.target]
                names = [x.id for t in tg for x in ast.walk(t) if isinstance(x, ast.Name)]
                if "size" in names and not isinstance(n, ast.AugAssign):
                    size_defs.add(_cfg_node_of_expr(g, n))
            if isinstance(n, ast.AugAssign) and isinstance(n.op, ast.Add) and text(n.target).endswith("__line_pos") \
                    and any(isinstance(x, ast.Name) and x.id == "size" for x in ast.walk(n.value)):
                adds.add(g.nid(n))
        size_defs.discard(None)
        adds.discard(None)
        for n in walk_fn(fn.node):
            if isinstance(n, ast.AugAssign) and isinstance(n.op, ast.Add) and text(n.target).endswith("__line") \
                    and isinstance(n.value, ast.Constant) and n.value.value == 1:
                n_sites += 1
                blk = _block_of(n)
                resets = [s for s in blk if isinstance(s, ast.Assign) and any(text(t).endswith("__line_pos") for t in s.targets)]
                skey = f"{fn.key}::line-break[{_site_anchor(n)}]"
                if len(resets) != 1 or not isinstance(resets[0].value, ast.Constant):
                    run.ob("R-9.4", skey, False, "a line increment is not paired with a constant reset of the column", n)
                    continue
                K = resets[0].value.value
                start = max(g.nid(n), g.nid(resets[0]), key=lambda x: (g.nodes[x].ast.lineno if g.nodes[x].ast is not None else 0))
                old_size_add = any(g.can_reach(start, a, avoid=size_defs) for a in adds)
                want = 0 if old_size_add else 1
                run.ob("R-9.4", skey, K == want,
                       f"after this line break the column is reset to {K} but "
                       + ("the break character's own width is added afterwards (size read before the break): it must be 0"
                          if want == 0 else
                          "the next width added belongs to a character of the new line (size is re-read) or nothing is added: "
                          "it must be 1, otherwise every following token on that line is one column off"),
                       resets[0], K=K, expected=want)
    run.require(n_sites >= 3, f"only {n_sites} line-increment sites found (floor 3)")


def _block_of(stmt):
    p = parent(stmt)
    for field in ("body", "orelse", "finalbody"):
        blk = getattr(p, field, None)
        if isinstance(blk, list) and any(s is stmt for s in blk):
            return blk
    return []


def _site_anchor(n) -> str:
    for a in ancestors(n):
        if isinstance(a, ast.If):
            return text(a.test, 40)
        if isinstance(a, (ast.For, ast.While)):
            return "loop " + text(a.iter if isinstance(a, ast.For) else a.test, 30)
    return "top"


def rule_no_stale_sample(run, prog):
    run.rule("R-9.6", "no stale position sample: in the functions that write the position state directly (pop, "
             "get_next_token) a local that holds a sample of it (line_pos(), __line, __line_pos) is never used on a path "
             "on which the state was written after the sample", floor=2)
    for key in ("lexer/lexer.py::Lexer.pop", "lexer/lexer.py::Lexer.get_next_token"):
        fn = prog.fn(key)
        g = cfg_of(fn)
        writes = set()
        for n in walk_fn(fn.node):
            if isinstance(n, (ast.Assign, ast.AugAssign)):
                tg = n.targets if isinstance(n, ast.Assign) else [n.target]
                if any(text(t).endswith(("__line", "__line_pos")) for t in tg):
                    writes.add(g.nid(n))
        writes.discard(None)
        samples = {}        # name -> [sample node ids]
        for n in walk_fn(fn.node):
            if isinstance(n, ast.Assign) and any(x in text(n.value) for x in ("self.line_pos()", "self.__line_pos", "self.__line")) \
                    and not isinstance(n.value, ast.Constant):
                for t in n.targets:
                    for x in ast.walk(t):
                        if isinstance(x, ast.Name):
                            samples.setdefault(x.id, []).append(g.nid(n))
        bad = []
        for name, sids in samples.items():
            sid_set = {s_ for s_ in sids if s_ is not None}
            for u in walk_fn(fn.node):
                if isinstance(u, ast.Name) and u.id == name and isinstance(u.ctx, ast.Load):
                    uid = _cfg_node_of_expr(g, u)
                    if uid is None:
                        continue
                    # sample -> write -> use, without passing through a (re)sample
                    for w in writes:
                        if any(g.can_reach(s_, w, avoid=sid_set, follow_exc=False) or s_ == w for s_ in sid_set) and \
                                (w == uid and False or g.can_reach(w, uid, avoid=sid_set, follow_exc=False)):
                            bad.append((u, name, g.nodes[w].ast))
                            break
        uniq = {}
        for u, name, w in bad:
            uniq.setdefault(name, (u, w))
        run.ob("R-9.6", f"{fn.key}::no-stale-sample", not uniq,
               "a sampled position is used after the position state was rewritten: " + "; ".join(
                   f"`{nm}` used at line {u.lineno} after `{text(w, 40)}` (line {w.lineno})" for nm, (u, w) in uniq.items())
               + " - after a line splice inside a token the tab stop / the diagnostic is computed from the old column",
               next(iter(uniq.values()))[0] if uniq else fn.node, samples=sorted(samples))


def check(run, prog):
    rule_no_stale_sample(run, prog)
    rule_ownership(run, prog)
    rule_capture(run, prog)
    rule_from_token(run, prog)
    rule_linebreaks(run, prog)
    from .c03 import rule_tabstops
    # R-9.5 = R-3.3 (declared under its C03 name)
    rule_tabstops(run, prog)
