"""Rules stated on C fragments run through the analysed pipeline by interpretation (sa/snippet.py; DESIGN §3.4b).

R-5.16 (C05)  every check that runs on a function prototype / declaration terminates, without an internal error, on a family of
              declarators (function pointers returning pointers, pointers to functions taking function pointers, arrays,
              unnamed parameters, nested parentheses).
R-2.8  (C02)  a wrong indentation depth on the continuation line of a multi-line statement is reported wherever the line is
              broken -- also after a complete (...) / [...] group.
R-3.8  (C03)  every block comment inside the extent a comment statement claims is measured by CheckCommentLineLen: an
              over-long interior line of a second comment on the same line is reported."""
from __future__ import annotations

from ..facts import registry_model
from ..minieval import Unsupported
from ..model import Undecided
from ..snippet import lex, run_statement

DECLARATORS = [
    "void\t*ft_lstmap(t_list *lst, void *(*f)(void *), void (*del)(void *))",
    "int\tapply(char *(*fn)(int), int n)",
    "void\tf(int (*g)(int), char **b)",
    "int\tmain(int argc, char **argv)",
    "void\tg(void)",
    "char\t*h(int tab[3], char *s[])",
    "void\tsig(void (*handler)(int, void (*)(int)))",
    "int\tk(int (*)(void))",
    "void\tsort(void *base, int (*cmp[4])(const void *, const void *))",
    "int\t(*get(int n))(int)",
    "void\tv(int a, ...)",
    "t_list\t**p(t_list **(*next)(t_list **), unsigned long long n)",
]


def _checks_of(rm, primary):
    return sorted(c.name for c in rm.checks if primary in rm.depends_on.get(c.name, []) and primary in rm.live_slots(c.name))


def rule_declarator_zoo(run, prog, rid="R-5.16"):
    run.rule(rid, "IsFuncPrototype / IsFuncDeclaration and every check attached to them, interpreted on 12 declarator shapes "
             "(function pointers returning pointers, function pointers taking function pointers, arrays of function pointers, "
             "unnamed and variadic parameters), come back: no step budget exhausted (endless loop), no Python-level exception", floor=1)
    rm = registry_model(prog)
    bad, n = None, 0
    try:
        for primary, tail, scope in (("IsFuncPrototype", ";\n", "GlobalScope"), ("IsFuncDeclaration", "\n{\n", "GlobalScope")):
            if prog.classes.get(primary) is None:
                continue
            checks = _checks_of(rm, primary)
            for d in DECLARATORS:
                n += 1
                toks = lex(prog, d + tail)
                o = run_statement(prog, toks, primary, checks, scope=scope)
                if o.hang and bad is None:
                    bad = (d, primary, f"{o.hang}.run does not terminate (interpreter step budget exhausted)")
                elif o.raised and o.raised not in ("CParsingError", "Raised") and not prog.is_sub(o.raised, "NorminetteError") and bad is None:
                    bad = (d, primary, f"an internal {o.raised} is raised")
    except Unsupported as e:
        raise Undecided(f"a rule that runs on function headers is outside the evaluable subset: {e}")
    run.ob(rid, "rules::function-headers::terminate", bad is None,
           (f"on the header `{bad[0]}` (recognised by {bad[1]}) {bad[2]}: the run never ends / dies with a traceback on a valid C file")
           if bad else "", None, evaluations=n)


def rule_continuation_indent(run, prog, rid="R-2.8"):
    run.rule(rid, "the check that emits TOO_MANY_TAB / TOO_FEW_TAB for continuation lines, interpreted on multi-line if / while / "
             "return statements whose line break follows a plain operand, a closed (...) group, a closed [...] group or a call, "
             "reports a continuation line with one tab too many / too few and accepts the conforming layout", floor=1)
    shapes = {
        "plain operand": ("\tif (a > 0\n", "&& b > 0)\n"),
        "closed [...] group": ("\tif (tab[i] > 0\n", "&& tab[j] > 0)\n"),
        "call": ("\twhile (ft_check(tab, len)\n", "&& len > 0)\n"),
        "closed (...) group": ("\tif ((a + b) > 0\n", "|| (c - d) > 0)\n"),
        "return": ("\treturn (ft_len(a)\n", "+ ft_len(b));\n"),
    }
    rm = registry_model(prog)
    bad, n = None, 0
    try:
        for name, (l1, l2) in shapes.items():
            primary = "IsExpressionStatement" if name == "return" else "IsControlStatement"
            checks = [c for c in _checks_of(rm, primary) if c == "CheckNestLineIndent"] or ["CheckNestLineIndent"]
            for tabs, want in ((2, None), (3, "TOO_MANY_TAB"), (1, "TOO_FEW_TAB")):
                n += 1
                toks = lex(prog, l1 + "\t" * tabs + l2, first_line=12)
                o = run_statement(prog, toks, primary, checks, scope="Function", history=("IsFuncDeclaration", "IsBlockStart"),
                                  scope_attrs={"indent": 1, "lvl": 1})
                got = [c for c in o.codes if c in ("TOO_MANY_TAB", "TOO_FEW_TAB")]
                ok = (got == [] if want is None else want in got)
                if (o.hang or not o.matched or not ok) and bad is None:
                    bad = (name, tabs, want, got, o.matched, o.hang)
    except Unsupported as e:
        raise Undecided(f"CheckNestLineIndent / its primary is outside the evaluable subset: {e}")
    run.ob(rid, "rules/check_nest_line_indent.py::CheckNestLineIndent.run::continuation-line", bad is None,
           (f"a statement broken after a {bad[0]}, continuation line indented with {bad[1]} tabs: expected {bad[2] or 'no indentation diagnostic'}, "
            f"got {bad[3]} (statement recognised: {bad[4]}, endless loop in: {bad[5]})") if bad else "", None, evaluations=n)


def rule_chained_comments(run, prog, rid="R-3.8"):
    run.rule(rid, "every block comment inside the extent that IsComment claims is measured: IsComment.run followed by "
             "CheckCommentLineLen.run, interpreted on `/* a */ /* b`, an 85-column line, `*/` (and on the single-comment form), "
             "reports LINE_TOO_LONG for the over-long interior line -- or IsComment leaves the second comment to a statement of "
             "its own", floor=1)
    long_line = "x" * 85
    cases = {
        "single": "/* a\n" + long_line + "\n*/\n",
        "second of two on a line": "/* a */ /* b\n" + long_line + "\n*/\n",
        "third of three on a line": "/* a */ /* b */ /* c\n" + long_line + "\n*/\n",
    }
    bad, n = None, 0
    try:
        for name, src in cases.items():
            n += 1
            toks = lex(prog, src, first_line=20)
            o = run_statement(prog, toks, "IsComment", ["CheckCommentLineLen"], scope="GlobalScope", history=("IsVarDeclaration",))
            if not o.matched:
                bad = bad or (name, "IsComment does not recognise the statement", o.codes)
                continue
            # the comment that holds the long line: inside the claimed extent?
            idx = max(i for i, t in enumerate(toks) if t.__dict__["type"] == "MULT_COMMENT")
            inside = idx < o.claimed
            if inside and "LINE_TOO_LONG" not in o.codes and bad is None:
                bad = (name, f"IsComment claims {o.claimed} tokens, which includes the comment with the 85-column line, but "
                             f"CheckCommentLineLen reports", o.codes)
    except Unsupported as e:
        raise Undecided(f"IsComment / CheckCommentLineLen is outside the evaluable subset: {e}")
    run.ob(rid, "rules/check_comment_line_len.py::CheckCommentLineLen.run::every-claimed-comment", bad is None,
           (f"{bad[0]}: {bad[1]} {bad[2]}: an over-long comment line goes unreported") if bad else "", None, evaluations=n)
