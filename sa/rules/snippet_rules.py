"""Rules stated on C fragments run through the analysed pipeline by interpretation (sa/snippet.py; DESIGN §3.4b).

R-5.16 (C05)  every check that runs on a function prototype / declaration terminates, without an internal error, on a family of
              declarators (function pointers returning pointers, pointers to functions taking function pointers, arrays,
              unnamed parameters, nested parentheses).
R-2.8  (C02)  a wrong indentation depth on the continuation line of a multi-line statement is reported wherever the line is
              broken -- also after a complete (...) / [...] group.
R-3.8  (C03)  every block comment inside the extent a comment statement claims is measured by CheckCommentLineLen: an
              over-long interior line of a second comment on the same line is reported."""
from __future__ import annotations

from ..facts import registry_model
from ..minieval import Unsupported
from ..model import Undecided
from ..snippet import first_match, lex, run_statement

DECLARATORS = [
    "void\t*ft_lstmap(t_list *lst, void *(*f)(void *), void (*del)(void *))",
    "int\tapply(char *(*fn)(int), int n)",
    "void\tf(int (*g)(int), char **b)",
    "int\tmain(int argc, char **argv)",
    "void\tg(void)",
    "char\t*h(int tab[3], char *s[])",
    "void\tsig(void (*handler)(int, void (*)(int)))",
    "int\tk(int (*)(void))",
    "void\tsort(void *base, int (*cmp[4])(const void *, const void *))",
    "int\t(*get(int n))(int)",
    "void\tv(int a, ...)",
    "t_list\t**p(t_list **(*next)(t_list **), unsigned long long n)",
]


def _checks_of(rm, primary):
    return sorted(c.name for c in rm.checks if primary in rm.depends_on.get(c.name, []) and primary in rm.live_slots(c.name))


def rule_declarator_zoo(run, prog, rid="R-5.16"):
    run.rule(rid, "IsFuncPrototype / IsFuncDeclaration and every check attached to them, interpreted on 12 declarator shapes "
             "(function pointers returning pointers, function pointers taking function pointers, arrays of function pointers, "
             "unnamed and variadic parameters), come back: no step budget exhausted (endless loop), no Python-level exception", floor=1)
    rm = registry_model(prog)
    bad, n = None, 0
    try:
        for primary, tail, scope in (("IsFuncPrototype", ";\n", "GlobalScope"), ("IsFuncDeclaration", "\n{\n", "GlobalScope")):
            if prog.classes.get(primary) is None:
                continue
            checks = _checks_of(rm, primary)
            for d in DECLARATORS:
                n += 1
                toks = lex(prog, d + tail)
                o = run_statement(prog, toks, primary, checks, scope=scope)
                if o.hang and bad is None:
                    bad = (d, primary, f"{o.hang}.run does not terminate (interpreter step budget exhausted)")
                elif o.raised and o.raised not in ("CParsingError", "Raised") and not prog.is_sub(o.raised, "NorminetteError") and bad is None:
                    bad = (d, primary, f"an internal {o.raised} is raised")
    except Unsupported as e:
        raise Undecided(f"a rule that runs on function headers is outside the evaluable subset: {e}")
    run.ob(rid, "rules::function-headers::terminate", bad is None,
           (f"on the header `{bad[0]}` (recognised by {bad[1]}) {bad[2]}: the run never ends / dies with a traceback on a valid C file")
           if bad else "", None, evaluations=n)


def rule_continuation_indent(run, prog, rid="R-2.8"):
    run.rule(rid, "the check that emits TOO_MANY_TAB / TOO_FEW_TAB for continuation lines, interpreted on multi-line if / while / "
             "return statements whose line break follows a plain operand, a closed (...) group, a closed [...] group or a call, "
             "reports a continuation line with one tab too many / too few and accepts the conforming layout", floor=1)
    shapes = {
        "plain operand": ("\tif (a > 0\n", "&& b > 0)\n"),
        "closed [...] group": ("\tif (tab[i] > 0\n", "&& tab[j] > 0)\n"),
        "call": ("\twhile (ft_check(tab, len)\n", "&& len > 0)\n"),
        "closed (...) group": ("\tif ((a + b) > 0\n", "|| (c - d) > 0)\n"),
        "return": ("\treturn (ft_len(a)\n", "+ ft_len(b));\n"),
    }
    rm = registry_model(prog)
    bad, n = None, 0
    try:
        for name, (l1, l2) in shapes.items():
            primary = "IsExpressionStatement" if name == "return" else "IsControlStatement"
            checks = [c for c in _checks_of(rm, primary) if c == "CheckNestLineIndent"] or ["CheckNestLineIndent"]
            for tabs, want in ((2, None), (3, "TOO_MANY_TAB"), (1, "TOO_FEW_TAB")):
                n += 1
                toks = lex(prog, l1 + "\t" * tabs + l2, first_line=12)
                o = run_statement(prog, toks, primary, checks, scope="Function", history=("IsFuncDeclaration", "IsBlockStart"),
                                  scope_attrs={"indent": 1, "lvl": 1})
                got = [c for c in o.codes if c in ("TOO_MANY_TAB", "TOO_FEW_TAB")]
                ok = (got == [] if want is None else want in got)
                if (o.hang or not o.matched or not ok) and bad is None:
                    bad = (name, tabs, want, got, o.matched, o.hang)
    except Unsupported as e:
        raise Undecided(f"CheckNestLineIndent / its primary is outside the evaluable subset: {e}")
    run.ob(rid, "rules/check_nest_line_indent.py::CheckNestLineIndent.run::continuation-line", bad is None,
           (f"a statement broken after a {bad[0]}, continuation line indented with {bad[1]} tabs: expected {bad[2] or 'no indentation diagnostic'}, "
            f"got {bad[3]} (statement recognised: {bad[4]}, endless loop in: {bad[5]})") if bad else "", None, evaluations=n)


def rule_chained_comments(run, prog, rid="R-3.8"):
    run.rule(rid, "every block comment inside the extent that IsComment claims is measured: IsComment.run followed by "
             "CheckCommentLineLen.run, interpreted on `/* a */ /* b`, an 85-column line, `*/` (and on the single-comment form), "
             "reports LINE_TOO_LONG for the over-long interior line -- or IsComment leaves the second comment to a statement of "
             "its own", floor=1)
    long_line = "x" * 85
    cases = {
        "single": "/* a\n" + long_line + "\n*/\n",
        "second of two on a line": "/* a */ /* b\n" + long_line + "\n*/\n",
        "third of three on a line": "/* a */ /* b */ /* c\n" + long_line + "\n*/\n",
    }
    bad, n = None, 0
    try:
        for name, src in cases.items():
            n += 1
            toks = lex(prog, src, first_line=20)
            o = run_statement(prog, toks, "IsComment", ["CheckCommentLineLen"], scope="GlobalScope", history=("IsVarDeclaration",))
            if not o.matched:
                bad = bad or (name, "IsComment does not recognise the statement", o.codes)
                continue
            # the comment that holds the long line: inside the claimed extent?
            idx = max(i for i, t in enumerate(toks) if t.__dict__["type"] == "MULT_COMMENT")
            inside = idx < o.claimed
            if inside and "LINE_TOO_LONG" not in o.codes and bad is None:
                bad = (name, f"IsComment claims {o.claimed} tokens, which includes the comment with the 85-column line, but "
                             f"CheckCommentLineLen reports", o.codes)
    except Unsupported as e:
        raise Undecided(f"IsComment / CheckCommentLineLen is outside the evaluable subset: {e}")
    run.ob(rid, "rules/check_comment_line_len.py::CheckCommentLineLen.run::every-claimed-comment", bad is None,
           (f"{bad[0]}: {bad[1]} {bad[2]}: an over-long comment line goes unreported") if bad else "", None, evaluations=n)


def rule_brace_tail(run, prog, rid="R-3.9"):
    run.rule(rid, "the function-length verdict at the closing brace does not depend on what follows the brace on its line: "
             "CheckBrace.run, interpreted at `}` of a Function scope whose line counter is 20 .. 30, reports TOO_MANY_LINES for the "
             "same counter values whether the brace is followed by the newline, a blank, a tab, a // comment or a block comment", floor=1)
    from ..stubrun import RUNTIME_ERRORS, StubContext, line_tokens, run_rule
    m = prog.method("CheckBrace", "run")
    run.require(m is not None, "anchor vanished: CheckBrace.run")
    tails = {"newline": [], "blank": ["SPACE"], "tab": ["TAB"], "// comment": ["SPACE", ("COMMENT", "// end")],
             "block comment": ["TAB", ("MULT_COMMENT", "/* end */")]}
    verdicts = {}
    n = 0
    try:
        for tname, tail in tails.items():
            got = []
            for lines in range(20, 31):
                n += 1
                toks = line_tokens(["RBRACE"] + tail + ["NEWLINE"], 40, 1)
                sc = StubContext(prog, toks, history=("IsFuncDeclaration", "IsBlockStart", "IsExpressionStatement", "IsBlockEnd"),
                                 scope="Function", scope_attrs={"lines": lines, "indent": 1, "lvl": 1})
                try:
                    run_rule(prog, "CheckBrace", sc)
                except RUNTIME_ERRORS:
                    pass
                got.append("TOO_MANY_LINES" in sc.codes())
            verdicts[tname] = got
    except Unsupported as e:
        raise Undecided(f"CheckBrace.run is outside the evaluable subset: {e}")
    ref = verdicts["newline"]
    diff = next((t for t, v in verdicts.items() if v != ref), None)
    some = any(ref) and not all(ref)
    run.ob(rid, f"{m.key}::verdict-independent-of-tail", diff is None and some,
           (f"with the brace followed by a {diff} the counter values 20..30 give TOO_MANY_LINES {verdicts[diff]}, followed by the "
            f"newline {ref}: an over-long function escapes when its closing brace carries a comment or a stray blank") if diff
           else ("" if some else f"TOO_MANY_LINES is reported for {ref} over the counter values 20..30: no threshold in reach"),
           m.node, evaluations=n)


def rule_statement_extent(run, prog, rid="R-7.7"):
    run.rule(rid, "a statement does not reach into the next line: for two-line fragments of a function body whose first line is a "
             "complete statement (calls followed by -> / [ ] / = and a second call, subscripts of calls, plain calls and "
             "assignments), the primary that Registry.run would let claim the first line -- primaries interpreted in priority "
             "order -- claims at most the tokens of that line", floor=1)
    firsts = [
        "\tlast(*lst)->next = new_node(v);\n", "\ttab(v)[0] = lst[v];\n", "\tf(a);\n", "\tf(a)[1] = g(b)[2];\n", "\tx = f(a);\n",
        "\tp->next = (t_list *)malloc(sizeof(t_list));\n", "\tg(h(a), b)->c = d(e);\n", "\tt[i] = u[j];\n", "\t(*fn)(a);\n",
        "\treturn (f(a)[0]);\n",
    ]
    seconds = ["\tif (v)\n", "\tx = 1;\n", "\tg(b);\n"]
    bad, n = None, 0
    try:
        for a in firsts:
            for b in seconds:
                n += 1
                toks = lex(prog, a + b, first_line=14)
                line1 = next(i for i, t in enumerate(toks) if t.__dict__["type"] == "NEWLINE") + 1
                name, o = first_match(prog, toks, scope="Function", history=("IsFuncDeclaration", "IsBlockStart", "IsVarDeclaration", "IsEmptyLine"),
                                      scope_attrs={"indent": 1, "lvl": 1})
                if name is None or o is None:
                    continue                      # nothing recognises it: the registry raises, nothing is skipped
                if o.hang and bad is None:
                    bad = (a.strip(), b.strip(), name, "does not terminate")
                elif o.matched and o.claimed > line1 and bad is None:
                    bad = (a.strip(), b.strip(), name, f"claims {o.claimed} tokens, the line has {line1}")
    except Unsupported as e:
        raise Undecided(f"a primary is outside the evaluable subset: {e}")
    run.ob(rid, "registry.py::Registry.run::statement-extent", bad is None,
           (f"`{bad[0]}` followed by `{bad[1]}`: {bad[2]} {bad[3]}: the next statement is consumed as part of this one and never "
            f"examined on its own") if bad else "", None, evaluations=n)


def rule_operator_spacing(run, prog, rid="R-2.9"):
    run.rule(rid, "a blank removed next to an operator is reported whatever follows it: CheckOperatorsSpacing.run, interpreted on "
             "statements of a function body in which one blank after a comma / assignment / binary operator was removed in front "
             "of a unary operator, an identifier or a constant, reports a spacing diagnostic (SPC_AFTER_OPERATOR / SPC_BFR_OPERATOR "
             "/ NO_SPC_AFR_OPR ...); the conforming spellings get none (the family is the set of edits the pinned tree reports: "
             "`,*p` and `=!y` are accepted by it and are not in the family)", floor=1)
    pairs = [
        ("\tf(a, &b);\n", "\tf(a,&b);\n"), ("\tf(a, -1);\n", "\tf(a,-1);\n"), ("\tx = ~y;\n", "\tx =~y;\n"), ("\tx |= ~y;\n", "\tx |=~y;\n"),
        ("\tz = b & ~c;\n", "\tz = b &~c;\n"), ("\tf(a, b);\n", "\tf(a,b);\n"), ("\tx = a + b;\n", "\tx = a +b;\n"),
        ("\tx = a + b;\n", "\tx = a+ b;\n"),
    ]
    spacing = {"SPC_AFTER_OPERATOR", "SPC_BFR_OPERATOR", "NO_SPC_AFR_OPR", "NO_SPC_BFR_OPR", "SPC_AFTER_POINTER", "SPC_AFTER_PAR", "NO_SPC_BFR_PAR"}
    bad, n = None, 0
    try:
        for good, edited in pairs:
            res = []
            for src in (good, edited):
                n += 1
                toks = lex(prog, src, first_line=15)
                name, o = first_match(prog, toks, scope="Function", history=("IsFuncDeclaration", "IsBlockStart", "IsVarDeclaration", "IsEmptyLine"),
                                      scope_attrs={"indent": 1, "lvl": 1})
                if name is None or o is None or not o.matched:
                    res.append(None)
                    continue
                o2 = run_statement(prog, toks, name, ["CheckOperatorsSpacing"], scope="Function",
                                   history=("IsFuncDeclaration", "IsBlockStart", "IsVarDeclaration", "IsEmptyLine"), scope_attrs={"indent": 1, "lvl": 1})
                res.append(sorted(set(o2.codes) & spacing) if not o2.hang and not o2.raised else None)
            if res[0] is None or res[1] is None:
                continue                          # not recognised as a statement in this tree: nothing to compare
            if res[0] and bad is None:
                bad = (good.strip(), "conforming spelling", res[0])
            elif not res[1] and bad is None:
                bad = (edited.strip(), "blank removed", res[1])
    except Unsupported as e:
        raise Undecided(f"CheckOperatorsSpacing / a primary is outside the evaluable subset: {e}")
    run.ob(rid, "rules/check_operators_spacing.py::CheckOperatorsSpacing.run::removed-blank", bad is None,
           (f"`{bad[0]}` ({bad[1]}) gets the spacing diagnostics {bad[2]}") if bad else "", None, evaluations=n)


def rule_unrecognisable_fragments(run, prog, rid="R-7.8"):
    run.rule(rid, "an unrecognisable fragment is claimed by no statement kind: for a family of fragments that are no C statement (a "
             "stray constant, closing bracket, string, operator, `= 3`, each alone, after a `;`, with and without the final newline "
             "of the file), at file level, no primary -- interpreted in priority order the way Registry.run tries them -- reports a "
             "match that covers the fragment without a diagnostic (the registry then raises its fatal `Unrecognized line`)",
             floor=1)
    garbage = ["42", "]", ")", '"abc"', "->", "+", "= 3", "42 ]", ";42", "; ]", "\t)", "))", "# /* c */ 42 ]", "#/* c */ ] x"]
    bad, n = None, 0
    try:
        for g in garbage:
            # the last line of the file, with and without its newline; a surplus closing parenthesis can be part of no statement
            # either, so it is also tried in front of a declaration (other fragments are absorbed there by the catch-all
            # IsDeclaration and reported through the checks: DESIGN §6)
            for tail in ("", "\n") + (("\nint\tg_x;\n",) if g.strip() in (")", "))") else ()):
                n += 1
                toks = lex(prog, g + tail, first_line=30)
                name, o = first_match(prog, toks, scope="GlobalScope", history=("IsFuncDeclaration", "IsBlockStart", "IsBlockEnd"))
                if name is None or o is None or o.raised or not o.matched:
                    continue
                if o.hang:
                    bad = bad or (g, tail, name, "does not terminate")
                    continue
                # a leading `;` / blank may be a statement of its own; what must not happen is that the claim reaches the garbage
                first_garbage = next(i for i, t in enumerate(toks) if t.__dict__["type"] not in ("SEMI_COLON", "SPACE", "TAB"))
                if o.claimed > first_garbage and not o.codes and bad is None:
                    bad = (g, tail, name, f"claims {o.claimed} token(s) of {len(toks)} without a diagnostic")
    except Unsupported as e:
        raise Undecided(f"a primary is outside the evaluable subset: {e}")
    run.ob(rid, "registry.py::Registry.run::unrecognisable-fragment", bad is None,
           (f"the fragment {bad[0]!r} followed by {bad[1]!r} at file level: {bad[2]} {bad[3]}: text no rule understands is consumed "
            f"silently and the file can still be reported OK!") if bad else "", None, evaluations=n)


def rule_vla_sizes(run, prog, rid="R-2.11"):
    run.rule(rid, "a variable-length array is reported whatever the variable is called: the statement `char buf[<size>];` of a "
             "function body, recognised by the primaries in priority order and handed to CheckVariableIndent (both interpreted), gets "
             "VLA_FORBIDDEN for every size spelled with at least one lower-case letter (n, len, nLen, Len, bufLen, n_len2, x9) and for "
             "none of the constant sizes (BUF_SIZE, N2, 42)", floor=1)
    variable = ["n", "len", "nLen", "Len", "bufLen", "n_len2", "x9", "aB"]
    constant = ["BUF_SIZE", "N2", "42", "_"]
    hist = ("IsFuncDeclaration", "IsBlockStart")
    bad, n = None, 0
    try:
        for size in variable + constant:
            n += 1
            toks = lex(prog, f"\tchar\tbuf[{size}];\n", first_line=12)
            name, o = first_match(prog, toks, scope="Function", history=hist, scope_attrs={"indent": 1, "lvl": 1})
            if name is None or o is None or not o.matched:
                continue                          # not recognised as a declaration in this tree: nothing to say here
            o2 = run_statement(prog, toks, name, ["CheckVariableIndent"], scope="Function", history=hist, scope_attrs={"indent": 1, "lvl": 1})
            if o2.hang or o2.raised:
                continue
            got = "VLA_FORBIDDEN" in o2.codes
            if got != (size in variable) and bad is None:
                bad = (size, got, o2.codes)
    except Unsupported as e:
        raise Undecided(f"CheckVariableIndent / a primary is outside the evaluable subset: {e}")
    run.ob(rid, "rules/check_variable_indent.py::CheckVariableIndent::vla-by-name", bad is None,
           (f"`char buf[{bad[0]}];` in a function body: VLA_FORBIDDEN is {'reported' if bad[1] else 'not reported'} (diagnostics {bad[2]}); "
            f"a size spelled with a lower-case letter is a variable, an upper-case / numeric one a constant") if bad else "", None,
           evaluations=n)


def rule_lines_counted_everywhere(run, prog, rid="R-3.11"):
    run.rule(rid, "every line inside a function counts, whatever construct it is in: CheckLineCount.run, interpreted on a statement of one, "
             "two and three lines standing in each scope a function body can contain (the body itself, a control structure, a local "
             "struct / union / enum definition, a brace initialiser), adds that number of lines to the current scope -- from where "
             "Context.update hands them to the function when the scope is left (R-3.5)", floor=1)
    from ..stubrun import StubContext, line_tokens, make_scope, run_rule, RUNTIME_ERRORS
    cl = prog.method("CheckLineCount", "run")
    run.require(cl is not None, "anchor vanished: CheckLineCount.run")
    scopes = [s for s in ("Function", "ControlStructure", "UserDefinedType", "UserDefinedEnum", "VariableAssignation") if s in prog.classes]
    run.require(len(scopes) >= 4, f"only the scope classes {scopes} found")
    bad, n = None, 0
    try:
        for scope in scopes:
            for k in (1, 2, 3):
                n += 1
                stmt = []
                for i in range(k):
                    stmt += ["TAB", ("IDENTIFIER", f"a{i}"), "COMMA" if i < k - 1 else "SEMI_COLON", "NEWLINE"]
                toks = line_tokens(stmt, 14, 1)
                parent = make_scope("Function", parent=make_scope("GlobalScope")) if scope != "Function" else make_scope("GlobalScope")
                sc = StubContext(prog, toks, history=("IsFuncDeclaration", "IsBlockStart", "IsVarDeclaration"), scope=scope,
                                 scope_attrs={"parent": parent, "lines": 5})
                try:
                    run_rule(prog, "CheckLineCount", sc)
                except RUNTIME_ERRORS as e:
                    bad = bad or (scope, k, f"raises {type(e).__name__}")
                    continue
                got = sc.obj.scope.lines - 5
                if got != k and bad is None:
                    bad = (scope, k, f"adds {got} line(s)")
    except Unsupported as e:
        raise Undecided(f"CheckLineCount.run is outside the evaluable subset: {e}")
    run.ob(rid, f"{cl.key}::counts-in-every-scope", bad is None,
           (f"a {bad[1]}-line statement in the scope {bad[0]} {bad[2]} to the scope's line count: the lines of that construct never reach "
            f"the function's 25-line count") if bad else "", cl.node, evaluations=n)


def rule_brace_respelling(run, prog, rid="R-12.7"):
    run.rule(rid, "a brace written as a digraph or trigraph gets the diagnostics of the plain brace: the lines `{`, `}` (alone, indented, "
             "with a trailing blank, followed by a comment) and their `<% %>` / `??< ??>` spellings are lexed by interpreting the "
             "tree's lexer, offered to the primaries in priority order and handed to CheckBrace: the same diagnostic codes come out "
             "for every spelling", floor=1)
    shapes = ["{}\n", "\t{}\n", "{} \n", "{}\t/* c */\n", "\t{}\n"]
    spell = {"{": ("{", "<%", "??<"), "}": ("}", "%>", "??>")}
    bad, n = None, 0
    try:
        for brace, hist, scope in (("{", ("IsFuncDeclaration",), "Function"), ("}", ("IsFuncDeclaration", "IsBlockStart", "IsExpressionStatement"), "Function")):
            for shape in shapes:
                ref = None
                for sp in spell[brace]:
                    n += 1
                    toks = lex(prog, shape.replace("{}", sp), first_line=11)
                    attrs = {"parent": None, "lines": 3, "indent": 1, "lvl": 1}
                    name, o = first_match(prog, toks, scope=scope, history=hist, scope_attrs=dict(attrs))
                    if name is None or o is None or not o.matched or o.hang or o.raised:
                        got = ("unrecognised", name)
                    else:
                        o2 = run_statement(prog, toks, name, ["CheckBrace"], scope=scope, history=hist, scope_attrs=dict(attrs))
                        got = ("codes", name, tuple(sorted(o2.codes)), o2.raised)
                    if ref is None:
                        ref = (sp, got)
                    elif got != ref[1] and bad is None:
                        bad = (shape.replace("{}", ref[0]), ref[1], shape.replace("{}", sp), got)
    except Unsupported as e:
        raise Undecided(f"CheckBrace / a primary is outside the evaluable subset: {e}")
    run.ob(rid, "rules/check_brace.py::CheckBrace.run::respelling-invariant", bad is None,
           (f"{bad[0]!r} gives {bad[1]} but its spelling {bad[2]!r} gives {bad[3]}: the width of the spelling leaks into the diagnostics")
           if bad else "", None, evaluations=n)


def rule_global_prefix(run, prog, rid="R-2.12"):
    run.rule(rid, "a global without its g_ prefix is reported whatever it is called: the file-level declaration `int <name>;`, recognised "
             "by the primaries in priority order and handed to CheckGlobalNaming (both interpreted), gets GLOBAL_VAR_NAMING for every "
             "name that does not start with g_ (count, n, env, iron, on, x_g, gcount) and not for g_count / g_n / environ", floor=1)
    wrong = ["count", "n", "env", "iron", "on", "x_g", "gcount", "e"]
    right = ["g_count", "g_n", "environ"]
    hist = ("IsFuncDeclaration", "IsBlockStart", "IsBlockEnd", "IsEmptyLine")
    bad, n = None, 0
    try:
        for name_ in wrong + right:
            n += 1
            toks = lex(prog, f"int\t{name_};\n", first_line=21)
            prim, o = first_match(prog, toks, scope="GlobalScope", history=hist)
            if prim is None or o is None or not o.matched:
                continue
            o2 = run_statement(prog, toks, prim, ["CheckGlobalNaming"], scope="GlobalScope", history=hist)
            if o2.hang or o2.raised:
                continue
            got = "GLOBAL_VAR_NAMING" in o2.codes
            if got != (name_ in wrong) and bad is None:
                bad = (name_, got, o2.codes)
    except Unsupported as e:
        raise Undecided(f"CheckGlobalNaming / a primary is outside the evaluable subset: {e}")
    run.ob(rid, "rules/check_global_naming.py::CheckGlobalNaming::prefix-by-name", bad is None,
           (f"`int {bad[0]};` at file level: GLOBAL_VAR_NAMING is {'reported' if bad[1] else 'not reported'} (diagnostics {bad[2]})")
           if bad else "", None, evaluations=n)
