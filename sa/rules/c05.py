"""C05 — every input gets an answer: no hang, no internal error (partial).
Seven disciplines, DESIGN.md §4.5."""
from __future__ import annotations

import ast
import re._parser as sre_parse          # type: ignore
import re._constants as sre_c           # type: ignore
from typing import Dict, List, Optional, Set, Tuple

from ..calls import callgraph, lexer_parsers
from ..cfg import cfg_of
from ..facts import conjuncts, registry_model
from ..fold import RegexConst, fold_in_fn, fold_name, try_fold, Unknown
from ..minieval import Evaluator, Obj, Raised, Unsupported
from ..model import AnalysisError, Fn, ancestors, enclosing_fn, parent, text, walk_fn
from ..tri import EndState, BodyResult, explore_body, truthy, T, F, N, U, X

REPO_EXC = ("NorminetteError", "CParsingError", "MaybeInfiniteLoop", "UnexpectedEOF")


# =========================================================================== R-5.1
def _tuple_arity_sites(prog):
    """function key -> (arity, example site) for functions whose result is tuple-unpacked."""
    cg = callgraph(prog)
    need: Dict[str, Tuple[int, ast.AST]] = {}
    for c in cg.calls:
        p = parent(c.node)
        if isinstance(c.node, ast.Call) and isinstance(p, ast.Assign) and p.value is c.node \
                and len(p.targets) == 1 and isinstance(p.targets[0], ast.Tuple):
            n = len(p.targets[0].elts)
            for t in c.targets:
                if t.name in ("__init__", "__new__"):
                    continue
                need.setdefault(t.key, (n, p))
    # ret, read = result   in Registry.run_rules stands for every Primary.run
    rr = prog.fn("registry.py::Registry.run_rules")
    stands = False
    for n in walk_fn(rr.node):
        if isinstance(n, ast.Assign) and isinstance(n.targets[0], ast.Tuple) and len(n.targets[0].elts) == 2 \
                and "result" in text(n.value):
            stands = True
            for c in registry_model(prog).primaries:
                m = prog.method(c.name, "run")
                if m is not None:
                    need.setdefault(m.key, (2, n))
    if not stands:
        raise AnalysisError("anchor vanished: 'ret, read = result ...' in Registry.run_rules")
    return need


def _returns_none_explicitly(fn: Fn) -> bool:
    for n in walk_fn(fn.node):
        if isinstance(n, ast.Return) and (n.value is None or (isinstance(n.value, ast.Constant) and n.value.value is None)):
            return True
    return False


def rule_ret(run, prog):
    run.rule("R-5.1", "RET: every function whose result is tuple-unpacked returns a tuple of that arity (or the result of "
             "such a function, or raises) on every CFG path; falling off the end / bare return is a violation "
             "(helpers that declare None by an explicit `return None` are Optional-returning and outside the rule, "
             "Primary.run never is)", floor=30)
    cg = callgraph(prog)
    need = _tuple_arity_sites(prog)
    primaries_run = {prog.method(c.name, "run").key for c in registry_model(prog).primaries if prog.method(c.name, "run")}
    # propagate through `return g(...)`
    changed = True
    while changed:
        changed = False
        for key, (ar, site) in list(need.items()):
            fn = prog.fn_by_key[key]
            for n in walk_fn(fn.node):
                if isinstance(n, ast.Return) and isinstance(n.value, ast.Call):
                    for c in cg.calls_of.get(key, []):
                        if c.node is n.value:
                            for t in c.targets:
                                if t.key not in need and t.name not in ("__init__", "__new__"):
                                    need[t.key] = (ar, n)
                                    changed = True
    for key in sorted(need):
        ar, site = need[key]
        fn = prog.fn_by_key[key]
        strict = key in primaries_run
        if not strict and _returns_none_explicitly(fn):
            run.note(f"R-5.1: {key} declares None explicitly (Optional-returning helper), skipped")
            continue
        g = cfg_of(fn)
        bad = []
        for p, lab in g.pred[g.exit]:
            node = g.nodes[p]
            a = node.ast
            if node.kind == "stmt" and isinstance(a, ast.Return):
                v = a.value
                if _ok_return_value(v, ar, need, cg, fn):
                    continue
                bad.append((a, f"returns {text(v) if v is not None else 'nothing'}"))
            else:
                bad.append((a if a is not None else fn.node, "falls off the end (implicit None)"))
        # unreachable returns are not paths
        reach = g.reachable()
        bad = [(a, w) for a, w in bad if g.nid(a) is None or g.nid(a) in reach]
        run.ob("R-5.1", f"{key}::returns[{ar}]", not bad,
               f"{fn.qual} is unpacked into {ar} values but " + "; ".join(f"{w} at line {getattr(a, 'lineno', '?')}" for a, w in bad[:3]),
               bad[0][0] if bad else fn.node, arity=ar, strict=strict)


def _ok_return_value(v, ar, need, cg, fn) -> bool:
    if v is None:
        return False
    if isinstance(v, ast.Tuple):
        return len(v.elts) == ar and not any(isinstance(e, ast.Starred) for e in v.elts)
    if isinstance(v, ast.IfExp):
        return _ok_return_value(v.body, ar, need, cg, fn) and _ok_return_value(v.orelse, ar, need, cg, fn)
    if isinstance(v, ast.Call):
        for c in cg.calls_of.get(fn.key, []):
            if c.node is v:
                ts = [t for t in c.targets if t.name not in ("__init__", "__new__")]
                return bool(ts) and all(t.key in need and need[t.key][0] == ar for t in ts)
        return False
    if isinstance(v, ast.Name):
        # a local bound only from tuple displays of the right arity / calls of the family
        vals = [n.value for n in walk_fn(fn.node) if isinstance(n, ast.Assign) and any(
            isinstance(t, ast.Name) and t.id == v.id for t in n.targets)]
        return bool(vals) and all(_ok_return_value(x, ar, need, cg, fn) for x in vals)
    return False


def rule_ret_positions(run, prog):
    run.rule("R-5.1b", "RET (positions): every helper whose result is consumed as a number at some resolved call site "
             "(operand of + - < ..., augmented assignment, or bound to a name that is then used as a token position) "
             "returns a value on every CFG path: no falling off the end, no bare return", floor=8)
    cg = callgraph(prog)
    POS_CONSUMERS = ("check_token", "peek_token", "skip_ws", "skip_nest", "eol", "skip_misc_specifier", "pop_tokens")
    numeric: Dict[str, ast.AST] = {}
    for c in cg.calls:
        if not isinstance(c.node, ast.Call) or c.how.startswith("protocol") or c.how == "property":
            continue
        p = parent(c.node)
        use = None
        if isinstance(p, ast.BinOp) or (isinstance(p, ast.AugAssign) and p.value is c.node) or \
                (isinstance(p, ast.Compare) and not any(isinstance(o, (ast.Is, ast.IsNot, ast.Eq, ast.NotEq, ast.In, ast.NotIn)) for o in p.ops)):
            use = p
        elif isinstance(p, ast.Assign) and p.value is c.node and len(p.targets) == 1 and isinstance(p.targets[0], ast.Name):
            nm = p.targets[0].id
            for x in walk_fn(c.caller.node):
                if isinstance(x, ast.Call) and isinstance(x.func, ast.Attribute) and x.func.attr in POS_CONSUMERS and x.args \
                        and any(isinstance(y, ast.Name) and y.id == nm for y in ast.walk(x.args[0])) and x.lineno >= p.lineno:
                    use = p
                    break
        if use is None:
            continue
        for t in c.targets:
            if t.name in ("__init__", "__new__") or t.mod.rel == "errors.py":
                continue
            numeric.setdefault(t.key, use)
    for key in sorted(numeric):
        fn = prog.fn_by_key[key]
        g = cfg_of(fn)
        reach = g.reachable()
        bad = []
        for pnode, lab in g.pred[g.exit]:
            if pnode not in reach:
                continue
            node = g.nodes[pnode]
            a = node.ast
            if node.kind == "stmt" and isinstance(a, ast.Return):
                if a.value is None or (isinstance(a.value, ast.Constant) and a.value.value is None):
                    bad.append((a, "returns None"))
            else:
                bad.append((a if a is not None else fn.node, "falls off the end (implicit None)"))
        run.ob("R-5.1b", f"{key}::returns-a-position", not bad,
               f"{fn.qual} is used as a number ({text(numeric[key], 50)}) but " + "; ".join(
                   f"{w} at line {getattr(a, 'lineno', '?')}" for a, w in bad[:3]) + ": TypeError traceback on that path",
               bad[0][0] if bad else fn.node)


# =========================================================================== R-5.2
def exc_bases(prog, name: str) -> Set[str]:
    import builtins
    b = getattr(builtins, name, None)
    if name not in prog.classes and isinstance(b, type) and issubclass(b, BaseException):
        return {c.__name__ for c in b.__mro__ if c is not object}
    out = {name}
    todo = [name]
    while todo:
        c = todo.pop()
        if c in prog.classes:
            for b in prog.classes[c].bases:
                if b not in out:
                    out.add(b)
                    todo.append(b)
    out |= {"Exception", "BaseException"}
    return out


def handler_names(h: ast.ExceptHandler) -> List[str]:
    if h.type is None:
        return ["BaseException"]
    if isinstance(h.type, ast.Tuple):
        return [text(e).split(".")[-1] for e in h.type.elts]
    return [text(h.type).split(".")[-1]]


def caught_at(prog, node, exc: str, stop_fn_node) -> bool:
    """Is an exception of class *exc* raised at *node* caught by a lexically enclosing try (body part) in the same function?"""
    bases = exc_bases(prog, exc)
    cur = node
    for a in ancestors(node):
        if a is stop_fn_node:
            break
        if isinstance(a, ast.Try) and any(cur is s for s in a.body):
            for h in a.handlers:
                if any(nm in bases for nm in handler_names(h)):
                    return True
        cur = a
    return False


def _regex_may_match(pattern: str, flags: int, ch: str) -> bool:
    """May a string matched by the pattern contain character *ch*?  (conservative)"""
    try:
        tree = sre_parse.parse(pattern, flags)
    except Exception:
        return True
    code = ord(ch)

    def in_set(items) -> bool:
        neg = False
        hit = False
        for op, av in items:
            if op is sre_c.NEGATE:
                neg = True
            elif op is sre_c.LITERAL:
                hit |= av == code
            elif op is sre_c.RANGE:
                hit |= av[0] <= code <= av[1]
            elif op is sre_c.CATEGORY:
                hit |= _category_has(av, ch)
        return (not hit) if neg else hit

    def walk(seq) -> bool:
        for op, av in seq:
            if op is sre_c.LITERAL:
                if av == code:
                    return True
            elif op is sre_c.NOT_LITERAL:
                if av != code:
                    return True
            elif op is sre_c.ANY:
                return True
            elif op is sre_c.IN:
                if in_set(av):
                    return True
            elif op is sre_c.CATEGORY:
                if _category_has(av, ch):
                    return True
            elif op is sre_c.BRANCH:
                if any(walk(b) for b in av[1]):
                    return True
            elif op in (sre_c.MAX_REPEAT, sre_c.MIN_REPEAT, getattr(sre_c, "POSSESSIVE_REPEAT", None)):
                if walk(av[2]):
                    return True
            elif op is sre_c.SUBPATTERN:
                if walk(av[3]):
                    return True
            elif op in (sre_c.ASSERT, sre_c.ASSERT_NOT, sre_c.AT):
                continue                   # zero width
            elif op is getattr(sre_c, "ATOMIC_GROUP", None):
                if walk(av):
                    return True
            elif op is sre_c.GROUPREF or op is sre_c.GROUPREF_EXISTS:
                return True
        return False

    return walk(tree)


def _category_has(cat, ch: str) -> bool:
    import re as _re
    table = {
        sre_c.CATEGORY_DIGIT: r"\d", sre_c.CATEGORY_NOT_DIGIT: r"\D",
        sre_c.CATEGORY_SPACE: r"\s", sre_c.CATEGORY_NOT_SPACE: r"\S",
        sre_c.CATEGORY_WORD: r"\w", sre_c.CATEGORY_NOT_WORD: r"\W",
    }
    pat = table.get(cat)
    if pat is None:
        return True
    return _re.match(pat, ch) is not None


PEEKS = ("peek", "raw_peek")


def _peek_derived_names(fn: Fn) -> Set[str]:
    """Names bound (transitively, by unpacking) from self.peek()/self.raw_peek() results."""
    names: Set[str] = set()
    changed = True
    while changed:
        changed = False
        for n in walk_fn(fn.node):
            tgt = val = None
            if isinstance(n, ast.Assign) and len(n.targets) == 1:
                tgt, val = n.targets[0], n.value
            elif isinstance(n, ast.NamedExpr):
                tgt, val = n.target, n.value
            elif isinstance(n, ast.For):
                tgt, val = n.target, n.iter
            if tgt is None:
                continue
            src = False
            for c in ast.walk(val):
                if isinstance(c, ast.Call) and isinstance(c.func, ast.Attribute) and c.func.attr in PEEKS:
                    src = True
                if isinstance(c, ast.Name) and c.id in names:
                    src = True
            if src:
                for nm in _tnames(tgt):
                    if nm not in names and nm != "_":
                        names.add(nm)
                        changed = True
    return names


def _tnames(t):
    if isinstance(t, ast.Name):
        return [t.id]
    if isinstance(t, (ast.Tuple, ast.List)):
        out = []
        for e in t.elts:
            out += _tnames(e)
        return out
    return []


def _const_without(fn: Fn, node, ch: str, peeked: Set[str]) -> bool:
    """Expression folds to a constant (str / container of str / dict) none of whose
    members contains *ch*; or is built from already guarded peek-derived names and such constants."""
    v = fold_in_fn(node, fn, default=None)
    if v is None:
        if isinstance(node, ast.BinOp):
            return all(_const_without(fn, s, ch, peeked) or (isinstance(s, ast.Name) and s.id in peeked)
                       or isinstance(s, ast.Constant) and isinstance(s.value, int)
                       for s in (node.left, node.right))
        return False
    if isinstance(v, str):
        return ch not in v
    if isinstance(v, dict):
        return all(isinstance(k, str) and ch not in k for k in v)
    if isinstance(v, (tuple, list, frozenset, set)):
        return all(isinstance(k, str) and ch not in k for k in v)
    return False


def _guards(fn: Fn, g):
    """Strong guards: places that establish 'the next character(s) are drawn from a backslash-free set'.
    Returns (unconditional: set of node ids, edges: {test node id: 'T' | 'F'})  -- for a test node the
    restriction holds on the outgoing edge with that label only."""
    peeked = _peek_derived_names(fn)

    def mentions_peek(e) -> bool:
        for c in ast.walk(e):
            if isinstance(c, ast.Call) and isinstance(c.func, ast.Attribute) and c.func.attr in PEEKS:
                return True
            if isinstance(c, ast.Name) and c.id in peeked:
                return True
        return False

    def is_match_call(c) -> bool:
        if isinstance(c, ast.Call) and isinstance(c.func, ast.Attribute) and c.func.attr == "match":
            rc = fold_in_fn(c.func.value, fn, default=None)
            return isinstance(rc, RegexConst) and not _regex_may_match(rc.pattern, rc.flags, "\\")
        return False

    def side(e) -> Optional[str]:
        """On which outcome of *e* is the restriction established?"""
        if isinstance(e, ast.UnaryOp) and isinstance(e.op, ast.Not):
            r = side(e.operand)
            return {"T": "F", "F": "T"}.get(r)
        if isinstance(e, ast.BoolOp):
            rs = [side(v) for v in e.values]
            if isinstance(e.op, ast.And):
                return "T" if "T" in rs else None
            return "F" if "F" in rs else None
        if isinstance(e, ast.Compare) and len(e.ops) == 1:
            l, op, r = e.left, e.ops[0], e.comparators[0]
            ok = (mentions_peek(l) and _const_without(fn, r, "\\", peeked)) or \
                 (mentions_peek(r) and _const_without(fn, l, "\\", peeked))
            if ok and isinstance(op, (ast.In, ast.Eq)):
                return "T"
            if ok and isinstance(op, (ast.NotIn, ast.NotEq)):
                return "F"
            return None
        if isinstance(e, ast.Call) and isinstance(e.func, ast.Attribute) and e.func.attr in ("startswith", "endswith") \
                and mentions_peek(e.func.value) and e.args and _const_without(fn, e.args[0], "\\", peeked):
            return "T"
        if isinstance(e, ast.NamedExpr):
            return "T" if is_match_call(e.value) else side(e.value)
        if is_match_call(e):
            return "T"
        return None

    uncond: Set[int] = set()
    edges: Dict[int, str] = {}
    for node in g.nodes:
        a = node.ast
        if a is None:
            continue
        if node.kind == "test":
            r = side(a)
            if r is not None:
                edges[node.id] = r
        elif node.kind == "stmt" and isinstance(a, ast.Assign):
            if any(is_match_call(c) for c in ast.walk(a.value)):
                uncond.add(node.id)
    return uncond, edges


def _pop_sites(fn: Fn):
    return [n for n in walk_fn(fn.node) if isinstance(n, ast.Call) and isinstance(n.func, ast.Attribute)
            and n.func.attr == "pop" and isinstance(n.func.value, ast.Name) and n.func.value.id == "self"]


def _cfg_node_of_expr(g, e):
    n = e
    while n is not None:
        nid = g.nid(n)
        if nid is not None:
            return nid
        if isinstance(n, (ast.If, ast.While)):
            t = g.nid(n.test)
            if t is not None:
                return t
        n = parent(n)
    return None


def head_verified(fn: Fn, pop_call) -> bool:
    """Every path to this pop -- from the function entry, or from a previous pop (this one included,
    around a loop) -- establishes a strong guard first (traverses a restricted edge of a guard test,
    or an unconditional guard statement)."""
    g = cfg_of(fn)
    uncond, edges = _guards(fn, g)
    site = _cfg_node_of_expr(g, pop_call)
    if site is None:
        return False
    pops = {_cfg_node_of_expr(g, p) for p in _pop_sites(fn)}
    pops.discard(None)

    def unguarded_edge(n, m, lab) -> bool:
        return not (n in edges and lab == edges[n])

    for s in [g.entry] + sorted(pops):
        if g.can_reach(s, site, avoid=uncond - {site}, edge_filter=unguarded_edge):
            return False
    return True


def rule_exc(run, prog):
    run.rule("R-5.2", "EXC: repository exceptions raised below the per-file try of main are all covered by one of its "
             "handlers; below Lexer.__iter__ (tokenizer totality) nothing may escape: every self.pop() in a sub-parser "
             "is head-verified (dominated, since the previous pop, by a test restricting the next characters to a "
             "backslash-free set) or inside try/except UnexpectedEOF; explicit raises are caught before the entry",
             floor=30)
    cg = callgraph(prog)
    # ---- raise sites
    raises = []     # (fn, node, class)
    for fn in prog.fns:
        for n in walk_fn(fn.node):
            if isinstance(n, ast.Raise) and n.exc is not None:
                cn = text(n.exc.func if isinstance(n.exc, ast.Call) else n.exc).split(".")[-1]
                if cn in prog.classes and prog.is_sub(cn, "NorminetteError"):
                    raises.append((fn, n, cn))
                elif isinstance(getattr(__import__("builtins"), cn, None), type) \
                        and issubclass(getattr(__import__("builtins"), cn), BaseException) \
                        and fn.mod.rel != "__main__.py":
                    raises.append((fn, n, cn))      # explicit raise of a builtin exception below main
    run.require(len(raises) >= 25, f"only {len(raises)} repository raise sites found (floor 25)")

    # escaping[fn key] = set of (class, origin key)  computed to a fixed point
    escaping: Dict[str, Set[Tuple[str, str]]] = {}
    origin_node = {}
    for fn, n, cn in raises:
        if not caught_at(prog, n, cn, fn.node):
            okey = f"{fn.key}::raise[{cn}]"
            k2 = okey
            i = 2
            while k2 in origin_node and origin_node[k2] is not n:
                k2 = f"{okey}#{i}"
                i += 1
            origin_node[k2] = n
            escaping.setdefault(fn.key, set()).add((cn, k2))
    lexer_fns = {f.key for f in prog.fns if f.cls is not None and f.cls.name == "Lexer"}
    pop_key = "lexer/lexer.py::Lexer.pop"
    head_cache: Dict[int, bool] = {}
    changed = True
    while changed:
        changed = False
        for c in cg.calls:
            if not isinstance(c.node, ast.Call) and not isinstance(c.node, (ast.For, ast.comprehension, ast.Attribute)):
                continue
            for t in c.targets:
                for (cn, okey) in list(escaping.get(t.key, ())):
                    caller = c.caller
                    if caught_at(prog, c.node, cn, caller.node):
                        continue
                    # feasibility refinement for Lexer.pop
                    if t.key == pop_key and caller.key in lexer_fns and isinstance(c.node, ast.Call):
                        hv = head_cache.get(id(c.node))
                        if hv is None:
                            hv = head_verified(caller, c.node)
                            head_cache[id(c.node)] = hv
                        if hv:
                            continue
                    s = escaping.setdefault(caller.key, set())
                    if (cn, okey) not in s:
                        s.add((cn, okey))
                        changed = True
    # ---- obligation A: main's per-file try covers everything escaping its body
    main = prog.fn("__main__.py::main")
    trys = [n for n in walk_fn(main.node) if isinstance(n, ast.Try) and any(
        isinstance(c, ast.Call) and text(c.func).endswith("registry.run") for c in ast.walk(n))]
    run.require(len(trys) == 1, "anchor vanished: per-file try of main")
    tr = trys[0]
    body_calls = [c for c in cg.calls_of.get(main.key, []) if any(c.node is x or _inside(c.node, s) for s in tr.body for x in [s])]
    run.require(len(body_calls) >= 3, "per-file try body has fewer than 3 resolved calls")
    reported = set()
    n_ob = 0
    for c in body_calls:
        for t in c.targets:
            for (cn, okey) in sorted(escaping.get(t.key, ())):
                if (cn, okey) in reported:
                    continue
                reported.add((cn, okey))
                covered = any(nm in exc_bases(prog, cn) for h in tr.handlers for nm in handler_names(h))
                n_ob += 1
                run.ob("R-5.2", f"{okey}->entry[main]", covered,
                       f"{cn} raised at {okey} can reach main's per-file try, which has no handler for it: traceback",
                       origin_node.get(okey), handlers=[handler_names(h) for h in tr.handlers])
    # ---- obligation B: tokenizer totality (entry Lexer.__iter__, allowed set empty)
    it = prog.fn("lexer/lexer.py::Lexer.__iter__")
    for (cn, okey) in sorted(escaping.get(it.key, ())):
        run.ob("R-5.2", f"{okey}->entry[Lexer.__iter__]", False,
               f"{cn} raised at {okey} can escape the tokenizer (Lexer.__iter__): the tokenizer is not total",
               origin_node.get(okey))
    # ---- obligation C: pop call sites
    parsers = lexer_parsers(prog)
    npop = 0
    for fn in [f for f in prog.fns if f.key in lexer_fns and f.name not in ("pop",)]:
        seen_here = 0
        for pc in _pop_sites(fn):
            npop += 1
            seen_here += 1
            hv = head_cache.get(id(pc))
            if hv is None:
                hv = head_verified(fn, pc)
            protected = caught_at(prog, pc, "UnexpectedEOF", fn.node)
            run.ob("R-5.2", f"{fn.key}::pop[{'head' if hv else 'content'}]", hv or protected,
                   "content pop (next character not restricted by a dominating test) outside try/except UnexpectedEOF: "
                   "a backslash-newline at end of input ends in a traceback", pc, head_verified=hv, in_try=protected)
    run.require(npop >= 15, f"only {npop} self.pop() call sites found in the lexer (floor 15)")
    # ---- CParsingError must not be swallowed below main (R-7.3 shares this)
    for fn in prog.fns:
        if fn.mod.rel == "__main__.py":
            continue
        for n in walk_fn(fn.node):
            if isinstance(n, ast.Try):
                for h in n.handlers:
                    names = handler_names(h)
                    if any(nm in ("CParsingError", "NorminetteError", "Exception", "BaseException") for nm in names):
                        reraises = any(isinstance(x, ast.Raise) for x in ast.walk(h))
                        run.ob("R-5.2", f"{fn.key}::handler[{','.join(names)}]", reraises,
                               "a handler below main swallows fatal parse errors (no raise inside it)", h)


def _inside(node, container) -> bool:
    n = node
    while n is not None:
        if n is container:
            return True
        n = parent(n)
    return False


# =========================================================================== R-5.3
BOUNDED_CYCLES = {
    ("registry.py::Registry.run_rules",):
        "depth 2: a Check never yields ret (run_rules maps non-Primary results to (False, 0)), so the recursive calls do not recurse",
    ("context.py::Context.update",):
        "one level per closed single-line control structure: each recursive call has moved self.scope to its parent",
}


def rule_rec(run, prog):
    run.rule("R-5.3", "REC: every call-graph cycle is in the table of cycles of bounded depth (reason re-checked) or is "
             "entered only under try/except RecursionError; anything else is input-proportional recursion", floor=5)
    cg = callgraph(prog)
    sccs = cg.sccs()
    for comp in sccs:
        key = tuple(comp)
        label = "+".join(k.split("::")[1] for k in comp)
        anchor = f"{comp[0].split('::')[0]}::{label}::cycle"
        node = prog.fn_by_key[comp[0]].node
        if key in BOUNDED_CYCLES:
            ok = _validate_bounded(prog, key)
            run.ob("R-5.3", anchor, ok, f"bounded-cycle table entry no longer validates: {BOUNDED_CYCLES[key]}", node,
                   reason=BOUNDED_CYCLES[key])
            continue
        guarded = _guarded_by_recursion_handler(prog, cg, set(comp))
        run.ob("R-5.3", anchor, guarded,
               f"recursion {label} is proportional to the input (nesting depth / run length) and not guarded by a "
               f"RecursionError handler: RecursionError traceback on a long enough input", node, members=list(comp))


def _validate_bounded(prog, key) -> bool:
    if key == ("registry.py::Registry.run_rules",):
        return _validate_run_rules(prog)
    if key == ("context.py::Context.update",):
        return _validate_context_update(prog)
    return False


def _validate_run_rules(prog) -> bool:
    """The fact behind 'depth 2': for a rule object that is not a Primary, whatever its run() returns, run_rules makes
    no recursive call and answers a falsy `ret`.  Decided by running the function's AST on the analyser's interpreter
    with stub rule objects (class Check / Primary), a stub context and a recording stub for the recursive call."""
    import collections
    fn = prog.fn("registry.py::Registry.run_rules")
    a = fn.node.args
    params = [x.arg for x in a.posonlyargs + a.args]
    if len(params) != 3 or a.vararg or a.kwarg:
        return False
    reg = prog.cls("Registry")
    methods = {("Registry", n): m.node for n, m in reg.methods.items()}
    recursion_seen_for_primary = False
    try:
        for cls_name in ("Check", "Primary"):
            for result in ((True, 3), (False, 0), (True, 0), True, False, None, 1):
                if cls_name == "Primary" and not isinstance(result, tuple):
                    continue
                rec: List[tuple] = []

                def recorder(*args, **kw):
                    rec.append(args)
                    return (False, 0)
                ev = Evaluator(methods, natives={("Registry", "run_rules"): recorder})
                deps = collections.defaultdict(list)
                deps["R"] = [lambda ctx: None]
                deps["_rule"] = [lambda ctx: None]
                me = Obj("Registry", dependencies=deps)
                ctx = Obj("Context", scope=Obj("Scope", instructions=0), tkn_scope=0, history=[], sub=None)
                robj = Obj(cls_name, name="R", _native={"run": (lambda res: (lambda *x: res))(result)})
                try:
                    r = ev.call_function(fn.node, {params[0]: me, params[1]: ctx, params[2]: (lambda o: (lambda *x: o))(robj)})
                except (Raised, LookupError, TypeError, ValueError, AttributeError):
                    if cls_name == "Check":
                        return False             # the result of a Check is looked into: not (False, 0) whatever it returns
                    continue
                if cls_name == "Check":
                    if rec or not (isinstance(r, tuple) and len(r) == 2 and not r[0]):
                        return False
                elif result[0] and rec:
                    recursion_seen_for_primary = True
        return recursion_seen_for_primary        # the stubs really reach the recursive calls (the experiment is not vacuous)
    except Unsupported:
        return _validate_run_rules_syntactic(fn)


def _validate_run_rules_syntactic(fn) -> bool:
    # ret, read = result if isinstance(rule, Primary) else (False, 0)   /   recursive calls only under `if ret:`
    for n in walk_fn(fn.node):
        if isinstance(n, ast.Assign) and isinstance(n.value, ast.IfExp) and "isinstance(rule, Primary)" in text(n.value.test):
            e = n.value.orelse
            if isinstance(e, ast.Tuple) and isinstance(e.elts[0], ast.Constant) and e.elts[0].value is False:
                rec = [c for c in ast.walk(fn.node) if isinstance(c, ast.Call) and text(c.func) == "self.run_rules"]
                return bool(rec) and all(any(isinstance(a, ast.If) and text(a.test) == "ret" for a in ancestors(c)) for c in rec)
    return False


def _validate_context_update(prog) -> bool:
    """Every CFG path from the entry of Context.update to its recursive call passes an assignment of self.scope from
    <scope>.outer() (the recursion climbs one scope per level), with no other store to self.scope in between."""
    fn = prog.fn("context.py::Context.update")
    g = cfg_of(fn)
    me = fn.params[0] if fn.params else "self"
    rec = [c for c in walk_fn(fn.node) if isinstance(c, ast.Call) and isinstance(c.func, ast.Attribute)
           and c.func.attr == "update" and isinstance(c.func.value, ast.Name) and c.func.value.id == me]
    if not rec:
        return False
    # local aliases:  parent = self.scope.outer()
    outer_names = {t.id for n in walk_fn(fn.node) if isinstance(n, ast.Assign) and _is_outer_call(n.value, set())
                   for t in n.targets if isinstance(t, ast.Name)}
    climbs, other_stores = set(), set()
    for n in walk_fn(fn.node):
        if isinstance(n, (ast.Assign, ast.AnnAssign, ast.AugAssign)):
            tg = n.targets if isinstance(n, ast.Assign) else [n.target]
            if any(isinstance(t, ast.Attribute) and t.attr == "scope" and isinstance(t.value, ast.Name) and t.value.id == me
                   for t0 in tg for t in ast.walk(t0)):
                nid = g.nid(n)
                if isinstance(n, ast.Assign) and _is_outer_call(n.value, outer_names):
                    climbs.add(nid)
                else:
                    other_stores.add(nid)
    if not climbs:
        return False
    for c in rec:
        site = _cfg_node_of_expr(g, c)
        if site is None:
            return False
        if g.can_reach(g.entry, site, avoid=climbs, follow_exc=False):
            return False
        # the last store to self.scope before the call is a climb
        for o in other_stores:
            if o is not None and g.can_reach(o, site, avoid=climbs, follow_exc=False):
                return False
    return True


def _is_outer_call(e, outer_names) -> bool:
    if isinstance(e, ast.Name):
        return e.id in outer_names
    return isinstance(e, ast.Call) and isinstance(e.func, ast.Attribute) and e.func.attr == "outer" and not e.args


def _guarded_by_recursion_handler(prog, cg, comp: Set[str]) -> bool:
    """All entries into the cycle from outside happen under a try that catches RecursionError
    (following chains of callers that have a single call site)."""
    frontier = [(k, 0) for k in comp]
    entries = []
    for k in comp:
        for c in cg.sites.get(k, []):
            if c.caller.key not in comp:
                entries.append(c)
    if not entries:
        return False

    def guarded_call(c, depth) -> bool:
        if caught_at(prog, c.node, "RecursionError", c.caller.node) or _catches(prog, c, "RecursionError"):
            return True
        if depth > 4:
            return False
        ups = cg.sites.get(c.caller.key, [])
        return bool(ups) and all(guarded_call(u, depth + 1) for u in ups)

    return all(guarded_call(c, 0) for c in entries)


def _catches(prog, c, exc) -> bool:
    cur = c.node
    for a in ancestors(c.node):
        if a is c.caller.node:
            break
        if isinstance(a, ast.Try) and any(cur is s for s in a.body):
            for h in a.handlers:
                if exc in handler_names(h) or any(nm in ("Exception", "BaseException") for nm in handler_names(h)):
                    return True
        cur = a
    return False


# =========================================================================== R-5.4
def _coef(e, v: str) -> Optional[int]:
    """Sign of the coefficient of name v in a linear expression (None = not linear / unknown)."""
    if isinstance(e, ast.Name):
        return 1 if e.id == v else 0
    if isinstance(e, ast.Constant):
        return 0
    if isinstance(e, ast.UnaryOp) and isinstance(e.op, ast.USub):
        c = _coef(e.operand, v)
        return None if c is None else -c
    if isinstance(e, ast.BinOp) and isinstance(e.op, (ast.Add, ast.Sub)):
        a, b = _coef(e.left, v), _coef(e.right, v)
        if a is None or b is None:
            return None
        r = a + b if isinstance(e.op, ast.Add) else a - b
        return max(-1, min(1, r)) if (a == 0 or b == 0) else (r if abs(r) <= 1 else None)
    if v in {n.id for n in ast.walk(e) if isinstance(n, ast.Name)}:
        return None
    return 0


def _monotone_vars(loop: ast.While) -> Dict[str, int]:
    """name -> +1 / -1 for names whose only assignments in the loop are += c / -= c with constant c > 0
    (assignments from scanning helpers count as +1: skip_ws/skip_nest/eol/... return a position >= their argument)."""
    dirs: Dict[str, Set[int]] = {}
    for n in ast.walk(loop):
        if isinstance(n, ast.AugAssign) and isinstance(n.target, ast.Name) and isinstance(n.value, ast.Constant) \
                and isinstance(n.value.value, int) and n.value.value > 0:
            d = 1 if isinstance(n.op, ast.Add) else (-1 if isinstance(n.op, ast.Sub) else 0)
            dirs.setdefault(n.target.id, set()).add(d)
        elif isinstance(n, ast.AugAssign) and isinstance(n.target, ast.Name):
            dirs.setdefault(n.target.id, set()).add(0)
        elif isinstance(n, (ast.Assign, ast.NamedExpr)):
            tgts = n.targets if isinstance(n, ast.Assign) else [n.target]
            for t in tgts:
                for nm in _tnames(t):
                    v = n.value
                    d = 0
                    if isinstance(v, ast.Call) and isinstance(v.func, ast.Attribute) and v.func.attr in (
                            "skip_ws", "skip_nest", "eol", "skip_misc_specifier") and isinstance(t, ast.Name):
                        d = 1
                    if isinstance(v, ast.BinOp) and isinstance(v.op, ast.Add) and isinstance(v.left, ast.Call) \
                            and isinstance(v.left.func, ast.Attribute) and v.left.func.attr in ("skip_ws", "skip_nest", "eol") \
                            and isinstance(v.right, ast.Constant):
                        d = 1
                    dirs.setdefault(nm, set()).add(d)
        elif isinstance(n, ast.For):
            for nm in _tnames(n.target):
                dirs.setdefault(nm, set()).add(0)
    return {k: next(iter(v)) for k, v in dirs.items() if len(v) == 1 and next(iter(v)) != 0}


def _bounding_conjunct(cond, mono: Dict[str, int]) -> Optional[str]:
    for c in conjuncts(cond):
        if isinstance(c, ast.Compare) and len(c.ops) == 1:
            op = c.ops[0]
            L, R = c.left, c.comparators[0]
            has_lookup = any(isinstance(x, ast.Call) and isinstance(x.func, ast.Attribute)
                             and x.func.attr in ("check_token", "peek_token") for x in ast.walk(c))
            if has_lookup:
                continue
            for v, d in mono.items():
                if isinstance(op, ast.In) and isinstance(L, ast.Name) and L.id == v and isinstance(R, ast.Call) \
                        and text(R.func) == "range" and d == 1:
                    return text(c)
                cl, cr = _coef(L, v), _coef(R, v)
                if cl is None or cr is None or (cl == 0 and cr == 0):
                    continue
                diff = cl - cr           # sign of d(L-R)/dv
                if isinstance(op, (ast.Lt, ast.LtE)) and diff * d > 0:
                    return text(c)
                if isinstance(op, (ast.Gt, ast.GtE)) and diff * d < 0:
                    return text(c)
    return None


def _assigned_in(loop) -> Set[str]:
    out: Set[str] = set()
    for n in ast.walk(loop):
        if isinstance(n, ast.Assign):
            for t in n.targets:
                out.update(_tnames(t))
        elif isinstance(n, (ast.AugAssign, ast.AnnAssign)):
            out.update(_tnames(n.target))
        elif isinstance(n, ast.NamedExpr):
            out.add(n.target.id)
        elif isinstance(n, ast.For):
            out.update(_tnames(n.target))
    return out


def _loop_anchor(loop: ast.While) -> str:
    consts = sorted({c.value for c in ast.walk(loop.test) if isinstance(c, ast.Constant) and isinstance(c.value, str)})
    if consts:
        return "kinds=" + ",".join(consts)
    names = sorted({n.id for n in ast.walk(loop.test) if isinstance(n, ast.Name)} - {"context", "self"})
    return "names=" + ",".join(names)


def rule_loop(run, prog):
    run.rule("R-5.4", "LOOP: every while loop that looks tokens (or characters) up has an exit enabled when all look-ups "
             "whose position the loop modifies answer None: condition definitely false there, or a bound on a monotone "
             "index, or a break/return/raise reachable in the body in that state; definitely-true or frozen-unknown "
             "conditions are violations", floor=140)
    n_loops = 0
    for fn in prog.fns:
        rel = fn.mod.rel
        if not (rel.startswith("rules/") or rel in ("context.py", "lexer/lexer.py", "registry.py")):
            continue
        lexer_mode = rel == "lexer/lexer.py"
        for loop in [n for n in walk_fn(fn.node) if isinstance(n, ast.While)]:
            has_lookup = any(isinstance(x, ast.Call) and isinstance(x.func, ast.Attribute)
                             and x.func.attr in ("check_token", "peek_token", "peek", "raw_peek") for x in ast.walk(loop))
            if not has_lookup:
                continue
            n_loops += 1
            key = f"{fn.key}::while[{_loop_anchor(loop)}]"
            modified = _assigned_in(loop)
            mono = _monotone_vars(loop)
            bound = _bounding_conjunct(loop.test, mono)
            if bound is not None:
                run.ob("R-5.4", key, True, "bounded", loop, how=f"bounded by {bound}")
                continue
            st = EndState(modified, lexer_mode=lexer_mode)
            c = st.ev(loop.test)
            if c == X or truthy(c) is False:
                run.ob("R-5.4", key, True, "exits", loop, how=f"condition is {c} in the end state")
                continue
            res = BodyResult()
            st2 = EndState(modified, lexer_mode=lexer_mode)
            st2.none_names = set(st.none_names)
            explore_body(loop.body, st2, res)
            if res.exit_reachable:
                run.ob("R-5.4", key, True, "exits", loop, how="break/return/raise reachable in the end state")
                continue
            if truthy(c) is True:
                run.ob("R-5.4", key, False,
                       "loop condition is definitely true once the index passes the last token and the body has no exit "
                       "in that state: the run never terminates on truncated input", loop, cond=text(loop.test))
                continue
            # unknown: frozen?
            free = {n.id for n in ast.walk(loop.test) if isinstance(n, ast.Name)} - {"context", "self", "True", "False", "None"}
            attrs = {text(a) for a in ast.walk(loop.test) if isinstance(a, ast.Attribute) and isinstance(a.ctx, ast.Load)}
            touched = set()
            for nm in free:
                if nm in res.assigned or (nm + ".*") in res.assigned:
                    touched.add(nm)
            for a in attrs:
                if a in res.assigned or (a.split(".")[0] + ".*") in res.assigned:
                    touched.add(a)          # stored directly, or its owner is mutated through a method call
            # calls in the condition (other than look-ups answering None) whose arguments change
            for call in [x for x in ast.walk(loop.test) if isinstance(x, ast.Call)]:
                if st.is_lookup(call):
                    continue
                argnames = {n.id for a in list(call.args) + [k.value for k in call.keywords] for n in ast.walk(a)
                            if isinstance(n, ast.Name)}
                if argnames & res.assigned:
                    touched.add(text(call.func))
                if isinstance(call.func, ast.Attribute):
                    b = call.func.value
                    while isinstance(b, (ast.Attribute, ast.Subscript, ast.Call)):
                        b = b.func if isinstance(b, ast.Call) else b.value
                    if isinstance(b, ast.Name) and b.id not in ("context", "self") and (b.id in res.assigned or b.id + ".*" in res.assigned):
                        touched.add(b.id)
            if touched:
                run.ob("R-5.4", key, True, "undecided", loop, how=f"condition unknown, depends on {sorted(touched)} changed in the body")
            else:
                run.ob("R-5.4", key, False,
                       "loop condition cannot change once the index passes the last token (nothing it reads is assigned "
                       "on any body path feasible in that state) and the body has no exit: frozen loop, the run hangs "
                       "on truncated input", loop, cond=text(loop.test), assigned=sorted(res.assigned))
    run.require(n_loops >= 140, f"only {n_loops} token-scanning while loops found (floor 140)")


# =========================================================================== R-5.5
def rule_progress(run, prog):
    run.rule("R-5.5", "MPT progress: each iteration of Registry.run's main loop reaches context.pop_tokens(1 | the matched "
             "primary's count); no Primary.run returns (True, 0); every sub-parser pops before it returns a token; the "
             "bad-lexeme and splice paths of get_next_token advance the position", floor=25)
    rn = prog.fn("registry.py::Registry.run")
    g = cfg_of(rn)
    loops = [n for n in walk_fn(rn.node) if isinstance(n, ast.While) and "tokens" in text(n.test)]
    run.require(len(loops) == 1, "anchor vanished: main while loop of Registry.run")
    loop = loops[0]
    tnode = g.nid(loop.test)
    pops = []
    for n in ast.walk(loop):
        if isinstance(n, ast.Call) and isinstance(n.func, ast.Attribute) and n.func.attr == "pop_tokens":
            pops.append(n)
    pop_nodes = {_cfg_node_of_expr(g, p) for p in pops}
    body_first = [m for m, lab in g.succ[tnode] if lab == "T"]
    stuck = any(m == tnode or g.can_reach(m, tnode, avoid=pop_nodes, follow_exc=False) for m in body_first if m not in pop_nodes)
    run.ob("R-5.5", f"{rn.key}::iteration-pops", bool(pops) and not stuck,
           "an iteration of the main loop can come back to the loop test without consuming a token", loop,
           pop_calls=[text(p) for p in pops])
    for p in pops:
        a = p.args[0] if p.args else None
        ok = False
        if isinstance(a, ast.Constant) and isinstance(a.value, int) and a.value >= 1:
            ok = True
        elif isinstance(a, ast.Name):
            # second component of `ret, jump = self.run_rules(...)`
            for n in ast.walk(loop):
                if isinstance(n, ast.Assign) and isinstance(n.targets[0], ast.Tuple) and len(n.targets[0].elts) == 2 \
                        and isinstance(n.targets[0].elts[1], ast.Name) and n.targets[0].elts[1].id == a.id \
                        and text(n.value).startswith("self.run_rules"):
                    ok = True
        run.ob("R-5.5", f"{rn.key}::pop_tokens[{text(a) if a is not None else ''}]", ok,
               "pop_tokens is called with something other than 1 or the matched primary's token count", p)
    # pop_tokens slices from the front
    pt = prog.fn("context.py::Context.pop_tokens")
    ok = any(isinstance(n, ast.Assign) and text(n.targets[0]) == "self.tokens" and isinstance(n.value, ast.Subscript)
             and text(n.value.value) == "self.tokens" and isinstance(n.value.slice, ast.Slice)
             and n.value.slice.lower is not None and n.value.slice.upper is None for n in walk_fn(pt.node))
    run.ob("R-5.5", f"{pt.key}::front-slice", ok, "Context.pop_tokens no longer drops a prefix of self.tokens", pt.node)
    # (c) no Primary.run returns (True, 0)
    for c in registry_model(prog).primaries:
        m = prog.method(c.name, "run")
        if m is None:
            continue
        bad = [n for n in walk_fn(m.node) if isinstance(n, ast.Return) and isinstance(n.value, ast.Tuple)
               and len(n.value.elts) == 2 and isinstance(n.value.elts[0], ast.Constant) and n.value.elts[0].value is True
               and isinstance(n.value.elts[1], ast.Constant) and n.value.elts[1].value == 0]
        run.ob("R-5.5", f"{m.key}::no-true-zero", not bad,
               "a primary reports a match that consumes zero tokens: the main loop would not advance", bad[0] if bad else m.node)
    # (b) lexer: every token-returning path passed through a pop
    for fn in lexer_parsers(prog):
        gg = cfg_of(fn)
        pnodes = {_cfg_node_of_expr(gg, p) for p in _pop_sites(fn)}
        pnodes.discard(None)
        bad = []
        for n in walk_fn(fn.node):
            if isinstance(n, ast.Return) and n.value is not None and not (isinstance(n.value, ast.Constant) and n.value.value is None):
                rid = gg.nid(n)
                if rid in pnodes:
                    continue
                if rid in gg.reachable(gg.entry, avoid=pnodes):
                    bad.append(n)
        run.ob("R-5.5", f"{fn.key}::pop-before-token", not bad,
               "a sub-parser can return a token without having consumed any character: the tokenizer would not advance",
               bad[0] if bad else fn.node)
    gnt = prog.fn("lexer/lexer.py::Lexer.get_next_token")
    gg = cfg_of(gnt)
    adv = set()
    for n in walk_fn(gnt.node):
        if isinstance(n, ast.AugAssign) and isinstance(n.op, ast.Add) and text(n.target).endswith("__pos"):
            adv.add(gg.nid(n))
    whiles = [n for n in walk_fn(gnt.node) if isinstance(n, ast.While)]
    run.require(whiles, "anchor vanished: loops of get_next_token")
    for w in whiles:
        t = gg.nid(w.test)
        firsts = [m for m, lab in gg.succ[t] if lab == "T"]
        stuck = any(m == t or gg.can_reach(m, t, avoid=adv, follow_exc=False) for m in firsts if m not in adv)
        run.ob("R-5.5", f"{gnt.key}::while[{text(w.test, 30)}]::advances", not stuck,
               "a loop of get_next_token can iterate without advancing the source position", w)
    # no self-recursion left in get_next_token (one frame per bad lexeme)
    rec = [n for n in walk_fn(gnt.node) if isinstance(n, ast.Call) and text(n.func) == "self.get_next_token"]
    run.ob("R-5.5", f"{gnt.key}::iterative", not rec, "get_next_token recurses once per bad lexeme", rec[0] if rec else gnt.node)


# =========================================================================== R-5.6
def rule_helpers(run, prog):
    run.rule("R-5.6", "helper totality (analyser's interpreter over token lists of length 0..3 and positions -5..5): "
             "Context.peek_token returns tokens[pos] for 0 <= pos < len and None otherwise, never wraps, never raises; "
             "check_token returns None exactly when peek_token does; Lexer.raw_peek / peek return None past the end",
             floor=4)
    ctx = prog.cls("Context")
    methods = {("Context", n): m.node for n, m in ctx.methods.items()}
    pk = prog.method("Context", "peek_token")
    ck = prog.method("Context", "check_token")
    run.require(pk is not None and ck is not None, "anchor vanished: Context.peek_token / check_token")
    bad = None
    n_eval = 0
    for n in range(0, 4):
        toks = [Obj("Token", type=f"K{i}", value=None, pos=(1, i + 1)) for i in range(n)]
        for pos in range(-5, 6):
            ev = Evaluator(methods)
            try:
                r = ev.call_function(pk.node, {"self": Obj("Context", tokens=toks), "pos": pos})
            except Unsupported as e:
                raise AnalysisError(f"Context.peek_token outside the evaluable subset: {e}")
            except (Raised, LookupError, TypeError, ValueError, AttributeError) as e:
                r = e.name if isinstance(e, Raised) else type(e).__name__
            n_eval += 1
            want = toks[pos] if 0 <= pos < n else None
            if r is not want and bad is None:
                bad = (n, pos, repr(r), repr(want))
    run.ob("R-5.6", f"{pk.key}::total", bad is None,
           (f"peek_token(len={bad[0]}, pos={bad[1]}) gives {bad[2]}, expected {bad[3]}: backward scans wrap around or "
            f"raise IndexError") if bad else "peek_token total", pk.node, evaluations=n_eval)
    bad = None
    for n in range(0, 3):
        toks = [Obj("Token", type=f"K{i}", value=None, pos=(1, i + 1)) for i in range(n)]
        for pos in range(-3, 4):
            for val in ("K0", ["K0", "K1"], ("K1",)):
                ev = Evaluator(methods)
                try:
                    r = ev.call_function(ck.node, {"self": Obj("Context", tokens=toks), "pos": pos, "value": val})
                except Unsupported as e:
                    raise AnalysisError(f"Context.check_token outside the evaluable subset: {e}")
                except (Raised, LookupError, TypeError, ValueError, AttributeError) as e:
                    r = e.name if isinstance(e, Raised) else type(e).__name__
                inside = 0 <= pos < n
                if inside:
                    want = (toks[pos].type in val) if isinstance(val, (list, tuple)) else (toks[pos].type == val)
                else:
                    want = None
                if r is not want and bad is None:
                    bad = (n, pos, val, repr(r), repr(want))
    run.ob("R-5.6", f"{ck.key}::total", bad is None,
           f"check_token(len={bad[0]}, pos={bad[1]}, {bad[2]!r}) gives {bad[3]}, expected {bad[4]}" if bad else "ok", ck.node)
    # Lexer.raw_peek / peek
    lx = prog.cls("Lexer")
    lm = {("Lexer", n): m.node for n, m in lx.methods.items()}
    rp = prog.method("Lexer", "raw_peek")
    run.require(rp is not None, "anchor vanished: Lexer.raw_peek")
    lex_globals = _module_constants(prog, lx)

    def lexer_at(ev, src, pos):
        """A Lexer instance over *src* (built by interpreting Lexer.__init__ when that is possible, so that
        attributes added by a refactoring - caches, counters - get their initial values) moved to *pos*."""
        f = Obj("File", source=src, errors=Obj("Errors", _native={"add": lambda *a: None}))
        me = Obj("Lexer")
        init = lm.get(("Lexer", "__init__"))
        try:
            if init is None:
                raise Unsupported("no __init__")
            ev.invoke(init, [me, f], {})
        except Unsupported:
            me = Obj("Lexer", file=f)
            me.__dict__["__line"] = me.__dict__["__line_pos"] = 1
        me.__dict__["file"] = f
        me.__dict__["__pos"] = pos
        return me

    def new_ev():
        ev = Evaluator(lm)
        ev.globals.update(lex_globals)
        ev.exc_bases = lambda name: exc_bases(prog, name)
        return ev

    bad = None
    for src in ("", "a", "ab?"):
        for pos in range(0, 4):
            for off in (0, 1, 2):
                for col in (1, 2, 3):
                    ev = new_ev()
                    try:
                        r = ev.invoke(rp.node, [lexer_at(ev, src, pos)], {"offset": off, "collect": col})
                    except Unsupported as e:
                        raise AnalysisError(f"Lexer.raw_peek outside the evaluable subset: {e}")
                    except (Raised, LookupError, TypeError, ValueError, AttributeError) as e:
                        r = f"raises {type(e).__name__ if not isinstance(e, Raised) else e.name}"
                    want = src[pos + off: pos + off + col] if pos + off < len(src) else None
                    if r != want and bad is None:
                        bad = (src, pos, off, col, r, want)
    run.ob("R-5.6", f"{rp.key}::total", bad is None,
           f"raw_peek(source={bad[0]!r}, pos={bad[1]}, offset={bad[2]}, collect={bad[3]}) gives {bad[4]!r}, expected {bad[5]!r}" if bad else "ok",
           rp.node)
    # Lexer.peek: None exactly when nothing can be read at pos + offset, otherwise (text, size) with
    # 1 <= size <= characters left; never raises.  Checked on the analyser's interpreter (raw_peek is the
    # repository's own, verified above) over sources made of plain, trigraph and digraph material.
    pk2 = prog.method("Lexer", "peek")
    run.require(pk2 is not None, "anchor vanished: Lexer.peek")
    bad = None
    n_eval = 0
    for src in ("", "a", "ab", "?", "??", "??/", "??/x", "a??=", "<:", "<:a", "%:%:", "\\\n", "a\n"):
        for pos in range(0, len(src) + 2):
            for times in (1, 2, 3):
                for off in (0, 1, 2):
                    ev = new_ev()
                    try:
                        r = ev.invoke(pk2.node, [lexer_at(ev, src, pos)], {"times": times, "offset": off})
                    except Unsupported as e:
                        raise AnalysisError(f"Lexer.peek outside the evaluable subset: {e}")
                    except (Raised, LookupError, TypeError, ValueError, AttributeError) as e:
                        r = f"raises {type(e).__name__ if not isinstance(e, Raised) else e.name}"
                    n_eval += 1
                    left = len(src) - pos - off
                    if left <= 0:
                        good = r is None
                        want = "None"
                    else:
                        good = isinstance(r, tuple) and len(r) == 2 and isinstance(r[0], str) and r[0] != "" \
                            and isinstance(r[1], int) and not isinstance(r[1], bool) and 1 <= r[1] <= left
                        want = f"(text, size) with 1 <= size <= {left}"
                    if not good and bad is None:
                        bad = (src, pos, times, off, r, want)
    run.ob("R-5.6", "lexer/lexer.py::Lexer.peek::none-at-end", bad is None,
           (f"Lexer.peek no longer returns None when nothing could be read (or reads past the end): "
            f"peek(source={bad[0]!r}, pos={bad[1]}, times={bad[2]}, offset={bad[3]}) gives {bad[4]!r}, expected {bad[5]}")
           if bad else "ok", pk2.node, evaluations=n_eval)


def _module_constants(prog, cls) -> Dict[str, object]:
    """Foldable module-level names (tables, strings) read by the methods of *cls*: the globals of the interpreter."""
    out: Dict[str, object] = {}
    mod = cls.mod
    for m in cls.methods.values():
        for n in ast.walk(m.node):
            if isinstance(n, ast.Name) and isinstance(n.ctx, ast.Load) and n.id not in out \
                    and (n.id in mod.assigns or n.id in mod.imports):
                try:
                    out[n.id] = fold_name(n.id, mod)
                except (Unknown, RecursionError):
                    pass
    return out


# =========================================================================== R-5.7
def rule_dictkeys(run, prog):
    run.rule("R-5.7", "TABLE: every subscript on a folded module-level lexer table has a key value set (from the guards "
             "that dominate it) included in the table's keys", floor=8)
    lexmod = prog.mod("lexer/lexer.py")
    tables = {}
    for name in ("operators", "brackets", "keywords", "trigraphs", "digraphs"):
        try:
            tables[name] = fold_name(name, lexmod)
        except Unknown as e:
            raise AnalysisError(f"lexer table {name} does not fold: {e}")
    n_sub = 0
    for fn in prog.functions_in("lexer/lexer.py"):
        for n in walk_fn(fn.node):
            if isinstance(n, ast.Subscript) and isinstance(n.value, ast.Name) and n.value.id in tables \
                    and isinstance(n.ctx, ast.Load):
                n_sub += 1
                tname = n.value.id
                keys = set(tables[tname])
                vs = key_value_set(fn, n.slice, n, tables)
                ok = vs is not None and vs <= keys
                missing = sorted(vs - keys) if vs is not None else None
                run.ob("R-5.7", f"{fn.key}::{tname}[{text(n.slice, 40)}]", ok,
                       (f"key(s) {missing} can reach {tname}[...] but are not in the table: KeyError" if vs is not None
                        else f"cannot bound the keys reaching {tname}[...] from the dominating guards"),
                       n, key_set_size=(len(vs) if vs is not None else None))
    run.require(n_sub >= 8, f"only {n_sub} table subscripts found in the lexer (floor 8)")


def key_value_set(fn: Fn, key_expr, at, tables) -> Optional[Set[str]]:
    """Value set of the key expression at node *at* (None = unknown)."""
    # K in D / K := ... in D guards on the very expression or the name
    if isinstance(key_expr, ast.Name):
        vs = name_value_set(fn, key_expr.id, at, tables)
        if vs is not None:
            return vs
        # name assigned from self.pop(): same characters as the guarded peek
        asg = [n for n in walk_fn(fn.node) if isinstance(n, ast.Assign) and len(n.targets) == 1
               and isinstance(n.targets[0], ast.Name) and n.targets[0].id == key_expr.id]
        if len(asg) >= 1 and all(_is_pop(a.value) for a in asg):
            return popped_value_set(fn, asg[-1].value, asg[-1], tables)
        return None
    if _is_pop(key_expr):
        return popped_value_set(fn, key_expr, at, tables)
    return None


def _is_pop(e) -> bool:
    return isinstance(e, ast.Call) and isinstance(e.func, ast.Attribute) and e.func.attr == "pop" \
        and isinstance(e.func.value, ast.Name) and e.func.value.id == "self"


def _times(popcall) -> int:
    for k in popcall.keywords:
        if k.arg == "times" and isinstance(k.value, ast.Constant):
            return int(k.value.value)
    return 1 if not popcall.keywords else -1


def _enclosing_true_conjuncts(at):
    """Conjuncts of the tests of the If statements whose *true* branch contains the node."""
    cur = at
    for a in ancestors(at):
        if isinstance(a, ast.If) and any(cur is s for s in a.body):
            for c in conjuncts(a.test):
                yield c
        if isinstance(a, (ast.FunctionDef, ast.AsyncFunctionDef)):
            break
        cur = a


def _early_exit_guards(fn: Fn, at):
    """`if <cond>: return` statements that precede *at* in an enclosing block: yields the disjuncts of
    cond, each known to be FALSE at *at*."""
    from ..facts import disjuncts
    cur = at
    for a in ancestors(at):
        body = None
        for field in ("body", "orelse", "finalbody"):
            blk = getattr(a, field, None)
            if isinstance(blk, list) and any(cur is s for s in blk):
                body = blk
        if body is not None:
            for s in body:
                if s is cur:
                    break
                if isinstance(s, ast.If) and not s.orelse and s.body and isinstance(s.body[-1], (ast.Return, ast.Raise, ast.Break, ast.Continue)):
                    for d in disjuncts(s.test):
                        yield d
        if isinstance(a, (ast.FunctionDef, ast.AsyncFunctionDef)):
            break
        cur = a


def _as_set(fn: Fn, e, tables) -> Optional[Set[str]]:
    if isinstance(e, ast.Name) and e.id in tables:
        return set(tables[e.id])
    v = fold_in_fn(e, fn, default=None)
    if isinstance(v, str):
        return set(v)              # `c in "abc"`: single characters
    if isinstance(v, dict):
        return set(v)
    if isinstance(v, (tuple, list, set, frozenset)) and all(isinstance(x, str) for x in v):
        return set(v)
    return None


def name_value_set(fn: Fn, name: str, at, tables, _depth=0) -> Optional[Set[str]]:
    cons: List[Set[str]] = []
    for c in _enclosing_true_conjuncts(at):
        if isinstance(c, ast.Compare) and len(c.ops) == 1:
            L, op, R = c.left, c.ops[0], c.comparators[0]
            lname = L.id if isinstance(L, ast.Name) else (L.target.id if isinstance(L, ast.NamedExpr) else None)
            if lname == name and isinstance(op, ast.In):
                s = _as_set(fn, R, tables)
                if s is not None:
                    cons.append(s)
            elif lname == name and isinstance(op, ast.Eq):
                s = expr_value_set(fn, R, at, tables, _depth + 1)
                if s is not None:
                    cons.append(s)
    for d in _early_exit_guards(fn, at):
        # d is false here:  `name not in S` false  =>  name in S
        if isinstance(d, ast.Compare) and len(d.ops) == 1 and isinstance(d.left, ast.Name) and d.left.id == name \
                and isinstance(d.ops[0], ast.NotIn):
            s = _as_set(fn, d.comparators[0], tables)
            if s is not None:
                cons.append(s)
    if not cons:
        return None
    out = cons[0]
    for s in cons[1:]:
        out = out & s
    return out


def expr_value_set(fn: Fn, e, at, tables, _depth=0) -> Optional[Set[str]]:
    if _depth > 4:
        return None
    v = fold_in_fn(e, fn, default=None)
    if isinstance(v, str):
        return {v}
    if isinstance(e, ast.Name):
        return name_value_set(fn, e.id, at, tables, _depth + 1)
    if isinstance(e, ast.BinOp) and isinstance(e.op, ast.Add):
        a = expr_value_set(fn, e.left, at, tables, _depth + 1)
        b = expr_value_set(fn, e.right, at, tables, _depth + 1)
        if a is None or b is None:
            return None
        return {x + y for x in a for y in b}
    if isinstance(e, ast.BinOp) and isinstance(e.op, ast.Mult) and isinstance(e.right, ast.Constant) and isinstance(e.right.value, int):
        a = expr_value_set(fn, e.left, at, tables, _depth + 1)
        return None if a is None else {x * e.right.value for x in a}
    return None


def popped_value_set(fn: Fn, popcall, at, tables) -> Optional[Set[str]]:
    """What `self.pop(times=k)` can return at *at*, from guards on the look-ahead of the same k characters."""
    k = _times(popcall)
    if k < 1:
        return None
    cons: List[Set[str]] = []
    peek_names = {}          # name -> k for names bound from self.peek(times=k) / raw_peek(collect=k)
    for n in walk_fn(fn.node):
        tgt = val = None
        if isinstance(n, ast.Assign) and len(n.targets) == 1:
            tgt, val = n.targets[0], n.value
        elif isinstance(n, ast.NamedExpr):
            tgt, val = n.target, n.value
        if tgt is None:
            continue
        kk = _lookahead_len(val)
        if kk is not None:
            nm = tgt.elts[0] if isinstance(tgt, ast.Tuple) and tgt.elts else tgt
            if isinstance(nm, ast.Name):
                peek_names[nm.id] = kk
        elif isinstance(val, ast.Name) and isinstance(tgt, ast.Tuple) and tgt.elts and isinstance(tgt.elts[0], ast.Name):
            # char, _ = result   where result = self.peek()
            if val.id in peek_names:
                peek_names[tgt.elts[0].id] = peek_names[val.id]
    # `result = self.peek()` then `char, _ = result`
    for n in walk_fn(fn.node):
        if isinstance(n, ast.Assign) and len(n.targets) == 1 and isinstance(n.targets[0], ast.Tuple) \
                and isinstance(n.value, ast.Name) and n.value.id in peek_names and n.targets[0].elts \
                and isinstance(n.targets[0].elts[0], ast.Name):
            peek_names[n.targets[0].elts[0].id] = peek_names[n.value.id]
    for c in _enclosing_true_conjuncts(at):
        if isinstance(c, ast.Compare) and len(c.ops) == 1:
            L, op, R = c.left, c.ops[0], c.comparators[0]
            if _lookahead_len(L) == k and isinstance(op, ast.In):
                s = _as_set(fn, R, tables)
                if s is not None and (k == 1 or not isinstance(fold_in_fn(R, fn, default=None), str)):
                    cons.append(s)
            if isinstance(L, ast.Name) and peek_names.get(L.id) == k:
                if isinstance(op, ast.In):
                    s = _as_set(fn, R, tables)
                    if s is not None and (k == 1 or not isinstance(fold_in_fn(R, fn, default=None), str)):
                        cons.append(s)
                elif isinstance(op, ast.Eq):
                    s = expr_value_set(fn, R, at, tables)
                    if s is not None:
                        cons.append(s)
    if k == 1:
        for nm, kk in peek_names.items():
            if kk == 1:
                s = name_value_set(fn, nm, at, tables)
                if s is not None:
                    cons.append(s)
    if not cons:
        return None
    out = cons[0]
    for s in cons[1:]:
        out = out & s
    return out


def _lookahead_len(e) -> Optional[int]:
    """self.peek(times=k) / self.raw_peek(collect=k) -> k (1 by default)."""
    if isinstance(e, ast.Call) and isinstance(e.func, ast.Attribute) and e.func.attr in PEEKS \
            and isinstance(e.func.value, ast.Name) and e.func.value.id == "self":
        k = 1
        for kw in e.keywords:
            if kw.arg in ("times", "collect"):
                if isinstance(kw.value, ast.Constant) and isinstance(kw.value.value, int):
                    k = kw.value.value
                else:
                    return None
            elif kw.arg == "offset":
                return None
        return k
    return None


# =========================================================================== R-5.8
VALUE_KINDS = {"IDENTIFIER", "CONSTANT", "STRING", "CHAR_CONST", "COMMENT", "MULT_COMMENT"}


def _needs_str(fn, node, depth=0):
    """Does the value of *node* (a token's .value, None for keyword / punctuator tokens) get used as a string?
    Returns the offending expression or None."""
    p = parent(node)
    if isinstance(p, ast.Attribute) and p.value is node:
        return p                                   # method / attribute of str
    if isinstance(p, ast.Subscript) and p.value is node:
        return p
    if isinstance(p, (ast.For, ast.comprehension)) and p.iter is node:
        return p.iter
    if isinstance(p, ast.BinOp):
        return p
    if isinstance(p, ast.Call) and text(p.func) in ("len", "os.path.splitext", "os.path.basename") and any(a is node for a in p.args):
        return p
    if isinstance(p, ast.Compare) and len(p.ops) == 1 and isinstance(p.ops[0], (ast.In, ast.NotIn)) and p.left is not node:
        return p                                   # `x in value`
    if isinstance(p, ast.Assign) and p.value is node and len(p.targets) == 1 and isinstance(p.targets[0], ast.Name) and depth < 2:
        name = p.targets[0].id
        for n in walk_fn(fn.node):
            if isinstance(n, ast.Name) and n.id == name and isinstance(n.ctx, ast.Load) and (n.lineno, n.col_offset) > (p.lineno, p.col_offset):
                r = _needs_str(fn, n, depth + 1)
                if r is not None:
                    return r
    return None


def rule_value_nullability(run, prog):
    run.rule("R-5.8", "nullability of token text: Token.value is None for keyword and punctuator tokens; wherever a rule uses "
             "it as a string (method call, iteration, slicing, concatenation, len) the token's kinds - from guards valid on "
             "every CFG path or the re-validated precondition table - are value-bearing kinds only", floor=15)
    from .c17 import all_reads
    n = 0
    for r in all_reads(prog):
        if r.how != "value" or r.kind_source == "dead":
            continue
        use = _needs_str(r.fn, r.node)
        if use is None:
            continue
        n += 1
        ok = r.kinds is not None and r.kinds <= VALUE_KINDS
        extra = sorted(r.kinds - VALUE_KINDS)[:6] if r.kinds is not None else None
        run.ob("R-5.8", r.key.replace("::read[", "::value-as-str["), ok,
               (f"`{text(use, 60)}` uses the token text as a string but the token may be of kind(s) {extra} whose value is "
                f"None: AttributeError/TypeError traceback" if r.kinds is not None else
                f"`{text(use, 60)}` uses the token text as a string but nothing bounds the token's kind ({r.kind_source})"),
               r.node, kinds=(sorted(r.kinds)[:8] if r.kinds is not None else "unknown"), kind_source=r.kind_source)
    run.require(n >= 15, f"only {n} string uses of token text found (floor 15)")


# =========================================================================== R-5.9
def rule_local_list_index(run, prog):
    run.rule("R-5.9", "indexing of local lists: a list created empty in a function and indexed by position (L[-1], L[0], "
             "L[k]) is dominated by evidence that it is long enough: a test on its truthiness / length on the path, or an "
             "early exit when it is empty", floor=6)
    n = 0
    for fn in prog.fns:
        rel = fn.mod.rel
        if not (rel.startswith("rules/") or rel in ("context.py", "registry.py")):
            continue
        locals_ = {t.id for x in walk_fn(fn.node) if isinstance(x, ast.Assign) and isinstance(x.value, ast.List) and not x.value.elts
                   for t in x.targets if isinstance(t, ast.Name)}
        if not locals_:
            continue
        for x in walk_fn(fn.node):
            if isinstance(x, ast.Subscript) and isinstance(x.ctx, ast.Load) and isinstance(x.value, ast.Name) and x.value.id in locals_ \
                    and not isinstance(x.slice, ast.Slice):
                L = x.value.id
                if trivially_dead_(x):
                    continue
                n += 1
                ev = _length_evidence(fn, L, x)
                run.ob("R-5.9", f"{fn.key}::index[{text(x, 30)}]", ev is not None,
                       f"`{text(x)}`: the list `{L}` starts empty and nothing on the path shows that it has been filled: "
                       f"IndexError traceback on input for which no element was collected", x, evidence=ev)
    run.require(n >= 6, f"only {n} positional accesses to local lists found (floor 6)")


def trivially_dead_(node):
    from ..facts import trivially_dead
    return trivially_dead(node)


def _length_evidence(fn, L: str, at) -> Optional[str]:
    from ..facts import disjuncts

    def nonempty_when_true(c) -> bool:
        t = text(c)
        if t == L:
            return True
        if isinstance(c, ast.Compare) and len(c.ops) == 1 and text(c.left) == f"len({L})":
            op, r = c.ops[0], c.comparators[0]
            if isinstance(r, ast.Constant) and isinstance(r.value, int):
                if isinstance(op, ast.Gt) and r.value >= 0:
                    return True
                if isinstance(op, ast.GtE) and r.value >= 1:
                    return True
                if isinstance(op, ast.NotEq) and r.value == 0:
                    return True
                if isinstance(op, ast.Eq) and r.value >= 1:
                    return True
        if isinstance(c, ast.Compare) and len(c.ops) == 1 and text(c.left) == L and isinstance(c.ops[0], ast.NotEq) \
                and isinstance(c.comparators[0], ast.List) and not c.comparators[0].elts:
            return True
        if isinstance(c, ast.BoolOp) and isinstance(c.op, ast.And):
            return any(nonempty_when_true(v) for v in c.values)
        return False

    def nonempty_when_false(c) -> bool:
        if isinstance(c, ast.UnaryOp) and isinstance(c.op, ast.Not):
            return nonempty_when_true(c.operand)
        if isinstance(c, ast.Compare) and len(c.ops) == 1 and text(c.left) == f"len({L})":
            op, r = c.ops[0], c.comparators[0]
            if isinstance(r, ast.Constant) and isinstance(r.value, int):
                if isinstance(op, ast.Eq) and r.value == 0:
                    return True
                if isinstance(op, ast.Lt) and r.value >= 1:
                    return True
                if isinstance(op, ast.LtE) and r.value >= 0:
                    return True
        if isinstance(c, ast.Compare) and len(c.ops) == 1 and text(c.left) == L and isinstance(c.ops[0], ast.Eq) \
                and isinstance(c.comparators[0], ast.List) and not c.comparators[0].elts:
            return True
        if isinstance(c, ast.BoolOp) and isinstance(c.op, ast.Or):
            return any(nonempty_when_false(v) for v in c.values)
        return False

    # earlier operands / enclosing ifs
    cur = at
    for a in ancestors(at):
        if isinstance(a, ast.BoolOp):
            pos = next((i for i, v in enumerate(a.values) if any(y is cur for y in ast.walk(v))), None)
            if pos is not None:
                for v in a.values[:pos]:
                    if (nonempty_when_true(v) if isinstance(a.op, ast.And) else nonempty_when_false(v)):
                        return f"earlier operand `{text(v, 40)}`"
        if isinstance(a, (ast.If, ast.While)) and not any(y is cur for y in ast.walk(a.test)):
            in_body = any(any(y is at for y in ast.walk(s_)) for s_ in a.body)
            if in_body and any(nonempty_when_true(c) for c in conjuncts(a.test)):
                return f"guard `{text(a.test, 40)}`"
            if not in_body and isinstance(a, ast.If) and any(nonempty_when_false(d) for d in disjuncts(a.test)):
                return f"else branch of `{text(a.test, 40)}`"
        if isinstance(a, (ast.FunctionDef, ast.AsyncFunctionDef)):
            break
        cur = a
    # early exits earlier in an enclosing block
    st = at
    while not isinstance(st, ast.stmt):
        st = parent(st)
    cur = st
    for a in ancestors(st):
        for field in ("body", "orelse", "finalbody"):
            blk = getattr(a, field, None)
            if isinstance(blk, list) and any(s_ is cur for s_ in blk):
                for s_ in blk:
                    if s_ is cur:
                        break
                    if isinstance(s_, ast.If) and not s_.orelse and s_.body and isinstance(s_.body[-1], (ast.Return, ast.Raise, ast.Continue, ast.Break)):
                        if any(nonempty_when_false(d) for d in disjuncts(s_.test)):
                            return f"early exit on `{text(s_.test, 40)}`"
        if isinstance(a, (ast.FunctionDef, ast.AsyncFunctionDef)):
            break
        cur = a
    return None


# ===========================================================================
def check(run, prog):
    rule_local_list_index(run, prog)
    rule_value_nullability(run, prog)
    rule_ret(run, prog)
    rule_ret_positions(run, prog)
    rule_exc(run, prog)
    rule_rec(run, prog)
    rule_loop(run, prog)
    rule_progress(run, prog)
    rule_helpers(run, prog)
    rule_dictkeys(run, prog)
